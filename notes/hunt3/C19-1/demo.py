"""C19 finding 1: steps with exponent d >= 32 are silently dropped, so for tolerances
below ~1.9e-7 the returned steps do not add up to the angle within the tolerance."""
import sys
from fractions import Fraction

from netqasm.sdk.toolbox import get_angle_spec_from_float

PI = Fraction("3.14159265358979323846264338327950288419716939937510")


def dist_mod_2pi(angle, nds):
    diff = (sum((Fraction(n, 2**d) for n, d in nds), Fraction(0)) * PI - Fraction(angle)) % (2 * PI)
    return float(min(diff, 2 * PI - diff))


cases = [
    (1e-8, 1e-9),   # nothing at all is emitted for an angle ten times the tolerance
    (1e-7, 1e-8),
    (1.0, 1e-9),
    (1.0, 1e-8),
    (-2.5, 1e-9),
    (2.3921636432176593e-05, 1e-7),
    (0.5, 1e-6),    # control: fine
    (0.5, 1e-4),    # control: fine (default tolerance)
]
failures = 0
for angle, tol in cases:
    nds = get_angle_spec_from_float(angle, tol=tol)
    fits = all(0 <= n <= 255 and 0 <= d <= 255 for n, d in nds)
    err = dist_mod_2pi(angle, nds)
    ok = fits and err <= tol
    print(f"angle={angle!r} tol={tol:g}: steps={nds} fits_8bit={fits} |sum-angle| mod 2pi = {err:.3e} "
          f"-> {'ok' if ok else 'VIOLATION (expected <= %g)' % tol}")
    failures += not ok
if failures:
    print(f"{failures} case(s): the returned steps miss the angle by more than the stated tolerance")
    sys.exit(1)
print("all cases within tolerance")
