"""C19 finding 2: large finite angles are reduced modulo the double 2*np.pi instead of 2*pi,
so the emitted rotation is off by (angle / 2pi) * 2.45e-16 rad: more than the tolerance
1e-4 from |angle| ~ 2.6e12 on (from ~2.6e10 on for tol=1e-6, ~2.6e7 for tol=1e-9)."""
import math
import sys
from fractions import Fraction

from netqasm.backend.messages import deserialize_host_msg
from netqasm.lang.instr import core
from netqasm.lang.parsing import deserialize
from netqasm.sdk.connection import DebugConnection
from netqasm.sdk.qubit import Qubit
from netqasm.sdk.toolbox import get_angle_spec_from_float

PI = Fraction("3.14159265358979323846264338327950288419716939937510")


def dist_mod_2pi(angle, nds):
    diff = (sum((Fraction(n, 2**d) for n, d in nds), Fraction(0)) * PI - Fraction(angle)) % (2 * PI)
    return float(min(diff, 2 * PI - diff))


def emitted_by_builder(angle):
    with DebugConnection("Alice") as conn:
        q = Qubit(conn)
        q.rot_Z(angle=angle)
        conn.flush()
    nds = []
    for raw in conn.storage:
        msg = deserialize_host_msg(raw)
        if hasattr(msg, "subroutine"):
            for ins in deserialize(msg.subroutine).instructions:
                if isinstance(ins, core.RotationInstruction):
                    nds.append((ins.angle_num.value, ins.angle_denom.value))
    return nds


failures = 0
# (angle, tol, through the SDK builder?)
# tolerances >= 1e-6 only, so that the d >= 32 filter (finding 1) plays no part here
for angle, tol, sdk in [(1e15, 1e-4, True), (-1e13, 1e-4, True), (3e12, 1e-4, True),
                        (1e12, 1e-6, False), (-1e11, 1e-6, False),
                        (1000.0, 1e-4, True), (1000.0, 1e-6, False)]:  # last two: controls
    nds = emitted_by_builder(angle) if sdk else get_angle_spec_from_float(angle, tol=tol)
    err = dist_mod_2pi(angle, nds)
    total = sum(n * math.pi / 2**d for n, d in nds)
    # second, independent witness: libm reduces huge arguments exactly
    chord = math.hypot(math.cos(total) - math.cos(angle), math.sin(total) - math.sin(angle))
    ok = err <= tol
    print(f"angle={angle!r} tol={tol:g} via={'Qubit.rot_Z' if sdk else 'get_angle_spec_from_float'}: steps={nds}\n"
          f"    exact |sum-angle| mod 2pi = {err:.3e}, |e^(i sum) - e^(i angle)| = {chord:.3e} "
          f"-> {'ok' if ok else 'VIOLATION (expected <= %g)' % tol}")
    failures += not ok
if failures:
    print(f"{failures} case(s): emitted rotation differs from the requested one by more than the tolerance")
    sys.exit(1)
print("all cases within tolerance")
