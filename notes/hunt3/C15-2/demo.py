"""C15 / finding 2: the optional-integer codec still turns an undefined entry into the number 0.

`ReturnArrayMessage.deserialize_from` was patched to look at the type byte itself, but the entry codec
`netqasm.lang.encoding.OptionalInt` - the thing that *is* the wire format of an array entry - still cannot
give back "undefined": its accessor method `value()` (None for the NULL type, TypeError for an unknown type)
is overwritten by the ctypes field of the same name.

Expected: an undefined entry, decoded from the message's own bytes with the entry codec, reads back as None.
Observed: `.value` is the number 0, and the documented accessor `.value()` raises "'int' object is not callable".
"""
import sys

from netqasm.backend.messages import (
    MESSAGE_TYPE_BYTES,
    ReturnArrayMessage,
    ReturnArrayMessageHeader,
)
from netqasm.lang.encoding import OptionalInt

values = [None, 0, 5, None]
raw = bytes(ReturnArrayMessage(address=7, values=values))

# Decode the payload the way any receiver of the wire format does: header, then `length` OptionalInt entries.
body = raw[MESSAGE_TYPE_BYTES:]
hdr = ReturnArrayMessageHeader.from_buffer_copy(body)
entries = (OptionalInt * hdr.length).from_buffer_copy(body[ReturnArrayMessageHeader.len():])

bad = False
for want, entry in zip(values, entries):
    # 1. the attribute
    got_attr = entry.value
    # 2. the accessor that the class defines for exactly this purpose
    try:
        got_call = entry.value()
    except TypeError as exc:
        got_call = f"TypeError: {exc}"
    ok = (got_attr == want and type(got_attr) is type(want)) or (got_call == want and type(got_call) is type(want))
    print(f"entry sent as {want!r}: .value -> {got_attr!r}, .value() -> {got_call!r}   {'ok' if ok else 'VIOLATION'}")
    bad |= not ok

# Same thing on a single entry, without any message around it.
single = OptionalInt.from_buffer_copy(bytes(OptionalInt(None)))
single_value = single.value() if callable(single.value) else single.value
print(f"OptionalInt(None) -> bytes -> OptionalInt: type byte {single.type}, value {single_value!r} (expected None)")
bad |= single_value is not None

if bad:
    print("\nundefined entries come back from the entry codec as the number 0")
    sys.exit(1)
print("undefined entries stay undefined")
