"""C15 / finding 1: an int-subclass field value whose integer value lives in __int__/__index__
(the SDK's own Future) is serialised as 0 by every message class - silently.

Expected: the message deserialised from its own bytes carries the same field value (3),
          or the constructor refuses the value loudly.
Observed: every field comes back as 0.
"""
import sys

from netqasm.backend.messages import (
    InitNewAppMessage,
    MsgDoneMessage,
    OpenEPRSocketMessage,
    ReturnArrayMessage,
    ReturnRegMessage,
    StopAppMessage,
    deserialize_host_msg,
    deserialize_return_msg,
)
from netqasm.lang.encoding import Register
from netqasm.sdk.connection import DebugConnection
from netqasm.sdk.futures import Future
from netqasm.sdk.shared_memory import SharedMemory


class Conn(DebugConnection):
    """DebugConnection whose shared memory persists (the stock one returns a fresh one each time)."""

    _mem = SharedMemory()

    @property
    def shared_memory(self):
        return self._mem


conn = Conn("alice")
# The controller has written 3 into entry 0 of array @0; the host holds a Future to it.
conn.shared_memory.init_new_array(address=0, length=1)
conn.shared_memory.set_array_part(address=0, index=0, value=3)
f = Future(connection=conn, address=0, index=0)

assert isinstance(f, int) and f == 3 and int(f) == 3 and f + 0 == 3, "the Future is the integer 3"

failures = []


def check(label, build, decode, read):
    try:
        msg = build()
        raw = bytes(msg)
    except Exception as exc:  # a loud refusal would be acceptable
        print(f"{label}: refused loudly ({type(exc).__name__}: {exc}) - fine")
        return
    back = decode(raw)
    got = read(back)
    ok = type(back) is type(msg) and all(g == 3 and type(g) is int for g in got)
    print(f"{label}: expected field value(s) 3, got {got}  {'ok' if ok else 'VIOLATION'}")
    if not ok:
        failures.append(label)


check(
    "OpenEPRSocketMessage(epr_socket_id, remote_node_id, remote_epr_socket_id, min_fidelity)",
    lambda: OpenEPRSocketMessage(
        app_id=f, epr_socket_id=f, remote_node_id=f, remote_epr_socket_id=f, min_fidelity=f
    ),
    deserialize_host_msg,
    lambda m: [m.app_id, m.epr_socket_id, m.remote_node_id, m.remote_epr_socket_id, m.min_fidelity],
)
check(
    "InitNewAppMessage(app_id, max_qubits)",
    lambda: InitNewAppMessage(app_id=f, max_qubits=f),
    deserialize_host_msg,
    lambda m: [m.app_id, m.max_qubits],
)
check("StopAppMessage(app_id)", lambda: StopAppMessage(app_id=f), deserialize_host_msg, lambda m: [m.app_id])
check("MsgDoneMessage(msg_id)", lambda: MsgDoneMessage(msg_id=f), deserialize_return_msg, lambda m: [m.msg_id])
check(
    "ReturnRegMessage(value)",
    lambda: ReturnRegMessage(register=Register(0, 0), value=f),
    deserialize_return_msg,
    lambda m: [m.value],
)
check(
    "ReturnArrayMessage(address, values)",
    lambda: ReturnArrayMessage(address=f, values=[f, None, f]),
    deserialize_return_msg,
    lambda m: [m.address] + [v for v in m.values if v is not None],
)

if failures:
    print(f"\n{len(failures)} message type(s) lost the field value silently")
    sys.exit(1)
print("all field values survived")
