"""C07 finding 2: the NV transpiler learns Q-register values in ONE LINEAR PASS over the
instruction list and ignores control flow.  Where two paths meet (branch target / loop
head) it uses the value of whichever `set` comes last in the TEXT, not the value the
register holds on the path that is actually taken.  The CNOT below is decomposed as
"carbon 2 -> carbon 1" although on the R0 == 0 path it is "electron 0 -> carbon 1".
"""
import sys

import numpy as np

from netqasm.lang.instr import core
from netqasm.lang.parsing.text import parse_text_subroutine
from netqasm.sdk.transpile import NVSubroutineTranspiler


# ---------------------------------------------------------------- tiny reference machine
class SameQubitTwice(Exception):
    pass


class Refused(Exception):
    pass


REFUSAL = (AssertionError, RuntimeError, ValueError, KeyError, NotImplementedError)


def _embed1(u, q, n):
    m = np.eye(1)
    for k in range(n):
        m = np.kron(m, u if k == q else np.eye(2))
    return m


def _embed2(u4, a, b, n):
    dim = 2**n
    m = np.zeros((dim, dim), dtype=complex)
    for i in range(dim):
        bits = [(i >> (n - 1 - k)) & 1 for k in range(n)]
        col = bits[a] * 2 + bits[b]
        for row in range(4):
            if u4[row, col] == 0:
                continue
            nb = list(bits)
            nb[a], nb[b] = row >> 1, row & 1
            j = sum(v << (n - 1 - k) for k, v in enumerate(nb))
            m[j, i] += u4[row, col]
    return m


def run(instructions, n_qubits, init_regs=None, with_state=True):
    """Execute a list of NetQASM instructions: classical instructions are executed,
    every gate is applied (by its own published matrix) to the qubits its register
    operands hold AT RUN TIME.  Returns (unitary, trace of two-qubit operand ids)."""
    regs = dict(init_regs or {})
    arrays = {}
    unitary = np.eye(2**n_qubits, dtype=complex)
    trace = []
    pc = 0
    steps = 0
    while pc < len(instructions):
        steps += 1
        assert steps < 100000
        ins = instructions[pc]
        pc += 1
        if isinstance(ins, core.SetInstruction):
            regs[ins.reg] = ins.imm.value
        elif isinstance(ins, core.ArrayInstruction):
            arrays[ins.address.address] = [None] * regs[ins.reg]
        elif isinstance(ins, core.StoreInstruction):
            arrays[ins.entry.address.address][regs[ins.entry.index]] = regs[ins.reg]
        elif isinstance(ins, core.LoadInstruction):
            regs[ins.reg] = arrays[ins.entry.address.address][regs[ins.entry.index]]
        elif isinstance(ins, core.AddInstruction):
            regs[ins.reg0] = regs[ins.reg1] + regs[ins.reg2]
        elif isinstance(ins, core.SubInstruction):
            regs[ins.reg0] = regs[ins.reg1] - regs[ins.reg2]
        elif isinstance(ins, core.JmpInstruction):
            pc = ins.line.value
        elif isinstance(ins, core.BranchUnaryInstruction):
            if ins.check_condition(regs[ins.reg]):
                pc = ins.line.value
        elif isinstance(ins, core.BranchBinaryInstruction):
            if ins.check_condition(regs[ins.reg0], regs[ins.reg1]):
                pc = ins.line.value
        elif isinstance(ins, (core.SingleQubitInstruction, core.RotationInstruction)):
            if with_state:
                unitary = _embed1(ins.to_matrix(), regs[ins.reg], n_qubits) @ unitary
        elif isinstance(
            ins, (core.TwoQubitInstruction, core.ControlledRotationInstruction)
        ):
            a, b = regs[ins.reg0], regs[ins.reg1]
            trace.append((pc - 1, str(ins), a, b))
            if a == b:
                raise SameQubitTwice(
                    f"instruction {pc - 1} `{ins}` addresses virtual qubit {a} with BOTH operands"
                )
            if with_state:
                unitary = _embed2(ins.to_matrix(), a, b, n_qubits) @ unitary
        else:
            # qalloc/init/qfree/create_epr/wait_all/ret_arr ...: irrelevant here
            pass
    return unitary, trace


def equal_up_to_phase(a, b):
    idx = np.unravel_index(np.argmax(abs(a)), a.shape)
    if abs(b[idx]) < 1e-9:
        return False
    return np.allclose(a, (a[idx] / b[idx]) * b, atol=1e-9)


failures = []

TEXT = """
# NETQASM 0.0
# APPID 0
set R0 {r0}
set Q1 1
set Q0 0
bez R0 GATE
set Q0 2
GATE:
cnot Q0 Q1
h Q0
"""

for r0 in (1, 0):
    text = TEXT.format(r0=r0)
    control = 2 if r0 else 0
    print(f"--- R0 = {r0}: at run time the gate is CNOT(control = qubit {control}, target = carbon 1), then H on the control")
    reference, _ = run(parse_text_subroutine(text).instructions, 3)
    try:
        try:
            transpiled = NVSubroutineTranspiler(parse_text_subroutine(text)).transpile()
        except REFUSAL as e:
            raise Refused(repr(e))
        if r0 == 0:
            print(transpiled)
        got, trace = run(transpiled.instructions, 3)
        if equal_up_to_phase(reference, got):
            print("expected: the same unitary as the vanilla subroutine;  got: the same unitary -> OK")
        else:
            print("expected: the same unitary as the vanilla subroutine;  got: a DIFFERENT unitary")
            failures.append(f"R0={r0}: different unitary")
    except Refused as e:
        print(f"got     : transpiler refused loudly ({e}) -> nothing wrong was emitted, OK")
    except SameQubitTwice as e:
        print("expected: the same unitary as the vanilla subroutine")
        print(f"got     : {e}")
        print("          (carbon-carbon circuit emitted: the electron is borrowed and swapped with itself)")
        failures.append(f"R0={r0}: {e}")

if failures:
    print("\nFAIL:", *failures, sep="\n  ")
    sys.exit(1)
print("\nOK")
