"""Self-contained demo (C20 / finding 2). Run:
  cd /tmp/hunt3/C20/wt && PYTHONPATH=/tmp/hunt3/C20/wt /venv/bin/python /tmp/hunt3/C20/out/2/demo.py
"""
import numpy as np

from netqasm.backend.executor import Executor
from netqasm.backend.messages import deserialize_host_msg
from netqasm.backend.qnodeos import QNodeController
from netqasm.lang.instr import core
from netqasm.lang.instr.flavour import NVFlavour, VanillaFlavour
from netqasm.sdk.connection import BaseNetQASMConnection, DebugNetworkInfo
from netqasm.sdk.shared_memory import SharedMemoryManager


class SVExecutor(Executor):
    def __init__(self, *args, rng=None, **kwargs):
        super().__init__(*args, **kwargs)
        self.rng = rng or np.random.default_rng()
        self.phys = []  # order of physical qubit ids in the state vector (first = most significant)
        self.state = np.array([1.0 + 0j])
        self.trace = []
        self.forced_outcomes = []  # if non-empty, try to force these outcomes (when probability > 0)

    # ---- helpers
    def _apply(self, U, phys_ids):
        n = len(self.phys)
        k = len(phys_ids)
        idx = [self.phys.index(p) for p in phys_ids]
        psi = self.state.reshape([2] * n)
        U = np.asarray(U, dtype=complex).reshape([2] * (2 * k))
        psi = np.tensordot(U, psi, axes=(list(range(k, 2 * k)), idx))
        # result axes: first k are new qubit axes, then the rest in order
        rest = [i for i in range(n) if i not in idx]
        order = idx + rest
        inv = np.argsort(order)
        psi = np.transpose(psi, inv)
        self.state = psi.reshape(-1)

    def _measure_phys(self, p, forced=None):
        n = len(self.phys)
        i = self.phys.index(p)
        psi = self.state.reshape([2] * n)
        psi0 = np.take(psi, 0, axis=i)
        p0 = float(np.sum(np.abs(psi0) ** 2))
        if forced is not None and ((forced == 0 and p0 > 1e-12) or (forced == 1 and 1 - p0 > 1e-12)):
            out = forced
        else:
            out = 0 if self.rng.random() < p0 else 1
        prob = p0 if out == 0 else 1 - p0
        proj = np.take(psi, out, axis=i) / np.sqrt(prob)
        # rebuild
        new = np.zeros([2] * n, dtype=complex)
        sl = [slice(None)] * n
        sl[i] = out
        new[tuple(sl)] = proj
        self.state = new.reshape(-1)
        return out, prob

    def _remove_phys(self, p):
        # measure then drop
        out, _ = self._measure_phys(p)
        n = len(self.phys)
        i = self.phys.index(p)
        psi = self.state.reshape([2] * n)
        psi = np.take(psi, out, axis=i)
        self.phys.pop(i)
        self.state = psi.reshape(-1)

    # ---- overrides
    def _reserve_physical_qubit(self, physical_address):
        assert physical_address not in self.phys
        self.phys.append(physical_address)
        self.state = np.kron(self.state, np.array([1.0, 0.0], dtype=complex))
        return None

    def _clear_phys_qubit_in_memory(self, physical_address):
        if physical_address in self.phys:
            self._remove_phys(physical_address)
        yield None

    def _do_single_qubit_instr(self, instr, subroutine_id, address):
        if isinstance(instr, core.InitInstruction):
            p = self._get_position(subroutine_id, address)
            out, _ = self._measure_phys(p)
            if out == 1:
                self._apply(np.array([[0, 1], [1, 0]]), [p])
            self.trace.append(("init", address))
            return None
        if isinstance(instr, (core.QAllocInstruction, core.QFreeInstruction)):
            raise RuntimeError("should be handled elsewhere")
        p = self._get_position(subroutine_id, address)
        self._apply(instr.to_matrix(), [p])
        self.trace.append((instr.mnemonic, address))
        return None

    def _do_single_qubit_rotation(self, instr, subroutine_id, address, angle):
        p = self._get_position(subroutine_id, address)
        self._apply(instr.to_matrix(), [p])
        self.trace.append((instr.mnemonic, address, instr.angle_num.value, instr.angle_denom.value))
        return None

    def _do_controlled_qubit_rotation(self, instr, subroutine_id, address1, address2, angle):
        p1 = self._get_position(subroutine_id, address1)
        p2 = self._get_position(subroutine_id, address2)
        self._apply(instr.to_matrix(), [p1, p2])
        self.trace.append((instr.mnemonic, address1, address2, instr.angle_num.value, instr.angle_denom.value))
        return None

    def _do_two_qubit_instr(self, instr, subroutine_id, address1, address2):
        p1 = self._get_position(subroutine_id, address1)
        p2 = self._get_position(subroutine_id, address2)
        self._apply(instr.to_matrix(), [p1, p2])
        self.trace.append((instr.mnemonic, address1, address2))
        return None

    def _do_meas(self, subroutine_id, q_address):
        p = self._get_position(subroutine_id, q_address)
        forced = self.forced_outcomes.pop(0) if self.forced_outcomes else None
        out, prob = self._measure_phys(p, forced)
        self.trace.append(("meas", q_address, out, prob))
        return out

    # convenience
    def get_state(self, app_id, virt_ids):
        """state vector with qubit order given by virt_ids (all allocated qubits must be listed)."""
        ps = [self._get_position(app_id=app_id, address=v) for v in virt_ids]
        assert sorted(ps) == sorted(self.phys), (ps, self.phys)
        n = len(self.phys)
        psi = self.state.reshape([2] * n)
        perm = [self.phys.index(p) for p in ps]
        return np.transpose(psi, perm).reshape(-1)

    def set_state(self, app_id, virt_ids, vec):
        ps = [self._get_position(app_id=app_id, address=v) for v in virt_ids]
        assert sorted(ps) == sorted(self.phys), (ps, self.phys)
        self.phys = list(ps)
        self.state = np.asarray(vec, dtype=complex).reshape(-1).copy()


class SVController(QNodeController):
    executor_kwargs = {}

    @classmethod
    def _get_executor_class(cls, flavour=None):
        return SVExecutor

    def stop(self):
        pass

    def _mark_message_finished(self, msg_id, msg):
        pass


class SVConnection(BaseNetQASMConnection):
    def __init__(self, app_name="alice", flavour=None, rng=None, **kwargs):
        SharedMemoryManager.reset_memories()
        BaseNetQASMConnection._app_ids.pop(app_name, None)
        self.controller = SVController(name=app_name, flavour=flavour)
        if rng is not None:
            self.controller._executor.rng = rng
        self._msg_id = 0
        super().__init__(app_name=app_name, node_name=app_name, **kwargs)

    @property
    def executor(self) -> SVExecutor:
        return self.controller._executor

    def _commit_serialized_message(self, raw_msg, block=True, callback=None):
        msg = deserialize_host_msg(raw_msg)
        self._msg_id += 1
        list(self.controller.handle_netqasm_message(self._msg_id, msg))
        if callback is not None:
            callback()

    def _get_network_info(self):
        return DebugNetworkInfo

    def block(self):
        pass

# ----------------------------------------------------------------------------------
# helpers shared by the checks below
# ----------------------------------------------------------------------------------
import sys
import traceback

from netqasm.lang.instr.flavour import NVFlavour
from netqasm.sdk.build_types import NVHardwareConfig
from netqasm.sdk.qubit import Qubit
from netqasm.sdk.toolbox import parity_meas, toffoli_gate
from netqasm.sdk.transpile import NVSubroutineTranspiler

PAULI = {
    "I": np.eye(2, dtype=complex),
    "X": np.array([[0, 1], [1, 0]], dtype=complex),
    "Y": np.array([[0, -1j], [1j, 0]]),
    "Z": np.diag([1, -1]).astype(complex),
}
TOFFOLI = np.eye(8, dtype=complex)
TOFFOLI[[6, 7]] = TOFFOLI[[7, 6]]


def pauli_op(bases):
    sign = -1 if bases.startswith("-") else 1
    m = np.array([[1.0 + 0j]])
    for c in bases.lstrip("-"):
        m = np.kron(m, PAULI[c])
    return sign * m


def rand_state(n, rng):
    v = rng.normal(size=2**n) + 1j * rng.normal(size=2**n)
    return v / np.linalg.norm(v)


def same_up_to_phase(a, b):
    return abs(abs(np.vdot(a, b)) - 1) < 1e-7


def nv_connection(rng):
    """NV hardware: SDK compiles with the NV transpiler, controller interprets the NV flavour."""
    return SVConnection(
        flavour=NVFlavour(),
        compiler=NVSubroutineTranspiler,
        hardware_config=NVHardwareConfig(5),
        rng=rng,
    )


def vanilla_connection(rng):
    return SVConnection(rng=rng)


# ----------------------------------------------------------------------------------
# C20 demo 2: on NV hardware parity_meas inside a loop context breaks in the 2nd iteration:
# the one-time relocation of the qubit with virtual ID 0 is compiled into the loop body.
# ----------------------------------------------------------------------------------


def scenario(make_conn, bases, seed, how):
    n = len(bases.lstrip("-"))
    rng = np.random.default_rng(seed)
    with make_conn(np.random.default_rng(seed + 1000)) as conn:
        qs = [Qubit(conn) for _ in range(n)]
        conn.flush()
        psi = rand_state(n, rng)
        conn.executor.set_state(conn.app_id, [q.qubit_id for q in qs], psi)
        res = {}
        if how == "loop context":
            with conn.loop(2):
                res["m"] = parity_meas(qs, bases)
        elif how == "loop_body callback":
            def body(c, i):
                res["m"] = parity_meas(qs, bases)
            conn.loop_body(body, stop=2)
        else:  # the same two measurements written out
            parity_meas(qs, bases)
            res["m"] = parity_meas(qs, bases)
        conn.flush()
        mv = int(res["m"])
        proj = (np.eye(2**n) + (-1) ** mv * pauli_op(bases)) / 2
        model = proj @ psi
        if np.linalg.norm(model) < 1e-9:
            return f"outcome {mv} is impossible for this state"
        model /= np.linalg.norm(model)
        got = conn.executor.get_state(conn.app_id, [q.qubit_id for q in qs])
        if not same_up_to_phase(got, model):
            return "wrong post-measurement state"
    return None


def scenario_branch_not_taken(make_conn, seed):
    """parity_meas in a branch that is not taken at run time, then parity_meas on q0 outside of it."""
    rng = np.random.default_rng(seed)
    with make_conn(np.random.default_rng(seed + 1000)) as conn:
        qs = [Qubit(conn) for _ in range(2)]
        conn.flush()
        psi = rand_state(2, rng)
        conn.executor.set_state(conn.app_id, [q.qubit_id for q in qs], psi)
        flag = conn.new_array(1, init_values=[0]).get_future_index(0)
        with flag.if_eq(1):
            parity_meas([qs[1]], "Z")  # never executed
        m = parity_meas([qs[0]], "X")
        conn.flush()
        mv = int(m)
        proj = (np.eye(4) + (-1) ** mv * pauli_op("XI")) / 2
        model = proj @ psi
        model /= np.linalg.norm(model)
        got = conn.executor.get_state(conn.app_id, [q.qubit_id for q in qs])
        if not same_up_to_phase(got, model):
            return "wrong post-measurement state"
    return None


def main():
    failures = 0
    for hw, make_conn in [("vanilla", vanilla_connection), ("NV", nv_connection)]:
        try:
            problem = scenario_branch_not_taken(make_conn, 3)
        except Exception as exc:  # noqa
            problem = f"{type(exc).__name__}: {str(exc).splitlines()[0]}"
        status = "ok" if problem is None else f"VIOLATION -> {problem}"
        print(f"[{hw:7s}] parity_meas([q1],'Z') in a branch not taken, then parity_meas([q0],'X'): {status}")
        if problem is not None:
            failures += 1
    for bases in ["ZZ", "-XY", "IZ"]:
        for how in ["unrolled", "loop context", "loop_body callback"]:
            for hw, make_conn in [("vanilla", vanilla_connection), ("NV", nv_connection)]:
                try:
                    problem = scenario(make_conn, bases, 7, how)
                except Exception as exc:  # noqa
                    problem = f"{type(exc).__name__}: {str(exc).splitlines()[0]}"
                status = "ok" if problem is None else f"VIOLATION -> {problem}"
                print(
                    f"[{hw:7s}] parity_meas(qs, {bases!r}) twice, {how}: expected outcome = parity, "
                    f"state = projected state; {status}"
                )
                if problem is not None:
                    failures += 1
    if failures:
        print(f"\n{failures} runs violated C20 (parity_meas must return the parity and leave the projected state)")
        sys.exit(1)
    print("all good")


if __name__ == "__main__":
    main()
