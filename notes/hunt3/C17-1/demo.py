"""C17 finding 1: a boolean register index or array address is printed as `True` / `False`.

`True` is the integer 1 and `False` the integer 0: the operand classes accept them
(`isinstance(True, int)`), the encoder encodes them as 1 / 0, and the instruction compares
equal to the one written with 1 / 0.  The printer of immediates already knows this
(`Immediate(True)` prints `1`), but `Register.__str__` and `Address.__str__` (and through them
`ArrayEntry` / `ArraySlice`) still interpolate the raw object, so the printed line is
`set RTrue 1`, `array R0 @True`, `store R1 @True[RFalse]`, ... which is not NetQASM source.
"""
import sys

from netqasm.lang.encoding import RegisterName as RN
from netqasm.lang.instr import core
from netqasm.lang.instr.flavour import NVFlavour, REIDSFlavour, VanillaFlavour
from netqasm.lang.operand import Address, ArrayEntry, ArraySlice, Immediate, Register
from netqasm.lang.parsing import deserialize, parse_text_subroutine
from netqasm.lang.subroutine import Subroutine

PREAMBLE = "# NETQASM 0.0\n# APPID 0\n"


def R(i):
    return Register(RN.R, i)


# (instruction written with booleans, the same instruction written with 0 / 1)
CASES = [
    (
        core.SetInstruction(reg=R(True), imm=Immediate(7)),
        core.SetInstruction(reg=R(1), imm=Immediate(7)),
    ),
    (
        core.ArrayInstruction(reg=R(0), address=Address(True)),
        core.ArrayInstruction(reg=R(0), address=Address(1)),
    ),
    (
        core.StoreInstruction(reg=R(1), entry=ArrayEntry(True, R(False))),
        core.StoreInstruction(reg=R(1), entry=ArrayEntry(1, R(0))),
    ),
    (
        core.WaitAllInstruction(slice=ArraySlice(False, R(False), R(True))),
        core.WaitAllInstruction(slice=ArraySlice(0, R(0), R(1))),
    ),
    (
        core.MeasInstruction(reg0=Register(RN.Q, False), reg1=Register(RN.M, True)),
        core.MeasInstruction(reg0=Register(RN.Q, 0), reg1=Register(RN.M, 1)),
    ),
]

failures = 0
for flavour in (VanillaFlavour(), NVFlavour(), REIDSFlavour()):
    for instr, plain in CASES:
        # The valuation is in range: equal to the plain one, and it encodes to the same bytes.
        assert instr == plain
        raw = bytes(Subroutine(instructions=[instr], app_id=0))
        assert raw == bytes(Subroutine(instructions=[plain], app_id=0))
        decoded = deserialize(raw, flavour=flavour).instructions[0]
        assert decoded == instr

        text = str(instr)
        expected = str(plain)
        problems = []
        if text != str(decoded):
            problems.append(
                f"binary -> text gives {str(decoded)!r} for the (equal) decoded instruction"
            )
        try:
            parsed = parse_text_subroutine(PREAMBLE + text, flavour=flavour).instructions
            if parsed != [instr]:
                problems.append(f"parsed back to {[str(p) for p in parsed]}")
        except BaseException as err:  # AssertionError / NetQASMSyntaxError
            problems.append(f"parser raised {type(err).__name__}: {err}")
        if problems:
            failures += 1
            print(
                f"[{type(flavour).__name__}] {type(instr).__name__}: printed {text!r}, "
                f"expected {expected!r}; " + "; ".join(problems)
            )

if failures:
    print(f"\nFAIL: {failures} printed instructions are not valid NetQASM source")
    sys.exit(1)
print("OK: all printed instructions parse back to an equal instruction")
