"""C17 finding 2: the printed text of a whole subroutine parses, but the result cannot be encoded.

The printer emits instruction lines only (there is no printer for the `# NETQASM` / `# APPID`
preamble, and the parser treats the preamble as optional).  For such text
`_create_subroutine` passes `netqasm_version=None` explicitly, which overrides the default
`NETQASM_VERSION` of `ProtoSubroutine` / `Subroutine`.  The app ID can be supplied afterwards
through the public `app_id` setter, the version cannot, and `bytes(subroutine)` then crashes with
`TypeError: 'NoneType' object is not iterable` -- so text -> binary -> text is not available for
the text the printer writes.
"""
import sys

from netqasm.lang.encoding import RegisterName as RN
from netqasm.lang.instr import core, vanilla
from netqasm.lang.instr.flavour import VanillaFlavour
from netqasm.lang.operand import Address, ArrayEntry, ArraySlice, Immediate, Register
from netqasm.lang.parsing import deserialize, parse_text_subroutine
from netqasm.lang.subroutine import Subroutine
from netqasm.lang.version import NETQASM_VERSION

flavour = VanillaFlavour()
R0, R1 = Register(RN.R, 0), Register(RN.R, 1)
Q0, M0 = Register(RN.Q, 0), Register(RN.M, 0)
original = Subroutine(
    instructions=[
        core.SetInstruction(reg=R0, imm=Immediate(-3)),
        core.SetInstruction(reg=Q0, imm=Immediate(0)),
        core.ArrayInstruction(reg=R1, address=Address(0)),
        core.QAllocInstruction(reg=Q0),
        core.InitInstruction(reg=Q0),
        vanilla.RotXInstruction(reg=Q0, imm0=Immediate(1), imm1=Immediate(4)),
        core.MeasInstruction(reg0=Q0, reg1=M0),
        core.StoreInstruction(reg=M0, entry=ArrayEntry(0, R1)),
        core.WaitAllInstruction(slice=ArraySlice(0, R0, R1)),
        core.BneInstruction(reg0=R0, reg1=R1, imm=Immediate(3)),
        core.RetArrInstruction(address=Address(0)),
    ],
    app_id=0,
)
text = "\n".join(str(instr) for instr in original.instructions)
print("printed subroutine:\n" + text + "\n")

parsed = parse_text_subroutine(text, flavour=flavour)
assert parsed.instructions == original.instructions  # the text itself parses back fine
parsed.app_id = original.app_id  # public setter; there is none for the version

print(f"expected: netqasm_version {NETQASM_VERSION} (the default of Subroutine), encodable")
print(f"got     : netqasm_version {parsed.netqasm_version!r}")
try:
    raw = bytes(parsed)
except Exception as err:
    print(f"text -> binary raised {type(err).__name__}: {err}")
    sys.exit(1)

text2 = "\n".join(str(i) for i in deserialize(raw, flavour=flavour).instructions)
if raw != bytes(original) or text2 != text:
    print("text -> binary -> text is not stable")
    sys.exit(1)
print("OK: text -> binary -> text is stable")
