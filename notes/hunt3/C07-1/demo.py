"""C07 finding 1: a Q register that is overwritten by anything other than `set`
(here: `load`, which is what the SDK emits for a FutureQubit) keeps its OLD value in
the NV transpiler's bookkeeping.  The placement (electron / carbon) of the following
CNOT is then decided from the stale value and the wrong decomposition is emitted.

Part A: hand-written subroutine, full unitary comparison.
Part B: the same thing produced by the public SDK (create_keep + post_routine).
"""
import sys

import numpy as np

from netqasm.lang.instr import core
from netqasm.lang.parsing.text import parse_text_subroutine
from netqasm.sdk.transpile import NVSubroutineTranspiler


# ---------------------------------------------------------------- tiny reference machine
class SameQubitTwice(Exception):
    pass


class Refused(Exception):
    pass


REFUSAL = (AssertionError, RuntimeError, ValueError, KeyError, NotImplementedError)


def _embed1(u, q, n):
    m = np.eye(1)
    for k in range(n):
        m = np.kron(m, u if k == q else np.eye(2))
    return m


def _embed2(u4, a, b, n):
    dim = 2**n
    m = np.zeros((dim, dim), dtype=complex)
    for i in range(dim):
        bits = [(i >> (n - 1 - k)) & 1 for k in range(n)]
        col = bits[a] * 2 + bits[b]
        for row in range(4):
            if u4[row, col] == 0:
                continue
            nb = list(bits)
            nb[a], nb[b] = row >> 1, row & 1
            j = sum(v << (n - 1 - k) for k, v in enumerate(nb))
            m[j, i] += u4[row, col]
    return m


def run(instructions, n_qubits, init_regs=None, with_state=True):
    """Execute a list of NetQASM instructions: classical instructions are executed,
    every gate is applied (by its own published matrix) to the qubits its register
    operands hold AT RUN TIME.  Returns (unitary, trace of two-qubit operand ids)."""
    regs = dict(init_regs or {})
    arrays = {}
    unitary = np.eye(2**n_qubits, dtype=complex)
    trace = []
    pc = 0
    steps = 0
    while pc < len(instructions):
        steps += 1
        assert steps < 100000
        ins = instructions[pc]
        pc += 1
        if isinstance(ins, core.SetInstruction):
            regs[ins.reg] = ins.imm.value
        elif isinstance(ins, core.ArrayInstruction):
            arrays[ins.address.address] = [None] * regs[ins.reg]
        elif isinstance(ins, core.StoreInstruction):
            arrays[ins.entry.address.address][regs[ins.entry.index]] = regs[ins.reg]
        elif isinstance(ins, core.LoadInstruction):
            regs[ins.reg] = arrays[ins.entry.address.address][regs[ins.entry.index]]
        elif isinstance(ins, core.AddInstruction):
            regs[ins.reg0] = regs[ins.reg1] + regs[ins.reg2]
        elif isinstance(ins, core.SubInstruction):
            regs[ins.reg0] = regs[ins.reg1] - regs[ins.reg2]
        elif isinstance(ins, core.JmpInstruction):
            pc = ins.line.value
        elif isinstance(ins, core.BranchUnaryInstruction):
            if ins.check_condition(regs[ins.reg]):
                pc = ins.line.value
        elif isinstance(ins, core.BranchBinaryInstruction):
            if ins.check_condition(regs[ins.reg0], regs[ins.reg1]):
                pc = ins.line.value
        elif isinstance(ins, (core.SingleQubitInstruction, core.RotationInstruction)):
            if with_state:
                unitary = _embed1(ins.to_matrix(), regs[ins.reg], n_qubits) @ unitary
        elif isinstance(
            ins, (core.TwoQubitInstruction, core.ControlledRotationInstruction)
        ):
            a, b = regs[ins.reg0], regs[ins.reg1]
            trace.append((pc - 1, str(ins), a, b))
            if a == b:
                raise SameQubitTwice(
                    f"instruction {pc - 1} `{ins}` addresses virtual qubit {a} with BOTH operands"
                )
            if with_state:
                unitary = _embed2(ins.to_matrix(), a, b, n_qubits) @ unitary
        else:
            # qalloc/init/qfree/create_epr/wait_all/ret_arr ...: irrelevant here
            pass
    return unitary, trace


def equal_up_to_phase(a, b):
    idx = np.unravel_index(np.argmax(abs(a)), a.shape)
    if abs(b[idx]) < 1e-9:
        return False
    return np.allclose(a, (a[idx] / b[idx]) * b, atol=1e-9)


failures = []

# ------------------------------------------------------------------------------ part A
TEXT = """
# NETQASM 0.0
# APPID 0
array 1 @0
store 0 @0[0]
set Q0 2
x Q0
load Q0 @0[0]
set Q1 1
cnot Q0 Q1
"""
# At run time Q0 holds 0 (electron) and Q1 holds 1 (carbon) when the CNOT executes.
reference, _ = run(parse_text_subroutine(TEXT).instructions, 3)
print("Part A")
print("expected: X on carbon 2, then CNOT(control = electron 0, target = carbon 1)")
print("          (or a loud refusal to transpile a gate whose placement is unknown)")
try:
    try:
        transpiled = NVSubroutineTranspiler(parse_text_subroutine(TEXT)).transpile()
    except REFUSAL as e:
        raise Refused(repr(e))
    print(transpiled)
    got, _ = run(transpiled.instructions, 3)
    if equal_up_to_phase(reference, got):
        print("got     : same unitary -> OK")
    else:
        print("got     : a DIFFERENT unitary")
        failures.append("A: different unitary")
except Refused as e:
    print(f"got     : transpiler refused loudly ({e}) -> nothing wrong was emitted, OK")
except SameQubitTwice as e:
    print(f"got     : {e}")
    print("          (the carbon-carbon circuit was emitted: the electron is 'borrowed'")
    print("           and swapped with ... the electron itself)")
    failures.append("A: " + str(e))

# ------------------------------------------------------------------------------ part B
from netqasm.sdk.build_types import NVHardwareConfig  # noqa: E402
from netqasm.sdk.connection import DebugConnection  # noqa: E402
from netqasm.sdk.epr_socket import EPRSocket  # noqa: E402
from netqasm.sdk.qubit import Qubit  # noqa: E402

DebugConnection.node_ids = {"Alice": 0, "Bob": 1}
epr_socket = EPRSocket("Bob")
with DebugConnection(
    "Alice",
    epr_sockets=[epr_socket],
    hardware_config=NVHardwareConfig(4),
    compiler=NVSubroutineTranspiler,
) as conn:
    m1 = Qubit(conn)
    m1.H()
    m2 = Qubit(conn)
    m2.H()

    def post(conn_, q, pair):
        # q is the EPR qubit (electron, virtual id 0, a FutureQubit -> `load Q1 @ids[pair]`)
        # m2 sits on carbon 1 by now.
        m2.cnot(q)

    epr_socket.create_keep(number=2, sequential=True, post_routine=post)
    ids_in_post = (m1.qubit_id, m2.qubit_id)
    proto = conn.builder.subrt_pop_pending_subroutine()
    try:
        compiled = conn.builder.subrt_compile_subroutine(proto)
    except REFUSAL as e:
        compiled = None
        refusal = repr(e)

print()
print(f"Part B: SDK program, memory qubits ended up on carbons {ids_in_post}; "
      "post_routine does m2.cnot(epr_qubit)")
print("expected: every two-qubit NV instruction addresses two different qubits "
      "(CNOT carbon 1 -> electron 0)")
try:
    if compiled is None:
        raise Refused(refusal)
    _, trace = run(compiled.instructions, 4, with_state=False)
    print("got     : ok,", len(trace), "two-qubit instructions executed")
except Refused as e:
    print(f"got     : transpiler refused loudly ({e}) -> nothing wrong was emitted, OK")
except SameQubitTwice as e:
    print(f"got     : {e}")
    failures.append("B: " + str(e))

if failures:
    print("\nFAIL:", *failures, sep="\n  ")
    sys.exit(1)
print("\nOK")
