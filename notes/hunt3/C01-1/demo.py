"""C01 demo 1: an in-range integer that is an instance of an int subclass carrying its value
in __int__ (the SDK's resolved Future) is encoded as its raw C value (0) when it is used as an
address, a register index, an application id or a version byte.  The same value used as an
immediate is encoded correctly (that site was repaired), so the codec is lossless for one operand
kind and silently lossy for the others.

Exit 0 iff every case either round-trips to the value the operand denotes or is refused loudly.
"""
import sys

from netqasm.lang.encoding import RegisterName
from netqasm.lang.instr import core
from netqasm.lang.instr.flavour import NVFlavour, REIDSFlavour, VanillaFlavour
from netqasm.lang.operand import Address, ArrayEntry, ArraySlice, Immediate, Register
from netqasm.lang.parsing.binary import deserialize
from netqasm.lang.subroutine import Subroutine
from netqasm.sdk.futures import Future


def resolved_future(value: int) -> Future:
    """A Future as the SDK hands it to the application once its subroutine has run:
    an `int` (raw C value 0) whose int(), ==, <, str() ... all give `value`."""
    fut = Future(connection=None, address=0, index=0)  # type: ignore
    fut._value = value
    return fut


THREE = resolved_future(3)
assert isinstance(THREE, int) and int(THREE) == 3 and THREE == 3 and 0 <= THREE < 16

R = RegisterName.R
# (description, instruction built with the Future, the same instruction built with the plain int 3)
CASES = [
    (
        "32-bit immediate   set R1 <3>          (control: repaired site)",
        core.SetInstruction(reg=Register(R, 1), imm=Immediate(THREE)),
        core.SetInstruction(reg=Register(R, 1), imm=Immediate(3)),
    ),
    (
        "address            ret_arr @<3>",
        core.RetArrInstruction(address=Address(THREE)),
        core.RetArrInstruction(address=Address(3)),
    ),
    (
        "address in entry   store R1 @<3>[R2]",
        core.StoreInstruction(reg=Register(R, 1), entry=ArrayEntry(THREE, Register(R, 2))),
        core.StoreInstruction(reg=Register(R, 1), entry=ArrayEntry(3, Register(R, 2))),
    ),
    (
        "address in slice   wait_all @<3>[R1:R2]",
        core.WaitAllInstruction(slice=ArraySlice(THREE, Register(R, 1), Register(R, 2))),
        core.WaitAllInstruction(slice=ArraySlice(3, Register(R, 1), Register(R, 2))),
    ),
    (
        "register index     ret_reg R<3>",
        core.RetRegInstruction(reg=Register(R, THREE)),
        core.RetRegInstruction(reg=Register(R, 3)),
    ),
]

failures = 0
for flavour in [VanillaFlavour(), NVFlavour(), REIDSFlavour()]:
    fname = type(flavour).__name__
    for descr, instr, plain in CASES:
        try:
            raw = bytes(Subroutine(instructions=[instr], app_id=1, netqasm_version=(0, 10)))
        except Exception as err:  # a loud refusal is not a violation
            print(f"[{fname}] refused   {descr}: {type(err).__name__}: {err}")
            continue
        want = bytes(Subroutine(instructions=[plain], app_id=1, netqasm_version=(0, 10)))
        got = deserialize(raw, flavour=flavour).instructions[0]
        if got == plain and got == instr and raw == want:
            print(f"[{fname}] ok        {descr}")
        else:
            failures += 1
            print(
                f"[{fname}] VIOLATION {descr}\n"
                f"      encoded instruction : {instr}\n"
                f"      expected after decode: {plain}   (bytes {want.hex()})\n"
                f"      decoded              : {got}   (bytes {raw.hex()})"
            )

# application id and version bytes
instr = core.RetRegInstruction(reg=Register(R, 1))
for descr, kwargs, expect in [
    ("app id <3>", dict(app_id=THREE, netqasm_version=(0, 10)), (3, (0, 10))),
    ("version (<3>, <3>)", dict(app_id=1, netqasm_version=(THREE, THREE)), (1, (3, 3))),
]:
    try:
        raw = bytes(Subroutine(instructions=[instr], **kwargs))
    except Exception as err:
        print(f"refused   {descr}: {type(err).__name__}: {err}")
        continue
    dec = deserialize(raw)
    got = (dec.app_id, tuple(dec.netqasm_version))
    if got == expect:
        print(f"ok        {descr}")
    else:
        failures += 1
        print(f"VIOLATION {descr}: expected (app id, version) {expect}, decoded {got}")

if failures:
    print(f"\n{failures} silent mis-encodings")
    sys.exit(1)
print("all cases round-trip (or are refused loudly)")
