"""Self-contained demo (C20 / finding 3). Run:
  cd /tmp/hunt3/C20/wt && PYTHONPATH=/tmp/hunt3/C20/wt /venv/bin/python /tmp/hunt3/C20/out/3/demo.py

parity_meas needs an ancilla as soon as two letters of the Pauli string are not 'I'.  It cannot
allocate one while a FutureQubit is active, i.e. for the qubit handed out by
EPRSocket.create_context()/recv_context() and by sequential create_keep(post_routine=...):
MemoryManager.get_new_qubit_address() compares candidate IDs with the FutureQubit's ID, which is a
Future, and the comparison raises.  Strings with a single non-identity letter (no ancilla) and the
other toolbox circuits (toffoli_gate, t_inverse) compile fine on the very same qubits.
"""
import sys

from netqasm.lang.ir import GenericInstr
from netqasm.sdk.connection import DebugConnection
from netqasm.sdk.epr_socket import EPRSocket
from netqasm.sdk.qubit import Qubit
from netqasm.sdk.toolbox import parity_meas, t_inverse, toffoli_gate

DebugConnection.node_ids = {"alice": 0, "bob": 1}


def count(protosub, instr):
    return sum(1 for c in protosub.commands if getattr(c, "instruction", None) == instr)


def build(form, action):
    """Returns the protosubroutine built for `action(epr_qubit, local_qubits)`."""
    DebugConnection._app_ids.pop("alice", None)
    es = EPRSocket("bob")
    with DebugConnection("alice", epr_sockets=[es]) as conn:
        loc = [Qubit(conn), Qubit(conn)]
        if form == "create_context":
            with es.create_context(number=2, sequential=True) as (q, pair):
                action(q, loc)
        elif form == "post_routine":
            es.create_keep(number=2, sequential=True, post_routine=lambda c, q, pair: action(q, loc))
        else:  # plain create_keep: an ordinary Qubit handle
            q = es.create_keep()[0]
            action(q, loc)
        sub = conn.builder.subrt_pop_pending_subroutine()
        conn.builder._mem_mgr.inactivate_qubits()
        return sub


def main():
    failures = 0
    cases = [
        ("t_inverse(q)", lambda q, loc: t_inverse(q), 0),
        ("toffoli_gate(q, l0, l1)", lambda q, loc: toffoli_gate(q, loc[0], loc[1]), 0),
        ("parity_meas([q, l0], 'XI')", lambda q, loc: parity_meas([q, loc[0]], "XI"), 1),
        ("parity_meas([q, l0], 'ZZ')", lambda q, loc: parity_meas([q, loc[0]], "ZZ"), 1),
        ("parity_meas([q, l0, l1], '-XIY')", lambda q, loc: parity_meas([q, loc[0], loc[1]], "-XIY"), 1),
    ]
    for form in ["create_keep", "create_context", "post_routine"]:
        for name, action, n_meas in cases:
            try:
                sub = build(form, action)
                got = count(sub, GenericInstr.MEAS)
                problem = None if got == n_meas else f"{got} meas instructions instead of {n_meas}"
            except Exception as exc:  # noqa
                problem = f"{type(exc).__name__}: {exc}"
            status = "ok" if problem is None else f"VIOLATION -> {problem}"
            print(f"[EPR qubit from {form:14s}] {name}: expected the circuit to be compiled; {status}")
            if problem is not None:
                failures += 1
    if failures:
        print(f"\n{failures} cases violated C20 (parity_meas must measure every Pauli string on the given qubits)")
        sys.exit(1)
    print("all good")


if __name__ == "__main__":
    main()
