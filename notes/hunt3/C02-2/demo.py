"""C02 finding 2: a subroutine assembled from NetQASM text that has no `# NETQASM x.y` line
cannot be encoded at all: its version is None instead of the package's NETQASM_VERSION,
so there are no "two version bytes" to start the subroutine with.

The parser accepts such text (the preamble lines are optional; it is the form used for
subroutine templates in tests/test_subroutine.py), the instructions are all valid, and the same
subroutine built through any other entry point (Subroutine(...), ProtoSubroutine(...),
the SDK builder) gets the default version (0, 10).
"""
import struct
import sys

from netqasm.lang.ir import ProtoSubroutine
from netqasm.lang.parsing import deserialize, parse_text_subroutine
from netqasm.lang.parsing.text import assemble_subroutine, parse_text_protosubroutine
from netqasm.lang.subroutine import Subroutine
from netqasm.lang.version import NETQASM_VERSION

BODY = """
set R0 7
qalloc Q0
meas Q0 M0
ret_reg M0
"""

# independent expectation: header (default version, app id 3) + 4 commands of 7 bytes
R, C, Q, M = 0, 1, 2, 3
reg = lambda bank, idx: bytes([bank | idx << 2])
pad = lambda b: b + bytes(7 - len(b))
expected = (
    bytes(NETQASM_VERSION)
    + struct.pack("<H", 3)
    + pad(bytes([4]) + reg(R, 0) + struct.pack("<i", 7))
    + pad(bytes([1]) + reg(Q, 0))
    + pad(bytes([32]) + reg(Q, 0) + reg(M, 0))
    + pad(bytes([39]) + reg(M, 0))
)

failures = 0

# control 1: with a version line the text route works
with_version = parse_text_subroutine(f"# NETQASM {NETQASM_VERSION[0]}.{NETQASM_VERSION[1]}\n" + BODY)
with_version.instantiate(app_id=3)
assert bytes(with_version) == expected, "control failed"
print("ok   text with '# NETQASM' line       ->", bytes(with_version).hex())

# control 2: the same commands through ProtoSubroutine's own default
proto = parse_text_protosubroutine(BODY)
via_default = assemble_subroutine(ProtoSubroutine(commands=proto.commands))
via_default.instantiate(app_id=3)
assert bytes(via_default) == expected, "control failed"
print("ok   ProtoSubroutine(commands) default ->", bytes(via_default).hex())

# the case: same text, no version line
subroutine = parse_text_subroutine(BODY)
subroutine.instantiate(app_id=3)
print(f"     text without version line: netqasm_version = {subroutine.netqasm_version!r}"
      f" (expected {NETQASM_VERSION!r})")
try:
    got = bytes(subroutine)
except Exception as err:  # noqa
    print(f"FAIL text without '# NETQASM' line    -> no bytes: {type(err).__name__}: {err}")
    print(f"     expected                         -> {expected.hex()}")
    failures += 1
else:
    if got != expected:
        print(f"FAIL got {got.hex()} expected {expected.hex()}")
        failures += 1
    else:
        assert deserialize(got).netqasm_version == tuple(NETQASM_VERSION)
        print("ok   text without '# NETQASM' line    ->", got.hex())

sys.exit(1 if failures else 0)
