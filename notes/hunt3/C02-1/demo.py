"""C02 finding 1: an int-subclass value (e.g. a resolved SDK Future) in a register index,
an (array) address, the app id or the version is silently encoded as 0.

The immediates of an instruction are encoded by their integer value (int(x)), but the
other integer-valued fields of the wire format are handed to ctypes as they are, and
ctypes reads the *raw* int payload of an int subclass (0 for every Future).
"""
import struct
import sys

from netqasm.lang.encoding import RegisterName
from netqasm.lang.instr import core
from netqasm.lang.operand import Address, ArrayEntry, ArraySlice, Immediate, Register
from netqasm.lang.subroutine import Subroutine
from netqasm.sdk.connection import DebugConnection
from netqasm.sdk.futures import Future


def resolved_future(value):
    """A Future as the SDK hands it out, after its subroutine has been executed."""
    conn = DebugConnection("alice")
    fut = Future(connection=conn, address=0, index=0)
    fut._value = value
    assert isinstance(fut, int) and int(fut) == value and fut == value and fut + 0 == value
    return fut


def ref_reg(bank, index):
    return bytes([bank | (index << 2)])


def pad(b):
    return b + bytes(7 - len(b))


failures = []


def check(label, got, expected):
    ok = got == expected
    print(f"{'ok  ' if ok else 'FAIL'} {label}: expected {expected.hex()} got {got.hex()}")
    if not ok:
        failures.append(label)


five = resolved_future(5)
three = resolved_future(3)
R, C, Q, M = 0, 1, 2, 3

# control: the same Future as an immediate is encoded by value (this was repaired earlier)
check(
    "set R1 <Future 5>      (immediate, control)",
    core.SetInstruction(reg=Register(RegisterName.R, 1), imm=Immediate(five)).serialize(),
    pad(bytes([4]) + ref_reg(R, 1) + struct.pack("<i", 5)),
)

# register index
check(
    "qalloc Q<Future 5>     (register index)",
    core.QAllocInstruction(reg=Register(RegisterName.Q, five)).serialize(),
    pad(bytes([1]) + ref_reg(Q, 5)),
)
check(
    "add R<3> R<5> R<3>     (register indices)",
    core.AddInstruction(
        reg0=Register(RegisterName.R, three),
        reg1=Register(RegisterName.R, five),
        reg2=Register(RegisterName.R, three),
    ).serialize(),
    pad(bytes([16]) + ref_reg(R, 3) + ref_reg(R, 5) + ref_reg(R, 3)),
)

# address
check(
    "ret_arr @<Future 5>    (address)",
    core.RetArrInstruction(address=Address(five)).serialize(),
    pad(bytes([40]) + struct.pack("<i", 5)),
)
check(
    "store R0 @<5>[R<3>]    (array entry)",
    core.StoreInstruction(
        reg=Register(RegisterName.R, 0),
        entry=ArrayEntry(five, Register(RegisterName.R, three)),
    ).serialize(),
    pad(bytes([5]) + ref_reg(R, 0) + struct.pack("<i", 5) + ref_reg(R, 3)),
)
check(
    "wait_all @<5>[R<3>:R<5>] (array slice)",
    core.WaitAllInstruction(
        slice=ArraySlice(
            Address(five), Register(RegisterName.R, three), Register(RegisterName.R, five)
        )
    ).serialize(),
    pad(bytes([35]) + struct.pack("<i", 5) + ref_reg(R, 3) + ref_reg(R, 5)),
)

# subroutine header
check(
    "header, app id <Future 5>",
    bytes(Subroutine(instructions=[], netqasm_version=(0, 10), app_id=five)),
    bytes([0, 10]) + struct.pack("<H", 5),
)
check(
    "header, version (<Future 3>, <Future 5>)",
    bytes(Subroutine(instructions=[], netqasm_version=(three, five), app_id=1)),
    bytes([3, 5]) + struct.pack("<H", 1),
)

# the range check looks at the *value* (so 16 is refused) while the encoder takes the raw 0
try:
    core.QAllocInstruction(reg=Register(RegisterName.Q, resolved_future(16))).serialize()
    print("FAIL register index <Future 16> was accepted")
    failures.append("range")
except OverflowError as err:
    print(f"ok   register index <Future 16> refused: {err}")

if failures:
    print(f"\n{len(failures)} encodings differ from the 7-byte layout (field silently encoded as 0)")
    sys.exit(1)
print("all encodings follow the layout")
