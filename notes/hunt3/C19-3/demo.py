"""C19 finding 3: the greedy expansion only rounds DOWN, so a dyadic multiple of pi whose float
lands one ulp below k*pi/2^d (e.g. -pi/8, 11*pi/16, 15*pi/8) is expanded into steps with large
exponents ((239, 7), (127, 14), (127, 21)) instead of the exact single step (15, 3).  In the
hardware configuration (netqasm.runtime.settings.set_is_using_hardware(True), as `netqasm run
--hardware`/the QNodeOS CLI sets it) only exponents 0..4 can be encoded, so the requested
rotation - which the hardware can do exactly - is not emitted at all: flush() raises ValueError."""
import math
import sys
from fractions import Fraction

from netqasm.backend.messages import deserialize_host_msg
from netqasm.lang.instr import core
from netqasm.lang.instr.flavour import NVFlavour
from netqasm.lang.parsing import deserialize
from netqasm.runtime.settings import set_is_using_hardware
from netqasm.sdk.connection import DebugConnection
from netqasm.sdk.qubit import Qubit
from netqasm.sdk.toolbox import get_angle_spec_from_float
from netqasm.sdk.transpile import NVSubroutineTranspiler

PI = Fraction("3.14159265358979323846264338327950288419716939937510")
TOL = 1e-4


def dist_mod_2pi(angle, nds):
    diff = (sum((Fraction(n, 2**d) for n, d in nds), Fraction(0)) * PI - Fraction(angle)) % (2 * PI)
    return float(min(diff, 2 * PI - diff))


def emitted(axis, **kw):
    with DebugConnection("Alice", compiler=NVSubroutineTranspiler) as conn:
        q = Qubit(conn)
        getattr(q, "rot_" + axis)(**kw)
        conn.flush()
    nds = []
    for raw in conn.storage:
        msg = deserialize_host_msg(raw)
        if hasattr(msg, "subroutine"):
            for ins in deserialize(msg.subroutine, flavour=NVFlavour()).instructions:
                if isinstance(ins, core.RotationInstruction):
                    nds.append((ins.angle_num.value, ins.angle_denom.value))
    return nds


set_is_using_hardware(True)
try:
    # the same rotation given as (n, d) is accepted:
    print("rot_Z(n=15, d=3)        ->", emitted("Z", n=15, d=3))
    failures = 0
    total = 0
    shown = 0
    for k in range(-32, 33):          # every angle the hardware can do exactly: k * pi / 16
        angle = k * math.pi / 16
        total += 1
        try:
            nds = emitted("Z", angle=angle)
            err = dist_mod_2pi(angle, nds)
            ok = err <= TOL and all(0 <= n <= 255 and 0 <= d <= 4 for n, d in nds)
            what = f"steps={nds} err={err:.2e}"
        except Exception as exc:  # noqa
            ok = False
            what = f"{type(exc).__name__}: {exc}   [decomposition: {get_angle_spec_from_float(angle)}]"
        if not ok:
            failures += 1
            if shown < 8:
                shown += 1
                print(f"rot_Z(angle={k}*pi/16 = {angle!r}) -> {what}")
finally:
    set_is_using_hardware(False)

print(f"{failures} of {total} multiples of pi/16 are not emitted as a rotation within {TOL} "
      f"(expected 0: each is exactly one encodable step)")
sys.exit(1 if failures else 0)
