"""C12 finding 1: a request that is still outstanding when its subroutine ends can never be served.

Subroutine 1 of the application posts the request (create_epr / recv_epr are non-blocking) and ends;
the link-layer response arrives afterwards; subroutine 2 of the same application waits for the result.

Expected (C12): the response is consumed by the oldest outstanding request for its remote node, purpose
and role, pair 0 fills slice 0 of the request's result array and maps its 0-th virtual qubit, the request
is retired after its one pair, and the wait_all of subroutine 2 resumes.
"""
import sys

from netqasm.backend.executor import Executor
from netqasm.backend.network_stack import BaseNetworkStack
from netqasm.lang.parsing import parse_text_subroutine
from netqasm.qlink_compat import BellState, LinkLayerOKTypeK, LinkLayerOKTypeM, ReturnType
from netqasm.sdk.shared_memory import SharedMemoryManager


class Stack(BaseNetworkStack):
    def put(self, request):
        pass

    def setup_epr_socket(self, epr_socket_id, remote_node_id, remote_epr_socket_id, timeout=1.0):
        return None

    def get_purpose_id(self, remote_node_id, epr_socket_id):
        return epr_socket_id


class Controller(Executor):
    """The two hooks every simulator supplies: yield while waiting, retry pending responses later."""

    @property
    def node_id(self):
        return 0

    def _do_wait(self):
        yield "waiting"

    def _wait_to_handle_epr_responses(self):
        pass  # the demo retries explicitly


def subroutine(text):
    return parse_text_subroutine("# NETQASM 1.0\n# APPID 0\n" + text)


def scenario(kind):
    SharedMemoryManager.reset_memories()
    exe = Controller(name=f"node-{kind}")
    exe.network_stack = Stack()
    exe.init_new_application(app_id=0, max_qubits=2)

    if kind == "create-keep":
        post = subroutine(
            "array 10 @0\n"          # result array, one pair
            "array 1 @1\n"           # virtual qubit IDs
            "store 1 @1[0]\n"
            "array 20 @2\n"          # create arguments: type K, 1 pair
            "store 0 @2[0]\n"
            "store 1 @2[1]\n"
            "create_epr(1,0) 1 2 0\n"
        )
        response = LinkLayerOKTypeK(
            type=ReturnType.OK_K, create_id=0, logical_qubit_id=7, directionality_flag=0,
            sequence_number=0, purpose_id=0, remote_node_id=1, goodness=1, goodness_time=3,
            bell_state=BellState.PHI_PLUS,
        )
        requests = exe._epr_create_requests
        expected_array = [0, 0, 7, 0, 0, 0, 1, 1, 3, 0]
        expected_unit_module = [None, 7]
    else:  # receive, measure directly
        post = subroutine(
            "array 10 @0\n"
            "recv_epr(1,0) C0 0\n"
        )
        response = LinkLayerOKTypeM(
            type=ReturnType.OK_M, create_id=0, measurement_outcome=1, measurement_basis=0,
            directionality_flag=1, sequence_number=0, purpose_id=0, remote_node_id=1, goodness=1,
            bell_state=BellState.PHI_PLUS,
        )
        requests = exe._epr_recv_requests
        expected_array = [1, 0, 1, 0, 1, 0, 0, 1, 1, 0]
        expected_unit_module = [None, None]

    # Subroutine 1 posts the request and ends (it has no wait instruction)
    for _ in exe.execute_subroutine(post):
        pass
    assert len(requests[1, 0]) == 1, "the request should be outstanding now"

    problems = []

    # The response arrives after the last instruction of subroutine 1
    try:
        exe._handle_epr_response(response)
    except Exception as exc:  # noqa
        problems.append(f"delivering the response raised {type(exc).__name__}: {str(exc).splitlines()[0]}")

    # Subroutine 2 waits for the result
    waiter = exe.execute_subroutine(subroutine("wait_all @0[0:10]\n"))
    resumed = False
    for _ in range(20):
        try:
            next(waiter)
        except StopIteration:
            resumed = True
            break
        exe._handle_pending_epr_responses()  # the retry of a simulator

    array = exe._app_arrays[0]._arrays[0]
    if array != expected_array:
        problems.append(f"result array: expected {expected_array}, got {array}")
    if exe._qubit_unit_modules[0] != expected_unit_module:
        problems.append(f"unit module: expected {expected_unit_module}, got {exe._qubit_unit_modules[0]}")
    if len(requests[1, 0]) != 0 and array != expected_array:
        problems.append(f"request still queued with pairs_left={requests[1, 0][0].pairs_left} although its response was taken")
    if len(requests[1, 0]) == 0 and array != expected_array:
        problems.append("request was retired although its pair was never stored")
    if exe._pending_epr_responses:
        problems.append(f"{len(exe._pending_epr_responses)} response(s) still pending")
    elif array != expected_array:
        problems.append("the response is gone (not pending any more) but no request received it")
    if not resumed:
        problems.append("wait_all of the second subroutine never resumes")
    return problems


def main():
    failed = False
    for kind in ["create-keep", "recv-measure"]:
        problems = scenario(kind)
        print(f"--- {kind}: request posted by subroutine 1, response delivered after subroutine 1 ended")
        if problems:
            failed = True
            for p in problems:
                print("   VIOLATION:", p)
        else:
            print("   ok: response consumed by the request, slice 0 filled, request retired, wait resumed")
    sys.exit(1 if failed else 0)


if __name__ == "__main__":
    main()
