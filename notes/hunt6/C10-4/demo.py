# ---------------------------------------------------------------------------------------
# Minimal test bench (scratch code, not part of netqasm): the package's own Executor runs
# the subroutines the SDK produces; a scripted link layer hands out the EPR responses; the
# single-qubit gates applied to every virtual qubit are accumulated in a 2x2 matrix.
# ---------------------------------------------------------------------------------------
import itertools
import logging
import sys

import numpy as np

from netqasm.backend.executor import Executor
from netqasm.backend.messages import MessageType, deserialize_host_msg
from netqasm.backend.network_stack import BaseNetworkStack
from netqasm.lang import instr as ins
from netqasm.lang.instr.flavour import VanillaFlavour
from netqasm.lang.parsing import deserialize
from netqasm.qlink_compat import BellState, LinkLayerOKTypeK, LinkLayerOKTypeM, ReturnType
from netqasm.sdk.connection import BaseNetQASMConnection, DebugConnection, DebugNetworkInfo
from netqasm.sdk.epr_socket import EPRSocket
from netqasm.sdk.qubit import Qubit
from netqasm.sdk.shared_memory import SharedMemoryManager

logging.getLogger("NetQASM").setLevel(logging.ERROR)
DebugConnection.node_ids = {"Alice": 0, "Bob": 1}

I2 = np.eye(2, dtype=complex)
BELL = {  # amplitudes on |00>, |01>, |10>, |11>  (first qubit: remote partner, second: local)
    BellState.PHI_PLUS: np.array([1, 0, 0, 1], dtype=complex) / np.sqrt(2),
    BellState.PHI_MINUS: np.array([1, 0, 0, -1], dtype=complex) / np.sqrt(2),
    BellState.PSI_PLUS: np.array([0, 1, 1, 0], dtype=complex) / np.sqrt(2),
    BellState.PSI_MINUS: np.array([0, 1, -1, 0], dtype=complex) / np.sqrt(2),
}


def fidelity_with_phi_plus(bell, local_gates):
    """|<Phi+| (1 x U) |bell>|^2 where U is the product of the gates applied to the local half"""
    state = np.kron(I2, local_gates) @ BELL[bell]
    return float(abs(np.vdot(BELL[BellState.PHI_PLUS], state)) ** 2)


class ScriptedLink(BaseNetworkStack):
    def put(self, request):
        pass

    def setup_epr_socket(self, epr_socket_id, remote_node_id, remote_epr_socket_id, timeout=1.0):
        return None

    def get_purpose_id(self, remote_node_id, epr_socket_id):
        return epr_socket_id


class LinkHasNothingMore(RuntimeError):
    pass


class BenchExecutor(Executor):
    """The package's Executor plus (1) a link that delivers the scripted responses one by one
    whenever the program waits, (2) book-keeping of the gates applied to each virtual qubit."""

    def __init__(self, name, node_id, script):
        super().__init__(name=name)
        self._node_id = node_id
        self.network_stack = ScriptedLink()
        self.script = list(script)  # dicts: type K: bell, duration / type M: bell, outcome
        self.gates = {}  # virtual address -> product of the gates since the qubit arrived
        self.pairs = []  # per delivered pair: dict(bell, virt, pair_index)
        self.log = []  # (mnemonic, virtual address) of every single-qubit gate
        self.names = {}  # virtual address -> mnemonics of the gates since the qubit arrived
        self.measured = []  # (virtual address, pair record or None, gates before the measurement)
        self.recv_epr_count = 0

    @property
    def node_id(self):
        return self._node_id

    # link layer -----------------------------------------------------------------------
    def _wait_to_handle_epr_responses(self):
        return None  # (the base class would recurse for ever)

    def _do_wait(self):
        if self._pending_epr_responses:
            n = len(self._pending_epr_responses)
            self._handle_pending_epr_responses()
            if len(self._pending_epr_responses) < n:
                return None
        if not self.script:
            raise LinkHasNothingMore("the program waits, the link has delivered everything")
        item = self.script.pop(0)
        remote = 1 - self._node_id
        if item["type"] == "K":
            free = next(
                p for p in itertools.count() if p not in self._used_physical_qubit_addresses
            )
            response = LinkLayerOKTypeK(
                type=ReturnType.OK_K,
                create_id=1,
                logical_qubit_id=free,
                directionality_flag=1,  # we are the receiver
                sequence_number=item.get("seq", 0),
                purpose_id=0,
                remote_node_id=remote,
                goodness=item.get("duration", 1),
                goodness_time=0,
                bell_state=item["bell"],
            )
        else:
            response = LinkLayerOKTypeM(
                type=ReturnType.OK_M,
                create_id=1,
                measurement_outcome=item["outcome"],
                measurement_basis=0,
                directionality_flag=1,
                sequence_number=item.get("seq", 0),
                purpose_id=0,
                remote_node_id=remote,
                goodness=1,
                bell_state=item["bell"],
            )
        self._handle_epr_response(response)
        return None

    def _do_recv_epr(self, **kwargs):
        self.recv_epr_count += 1
        return super()._do_recv_epr(**kwargs)

    def _handle_epr_ok_k_response(self, epr_cmd_data, response, pair_index):
        ok = super()._handle_epr_ok_k_response(
            epr_cmd_data=epr_cmd_data, response=response, pair_index=pair_index
        )
        if ok:
            app_id = self._get_app_id(epr_cmd_data.subroutine_id)
            virt = self._get_virtual_address_from_epr_data(epr_cmd_data, pair_index, app_id)
            self.gates[virt] = I2
            self.names[virt] = []
            self.pairs.append(dict(bell=response.bell_state, virt=virt, pair_index=pair_index))
        return ok

    def pair_at(self, virt):
        for rec in reversed(self.pairs):
            if rec["virt"] == virt:
                return rec
        return None

    # quantum operations ---------------------------------------------------------------
    def _do_single_qubit_instr(self, instr, subroutine_id, address):
        if isinstance(instr, ins.core.InitInstruction):
            self.gates[address] = I2
            self.names[address] = []
        else:
            self.gates[address] = instr.to_matrix() @ self.gates.get(address, I2)
            self.names.setdefault(address, []).append(instr.mnemonic)
            self.log.append((instr.mnemonic, address))
        return None

    def _do_single_qubit_rotation(self, instr, subroutine_id, address, angle):
        self.gates[address] = instr.to_matrix() @ self.gates.get(address, I2)
        self.names.setdefault(address, []).append(instr.mnemonic)
        self.log.append((instr.mnemonic, address))
        return None

    def _do_meas(self, subroutine_id, q_address):
        self.measured.append((q_address, self.pair_at(q_address), self.gates.get(q_address, I2)))
        return 0


class BenchConnection(BaseNetQASMConnection):
    """Host side: every message is handled at once by the executor above."""

    def __init__(self, app_name, executor, **kwargs):
        self.executor = executor
        super().__init__(app_name, node_name=executor.name, **kwargs)

    def _get_network_info(self):
        return DebugNetworkInfo

    def _commit_serialized_message(self, raw_msg, block=True, callback=None):
        msg = deserialize_host_msg(raw_msg)
        if msg.TYPE == MessageType.INIT_NEW_APP:
            self.executor.init_new_application(app_id=msg.app_id, max_qubits=msg.max_qubits)
        elif msg.TYPE == MessageType.SUBROUTINE:
            subroutine = deserialize(msg.subroutine, flavour=VanillaFlavour())
            self.executor.consume_execute_subroutine(subroutine)
        elif msg.TYPE == MessageType.STOP_APP:
            list(self.executor.stop_application(app_id=msg.app_id))


def bench(node, script, **conn_kwargs):
    SharedMemoryManager.reset_memories()
    BaseNetQASMConnection._app_ids.clear()
    other = "Bob" if node == "Alice" else "Alice"
    executor = BenchExecutor(node, DebugConnection.node_ids[node], script)
    socket = EPRSocket(other)
    conn = BenchConnection(node, executor, epr_sockets=[socket], **conn_kwargs)
    return executor, socket, conn


def short(matrix):
    """Name a 2x2 unitary up to a global phase"""
    X = np.array([[0, 1], [1, 0]])
    Z = np.array([[1, 0], [0, -1]])
    for name, ref in [("1", I2), ("X", X), ("Z", Z), ("ZX", Z @ X)]:
        if abs(abs(np.trace(ref.conj().T @ matrix)) - 2) < 1e-9:
            return name
    return "other"


# ---------------------------------------------------------------------------------------
# Finding 4: EPRSocket.recv_context() asks for Phi+ (EntRequestParams.expect_phi_plus defaults
# to True and recv_context offers no way to switch it off) but never applies any correction.


def scenario(bell, number, pair_no):
    """`number` pairs arrive; pair `pair_no` is in `bell`, the others in Phi+. The body of the
    context measures the qubit. Returned: for every pair the gates that had been applied to the
    local half when it was measured, and the fidelity of the pair with Phi+ at that moment."""
    bells = [BellState.PHI_PLUS] * number
    bells[pair_no] = bell
    executor, socket, conn = bench(
        "Alice", [dict(type="K", bell=b, seq=i) for i, b in enumerate(bells)], max_qubits=5
    )
    with conn:
        outcomes = conn.new_array(number)
        with socket.recv_context(number=number) as (q, pair):
            q.measure(future=outcomes.get_future_index(pair))
        conn.flush()
    out = []
    for virt, rec, gates in executor.measured:
        out.append((rec["pair_index"], rec["bell"].name, short(gates), fidelity_with_phi_plus(rec["bell"], gates)))
    return out


def main():
    failures = 0
    for number in [1, 2]:
        for pair_no in range(number):
            for bell in BellState:
                result = scenario(bell, number, pair_no)
                ok = len(result) == number and all(abs(f - 1) < 1e-9 for (_, _, _, f) in result)
                failures += 0 if ok else 1
                text = "; ".join(
                    f"pair {i}: {b}, gates before the measurement: {g}, fidelity with Phi+ {f:.3f}"
                    for (i, b, g, f) in result
                )
                print(f"recv_context(number={number}): {text}  {'ok' if ok else 'VIOLATION'}")
    # for comparison: the post-routine form of the same request
    executor, socket, conn = bench("Alice", [dict(type="K", bell=BellState.PSI_PLUS)], max_qubits=5)
    with conn:
        outcomes = conn.new_array(1)
        socket.recv_keep(
            number=1,
            sequential=True,
            post_routine=lambda b, q, pair: q.measure(future=outcomes.get_future_index(pair)),
        )
        conn.flush()
    _, rec, gates = executor.measured[0]
    print(f"(recv_keep(post_routine=...) with PSI_PLUS: gates before the measurement: {short(gates)}, "
          f"fidelity with Phi+ {fidelity_with_phi_plus(rec['bell'], gates):.3f})")
    if failures:
        print(f"\nFAIL: in {failures} cases a pair that the link delivered in another Bell state was handed "
              f"to the body of recv_context without the Pauli correction (expected: Phi+)")
        sys.exit(1)
    print("\nOK: every pair handled by the context body was in Phi+")


if __name__ == "__main__":
    main()
