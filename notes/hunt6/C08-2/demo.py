# ---------------------------------------------------------------------------------------
# A small independent interpreter for vanilla / NV NetQASM subroutines.
# Classical memory: registers and arrays. Quantum memory: a density matrix over the
# virtual qubit IDs that are allocated. It knows nothing of the transpiler.
# ---------------------------------------------------------------------------------------
import numpy as np
from netqasm.lang.instr import core, nv, vanilla, DebugInstruction
from netqasm.lang.operand import Register

_X = np.array([[0, 1], [1, 0]], dtype=complex)
_Y = np.array([[0, -1j], [1j, 0]], dtype=complex)
_Z = np.array([[1, 0], [0, -1]], dtype=complex)
_I = np.eye(2, dtype=complex)
_P0 = np.diag([1, 0]).astype(complex)
_P1 = np.diag([0, 1]).astype(complex)
_STATIC = {
    "x": _X, "y": _Y, "z": _Z, "h": (_X + _Z) / np.sqrt(2), "k": (_Y + _Z) / np.sqrt(2),
    "s": np.diag([1, 1j]), "t": np.diag([1, np.exp(1j * np.pi / 4)]),
}
_CNOT = np.array([[1, 0, 0, 0], [0, 1, 0, 0], [0, 0, 0, 1], [0, 0, 1, 0]], dtype=complex)
_CZ = np.diag([1, 1, 1, -1]).astype(complex)
_SWAP = np.array([[1, 0, 0, 0], [0, 0, 1, 0], [0, 1, 0, 0], [0, 0, 0, 1]], dtype=complex)


def _rot(pauli, angle):
    return np.cos(angle / 2) * _I - 1j * np.sin(angle / 2) * pauli


class RunError(Exception):
    pass


class Machine:
    def __init__(self, nv_hardware_rules, outcomes=(0,)):
        self.regs, self.arrays = {}, {}
        self.qubits, self.rho = [], np.array([[1.0 + 0j]])
        self.nv = nv_hardware_rules  # controlled rotations: control = electron (ID 0), target = a carbon
        self.outcomes, self.n_meas = list(outcomes), 0

    def get(self, reg):
        if reg not in self.regs:
            raise RunError(f"register {reg} is read before it is written")
        return self.regs[reg]

    def _idx(self, x):
        return self.get(x) if isinstance(x, Register) else int(x)

    def _entry(self, entry):
        array, index = self.arrays[entry.address.address], self._idx(entry.index)
        if not 0 <= index < len(array):
            raise RunError(f"array entry {entry} = index {index} is outside the array of length {len(array)}")
        return array, index

    def apply(self, u, ids):
        for q in ids:
            if q not in self.qubits:
                raise RunError(f"operation on virtual qubit {q}, which is not allocated")
        if len(set(ids)) != len(ids):
            raise RunError(f"two-qubit operation with the same qubit twice: {ids}")
        n, k = len(self.qubits), len(ids)
        pos = [self.qubits.index(q) for q in ids]
        full = np.eye(2**n, dtype=complex).reshape([2] * (2 * n))
        u = np.asarray(u, dtype=complex).reshape([2] * (2 * k))
        full = np.tensordot(u, full, axes=(list(range(k, 2 * k)), pos))
        full = np.moveaxis(full, list(range(k)), pos).reshape(2**n, 2**n)
        self.rho = full @ self.rho @ full.conj().T

    def alloc(self, q):
        if q in self.qubits:
            raise RunError(f"qalloc of virtual qubit {q}, which is already allocated")
        self.qubits.append(q)
        self.rho = np.kron(self.rho, _P0)

    def free(self, q):
        if q not in self.qubits:
            raise RunError(f"qfree of virtual qubit {q}, which is not allocated")
        n, p = len(self.qubits), self.qubits.index(q)
        rho = np.trace(self.rho.reshape([2] * (2 * n)), axis1=p, axis2=n + p)
        self.qubits.pop(p)
        self.rho = rho.reshape(2 ** (n - 1), 2 ** (n - 1))

    def measure(self, q):
        want = self.outcomes[self.n_meas % len(self.outcomes)]
        self.n_meas += 1
        before = self.rho
        for b in (want, 1 - want):
            self.rho = before
            self.apply([_P0, _P1][b], [q])
            p = np.trace(self.rho).real
            if p > 1e-9:
                self.rho = self.rho / p
                return b

    def run(self, instructions, max_steps=100000):
        pc = 0
        for _ in range(max_steps):
            if pc == len(instructions):
                return self
            if not 0 <= pc < len(instructions):
                raise RunError(f"jump to {pc}, outside the program")
            ins, nxt = instructions[pc], pc + 1
            if isinstance(ins, DebugInstruction):
                pass
            elif isinstance(ins, core.SetInstruction):
                self.regs[ins.reg] = int(ins.imm.value)
            elif isinstance(ins, (core.AddInstruction, core.SubInstruction)):
                a, b = self.get(ins.reg1), self.get(ins.reg2)
                self.regs[ins.reg0] = a + b if isinstance(ins, core.AddInstruction) else a - b
            elif isinstance(ins, core.ArrayInstruction):
                self.arrays[ins.address.address] = [None] * self.get(ins.size)
            elif isinstance(ins, core.StoreInstruction):
                array, index = self._entry(ins.entry)
                array[index] = self.get(ins.reg)
            elif isinstance(ins, core.LoadInstruction):
                array, index = self._entry(ins.entry)
                value = array[index]
                if value is None:
                    raise RunError(f"line {pc}: load of an array entry that has no value")
                self.regs[ins.reg] = value
            elif isinstance(ins, core.JmpInstruction):
                nxt = ins.line.value
            elif isinstance(ins, core.BranchUnaryInstruction):
                a = self.get(ins.reg)
                if (a == 0) == isinstance(ins, core.BezInstruction):
                    nxt = ins.line.value
            elif isinstance(ins, core.BranchBinaryInstruction):
                a, b = self.get(ins.reg0), self.get(ins.reg1)
                taken = {core.BeqInstruction: a == b, core.BneInstruction: a != b,
                         core.BltInstruction: a < b, core.BgeInstruction: a >= b}[type(ins)]
                if taken:
                    nxt = ins.line.value
            elif isinstance(ins, core.QAllocInstruction):
                self.alloc(self.get(ins.reg))
            elif isinstance(ins, core.InitInstruction):
                q = self.get(ins.reg)
                self.free(q)
                self.alloc(q)
            elif isinstance(ins, core.QFreeInstruction):
                self.free(self.get(ins.reg))
            elif isinstance(ins, core.MeasInstruction):
                self.regs[ins.creg] = self.measure(self.get(ins.qreg))
            elif isinstance(ins, (core.RetRegInstruction, core.RetArrInstruction)):
                pass
            elif isinstance(ins, core.SingleQubitInstruction):
                self.apply(_STATIC[ins.mnemonic], [self.get(ins.reg)])
            elif isinstance(ins, core.RotationInstruction):
                pauli = {"rot_x": _X, "rot_y": _Y, "rot_z": _Z}[ins.mnemonic]
                angle = ins.angle_num.value * np.pi / 2**ins.angle_denom.value
                self.apply(_rot(pauli, angle), [self.get(ins.reg)])
            elif isinstance(ins, core.ControlledRotationInstruction):
                pauli = {"crot_x": _X, "crot_y": _Y}[ins.mnemonic]
                angle = ins.angle_num.value * np.pi / 2**ins.angle_denom.value
                ctrl, target = self.get(ins.reg0), self.get(ins.reg1)
                if self.nv and not (ctrl == 0 and target != 0):
                    raise RunError(
                        f"line {pc}: '{ins}' runs with control = qubit {ctrl}, target = qubit {target}; "
                        f"NV only has electron(0)-controlled rotations of a carbon"
                    )
                self.apply(np.kron(_P0, _rot(pauli, angle)) + np.kron(_P1, _rot(pauli, -angle)), [ctrl, target])
            elif isinstance(ins, core.TwoQubitInstruction):
                u = {"cnot": _CNOT, "cphase": _CZ, "mov": _SWAP}[ins.mnemonic]
                self.apply(u, [self.get(ins.reg0), self.get(ins.reg1)])
            else:
                raise RunError(f"instruction {ins} is not modelled")
            pc = nxt
        raise RunError("too many steps")

    def quantum_state(self):
        """(sorted virtual IDs, density matrix with the qubits in that order)"""
        n = len(self.qubits)
        order = sorted(range(n), key=lambda i: self.qubits[i])
        rho = self.rho.reshape([2] * (2 * n)).transpose(order + [n + o for o in order])
        return sorted(self.qubits), rho.reshape(2**n, 2**n)


def mentioned_registers(instructions):
    """Names of all registers a program mentions, also inside @a[R] and @a[R:R]."""
    names = set()
    for ins in instructions:
        for op in ins.operands:
            for part in [op] + [getattr(op, attr, None) for attr in ("index", "start", "stop")]:
                if isinstance(part, Register):
                    names.add(str(part))
    return names


def differences(m_vanilla, m_nv, vanilla_instructions):
    """What differs between the two final states. Registers the vanilla program does not
    mention anywhere are the transpiler's to use as scratch: they are not compared."""
    own = mentioned_registers(vanilla_instructions)
    out = []
    r1 = {str(k): v for k, v in m_vanilla.regs.items() if str(k) in own}
    r2 = {str(k): v for k, v in m_nv.regs.items() if str(k) in own}
    for k in sorted(set(r1) | set(r2)):
        if r1.get(k) != r2.get(k):
            out.append(f"register {k}: vanilla {r1.get(k)}, NV {r2.get(k)}")
    if m_vanilla.arrays != m_nv.arrays:
        out.append(f"arrays: vanilla {m_vanilla.arrays}, NV {m_nv.arrays}")
    (q1, rho1), (q2, rho2) = m_vanilla.quantum_state(), m_nv.quantum_state()
    if q1 != q2:
        out.append(f"allocated qubits: vanilla {q1}, NV {q2}")
    elif not np.allclose(rho1, rho2, atol=1e-7):
        out.append(f"quantum state of qubits {q1} differs")
    return out


# ---------------------------------------------------------------------------------------
# The demonstration
# ---------------------------------------------------------------------------------------
import sys
from copy import deepcopy

from netqasm.backend.executor import Executor
from netqasm.sdk.build_types import NVHardwareConfig
from netqasm.sdk.connection import DebugConnection
from netqasm.sdk.qubit import Qubit
from netqasm.sdk.shared_memory import SharedMemoryManager
from netqasm.sdk.transpile import NVSubroutineTranspiler


class PositionCheckingExecutor(Executor):
    """The package's own executor with the one thing every backend does for a gate: look up
    the physical position of the virtual qubits it acts on (no quantum state is kept)."""

    def _do_single_qubit_instr(self, instr, subroutine_id, address):
        self._get_position(subroutine_id, address)

    def _do_single_qubit_rotation(self, instr, subroutine_id, address, angle):
        self._get_position(subroutine_id, address)

    def _do_controlled_qubit_rotation(self, instr, subroutine_id, address1, address2, angle):
        self._get_positions(subroutine_id, [address1, address2])

    def _do_two_qubit_instr(self, instr, subroutine_id, address1, address2):
        self._get_positions(subroutine_id, [address1, address2])

    def _do_meas(self, subroutine_id, q_address):
        self._get_position(subroutine_id, q_address)
        return 0


def package_executor_outcome(subroutine):
    SharedMemoryManager.reset_memories()
    executor = PositionCheckingExecutor()
    executor.init_new_application(app_id=0, max_qubits=5)
    try:
        executor.consume_execute_subroutine(deepcopy(subroutine))
        return "ran to the end"
    except Exception as exc:  # noqa
        return f"{type(exc).__name__}: {str(exc).splitlines()[0]}"


def build(case):
    with DebugConnection("Alice", hardware_config=NVHardwareConfig(4), return_arrays=False) as conn:
        electron = Qubit(conn)  # virtual ID 0
        c1 = Qubit(conn)  # virtual ID 1
        c2 = Qubit(conn)  # virtual ID 2
        c1.H()
        if case == "electron measured":
            electron.measure(store_array=False)  # meas + qfree of virtual qubit 0
        else:
            # measuring a carbon under an NV config: the SDK first moves what sits on ID 0 to
            # a fresh carbon and frees ID 0
            electron.X()
            c2.measure(inplace=True, store_array=False)
        c1.cnot(c2)  # a gate between two carbons
        c1.cphase(c2)
        return conn.compile()


failed = False
for case in ("electron measured", "a carbon measured (SDK frees ID 0 first)"):
    vanilla_sub = build(case)
    nv_sub = NVSubroutineTranspiler(deepcopy(vanilla_sub)).transpile()

    print(f"--- {case}, then carbon1.cnot(carbon2); carbon1.cphase(carbon2)")
    m_vanilla = Machine(nv_hardware_rules=False).run(list(vanilla_sub.instructions))
    ids, _ = m_vanilla.quantum_state()
    print(f"    vanilla subroutine : runs to the end, allocated qubits {ids}; "
          f"package executor: {package_executor_outcome(vanilla_sub)}")
    print("    expected           : the NV subroutine ends with the same classical memory and quantum state")
    try:
        m_nv = Machine(nv_hardware_rules=True).run(list(nv_sub.instructions))
        diffs = differences(m_vanilla, m_nv, vanilla_sub.instructions)
        happened = f"runs to the end, differences: {diffs or 'none'}"
        bad = bool(diffs)
    except RunError as exc:
        happened, bad = f"stops: {exc}", True
    pkg = package_executor_outcome(nv_sub)
    print(f"    happened (NV)      : {happened}")
    print(f"    package executor   : {pkg}")
    failed = failed or bad or pkg != "ran to the end"

if failed:
    print("\nFAIL: the NV expansion of a carbon-carbon gate needs virtual qubit 0 to be allocated; "
          "the vanilla gate does not")
    sys.exit(1)
print("\nOK")
