"""C14 finding 3: an operation that is refused (its error is raised to the caller as it should be) keeps
the classical register it had taken.  Sixteen refused operations later the connection cannot compile
anything that needs a register any more, although nothing is open.
"""
import sys

import numpy as np

from netqasm.logging.glob import set_log_level
from netqasm.sdk.connection import DebugConnection
from netqasm.sdk.qubit import Qubit

set_log_level("ERROR")


def active(conn):
    return sorted((str(r) for r in conn.builder._mem_mgr._active_registers), key=lambda s: int(s[1:]))


# --- the refused operations: each raises a clear error, which the application catches ----------------

def loop_body_refused(conn):
    """callback form of a loop whose body is refused (it touches a qubit that was measured already)"""
    q = Qubit(conn)
    q.measure()

    def body(c, index):
        q.X()  # QubitNotActiveError

    conn.loop_body(body, 3)


def if_numpy_operand(conn):
    """if-context on a Future compared with a numpy integer (refused with a TypeError)"""
    f = conn.new_array(1, [0]).get_future_index(0)
    q = Qubit(conn)
    with f.if_eq(np.int64(1)):
        q.X()


def add_numpy_operand(conn):
    """Future.add with a numpy integer (refused with NotImplementedError)"""
    f = conn.new_array(1, [0]).get_future_index(0)
    f.add(np.int64(1))


def add_numpy_modulus(conn):
    f = conn.new_array(1, [0]).get_future_index(0)
    f.add(1, mod=np.int64(2))


def loop_until_without_condition(conn):
    """loop_until whose exit condition was forgotten (refused with an AssertionError)"""
    q = Qubit(conn)
    with conn.loop_until(3):
        q.X()


def valid_operation(conn):
    f = conn.new_array(1, [0]).get_future_index(0)
    f.add(1)
    conn.flush()


failures = 0
for refused in [
    loop_body_refused,
    if_numpy_operand,
    add_numpy_operand,
    add_numpy_modulus,
    loop_until_without_condition,
]:
    conn = DebugConnection("Alice", max_qubits=100)
    errors = set()
    for _ in range(16):
        try:
            refused(conn)
        except Exception as err:  # the application handles the refusal and goes on
            errors.add(type(err).__name__)
        conn.flush()
    held = active(conn)
    try:
        valid_operation(conn)
        after = "compiles"
    except Exception as err:
        after = f"{type(err).__name__}: {err}"
        failures += 1
    print(f"{refused.__name__}: 16 x refused with {sorted(errors)}")
    print(f"    registers still reserved while nothing is open: {held}")
    print(f"    a valid Future.add(1) + flush afterwards       : {after}")

print()
print("expected: a refused operation gives its register back, the valid operation compiles")
print(f"happened: {failures} of 5 scenarios end with a connection that cannot compile any more")
sys.exit(1 if failures else 0)
