"""C05 finding 1: NV hardware configuration + a measurement inside an `if` body.

With `NVHardwareConfig` (or `compiler=NVSubroutineTranspiler`, which forces that config) the builder
makes room at virtual address 0 before it measures a qubit that lives elsewhere: it emits
"qalloc new; mov 0 -> new; qfree 0" and, AT BUILD TIME, re-labels the Qubit object that sat at
address 0.  When the measurement stands inside an `if` body these move instructions are only
executed when the branch is taken, but the re-labelling is unconditional.  If the branch is not taken,
every later gate on the untouched qubit goes to a virtual address that was never allocated.

Run:  cd /tmp/hunt6/C05/wt && PYTHONPATH=/tmp/hunt6/C05/wt /venv/bin/python /tmp/hunt6/C05/out/1/demo.py
"""
import sys

from netqasm.backend.executor import Executor
from netqasm.backend.messages import MessageType, deserialize_host_msg
from netqasm.lang.parsing import deserialize
from netqasm.sdk.build_types import GenericHardwareConfig, NVHardwareConfig
from netqasm.sdk.connection import BaseNetQASMConnection, DebugNetworkInfo
from netqasm.sdk.qubit import Qubit
from netqasm.sdk.shared_memory import SharedMemoryManager


class RecExecutor(Executor):
    """The package's Executor; quantum operations are recorded, outcomes are scripted."""

    def __init__(self, name, outcomes):
        super().__init__(name=name)
        self.trace = []
        self.outcomes = list(outcomes)

    def _do_single_qubit_instr(self, instr, subroutine_id, address):
        app_id = self._get_app_id(subroutine_id)
        allocated = self._has_virtual_address(app_id, address)
        self.trace.append((instr.mnemonic, address, "allocated" if allocated else "NOT ALLOCATED"))

    def _do_two_qubit_instr(self, instr, subroutine_id, a1, a2):
        self.trace.append((instr.mnemonic, a1, a2))

    def _do_meas(self, subroutine_id, q_address):
        outcome = self.outcomes.pop(0) if self.outcomes else 0
        self.trace.append(("meas", q_address, outcome))
        return outcome


class ExecConnection(BaseNetQASMConnection):
    """A connection that hands every message to an in-process Executor."""

    def __init__(self, app_name, outcomes=(), **kwargs):
        self.executor = RecExecutor(app_name, outcomes)
        super().__init__(app_name=app_name, node_name=app_name, **kwargs)

    def _get_network_info(self):
        return DebugNetworkInfo

    def _commit_serialized_message(self, raw_msg, block=True, callback=None):
        msg = deserialize_host_msg(raw_msg)
        if msg.TYPE == MessageType.INIT_NEW_APP:
            self.executor.init_new_application(app_id=msg.app_id, max_qubits=msg.max_qubits)
        elif msg.TYPE == MessageType.SUBROUTINE:
            list(self.executor.execute_subroutine(deserialize(msg.subroutine)))
        elif msg.TYPE == MessageType.STOP_APP:
            list(self.executor.stop_application(app_id=msg.app_id))


def program(hardware_config):
    SharedMemoryManager.reset_memories()
    BaseNetQASMConnection._app_ids.clear()
    conn = ExecConnection("alice", outcomes=[1], hardware_config=hardware_config)
    flag = conn.new_array(init_values=[0]).get_future_index(0)  # the condition is FALSE at run time
    q0 = Qubit(conn)  # virtual address 0
    q1 = Qubit(conn)  # virtual address 1
    with flag.if_eq(1):
        q1.measure()  # never executed: flag == 0
    q0.X()  # a gate on the qubit that was not touched by the body
    conn.flush()
    return [t for t in conn.executor.trace if t[0] == "x"]


generic = program(GenericHardwareConfig(5))
nv = program(NVHardwareConfig(5))

expected = [("x", 0, "allocated")]
print("direct execution   : the `if` body is skipped, X is applied to q0 (virtual address 0)")
print("expected X gates   :", expected)
print("generic hardware   :", generic)
print("NV hardware config :", nv)

if generic == expected and nv == expected:
    print("OK")
    sys.exit(0)
print("VIOLATION: with the NV hardware configuration the X gate is sent to a virtual qubit that was")
print("           never allocated (q0 was re-labelled at build time by a move that did not run).")
sys.exit(1)
