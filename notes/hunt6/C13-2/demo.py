"""C13 finding 2: stop_application leaves the application's EPR requests (and its
unfinished subroutines) behind; after the same app ID is registered again they act on
the NEW application: it is handed a qubit it never asked for and one of its arrays is
overwritten.
"""
import sys

from netqasm.backend.executor import Executor
from netqasm.backend.network_stack import BaseNetworkStack
from netqasm.lang.parsing import parse_text_subroutine
from netqasm.qlink_compat import BellState, LinkLayerOKTypeK, ReturnType
from netqasm.sdk.shared_memory import SharedMemoryManager


class Stack(BaseNetworkStack):
    def put(self, request):
        pass

    def setup_epr_socket(self, epr_socket_id, remote_node_id, remote_epr_socket_id, timeout=1.0):
        return None

    def get_purpose_id(self, remote_node_id, epr_socket_id):
        return epr_socket_id


class Controller(Executor):
    """Only the documented extension points are filled in (as every simulator has to)."""

    @property
    def node_id(self):
        return 0

    def _do_wait(self):
        yield "waiting"

    def _wait_to_handle_epr_responses(self):
        return None


def subroutine(app_id, text):
    return parse_text_subroutine(f"# NETQASM 1.0\n# APPID {app_id}\n" + text)


SharedMemoryManager.reset_memories()
ex = Controller(name="ctl")
ex.network_stack = Stack()

# --- first run of application 0: asks for one pair into virtual qubit 1 and waits for it
ex.init_new_application(app_id=0, max_qubits=2)
first_run = ex.execute_subroutine(
    subroutine(
        0,
        """
        set R0 1
        array R0 @0
        set R1 1
        store R1 @0[0]      // virtual qubit ID 1
        set R0 10
        array R0 @1         // entanglement information
        set R0 1            // remote node
        set R1 0            // EPR socket
        set R2 0
        set R3 1
        recv_epr R0 R1 R2 R3
        wait_all @1[0:10]
        """,
    )
)
next(first_run)  # the pair does not come: the subroutine is blocked in wait_all

# --- the host gives up: the application is stopped ...
list(ex.stop_application(0))
assert ex._qubit_unit_modules == {} and not ex._used_physical_qubit_addresses
print("requests left behind by stop_application:", dict(ex._epr_recv_requests))

# --- ... and the same application ID is registered again (second run, another program)
ex.init_new_application(app_id=0, max_qubits=2)
ex.consume_execute_subroutine(
    subroutine(
        0,
        """
        set R0 10
        array R0 @1
        set R1 7
        store R1 @1[0]
        store R1 @1[9]
        """,
    )
)
array_before = list(ex._app_arrays[0]._get_array(1))
unit_module_before = list(ex._qubit_unit_modules[0])
print("new application 0: unit module", unit_module_before, " array @1", array_before)

# --- now the pair that the FIRST run asked for is delivered
error = None
try:
    ex._handle_epr_response(
        LinkLayerOKTypeK(
            type=ReturnType.OK_K, create_id=0, logical_qubit_id=5, directionality_flag=1,
            sequence_number=0, purpose_id=0, remote_node_id=1, goodness=0,
            goodness_time=0, bell_state=BellState.PHI_PLUS,
        )
    )
except Exception as exc:  # a loud refusal would be acceptable
    error = exc

array_after = list(ex._app_arrays[0]._get_array(1))
unit_module_after = list(ex._qubit_unit_modules[0])
print("after the delivery:   unit module", unit_module_after, " array @1", array_after, " error:", error)

failures = []
if unit_module_after != unit_module_before:
    failures.append(
        f"the new application 0 never allocated or requested a qubit, yet its unit module is {unit_module_after}"
    )
if array_after != array_before:
    failures.append(f"array @1 of the new application 0 was overwritten: {array_before} -> {array_after}")
if error is None and (failures):
    failures.append("... and nothing was reported (silent)")


# ---------------------------------------------------------------------------------------
# scenario (b): no subroutine is ever interrupted.  The first run posts a receive request in a
# subroutine that completes (it polls the result later); it is stopped before the pair arrives.
SharedMemoryManager.reset_memories()
ex = Controller(name="ctl_b")
ex.network_stack = Stack()
RECV = """
    set R0 1
    array R0 @0
    set R1 0
    store R1 @0[0]
    set R0 10
    array R0 @1
    set R0 1
    set R1 0
    set R2 0
    set R3 1
    recv_epr R0 R1 R2 R3
"""
ex.init_new_application(app_id=0, max_qubits=1)
ex.consume_execute_subroutine(subroutine(0, RECV))
list(ex.stop_application(0))
# second run of application 0: same program, but it waits for its pair
ex.init_new_application(app_id=0, max_qubits=1)
second_run = ex.execute_subroutine(subroutine(0, RECV + "    wait_all @1[0:10]\n"))
next(second_run)
error_b = None
try:
    ex._handle_epr_response(
        LinkLayerOKTypeK(
            type=ReturnType.OK_K, create_id=0, logical_qubit_id=2, directionality_flag=1,
            sequence_number=0, purpose_id=0, remote_node_id=1, goodness=0,
            goodness_time=0, bell_state=BellState.PHI_PLUS,
        )
    )
except Exception as exc:
    error_b = exc
got_pair = ex._qubit_unit_modules[0] == [2]
print("(b) second run: unit module", ex._qubit_unit_modules[0], " error:",
      None if error_b is None else str(error_b).splitlines()[0])
print("(b) request queue:", dict(ex._epr_recv_requests))
if not got_pair:
    failures.append(
        "(b) the pair delivered while only the second application 0 is registered went to the request "
        "of the stopped one (and is lost); the stale request stays at the head of the queue"
    )

if failures:
    print("\nexpected: stopping application 0 releases everything it owned; the second application 0")
    print("          is not affected by what the first one had asked for")
    print("VIOLATION of C13:")
    for f in failures:
        print("  -", f)
    sys.exit(1)
print("ok")
