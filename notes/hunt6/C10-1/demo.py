# ---------------------------------------------------------------------------------------
# Minimal test bench (scratch code, not part of netqasm): the package's own Executor runs
# the subroutines the SDK produces; a scripted link layer hands out the EPR responses; the
# single-qubit gates applied to every virtual qubit are accumulated in a 2x2 matrix.
# ---------------------------------------------------------------------------------------
import itertools
import logging
import sys

import numpy as np

from netqasm.backend.executor import Executor
from netqasm.backend.messages import MessageType, deserialize_host_msg
from netqasm.backend.network_stack import BaseNetworkStack
from netqasm.lang import instr as ins
from netqasm.lang.instr.flavour import VanillaFlavour
from netqasm.lang.parsing import deserialize
from netqasm.qlink_compat import BellState, LinkLayerOKTypeK, LinkLayerOKTypeM, ReturnType
from netqasm.sdk.connection import BaseNetQASMConnection, DebugConnection, DebugNetworkInfo
from netqasm.sdk.epr_socket import EPRSocket
from netqasm.sdk.qubit import Qubit
from netqasm.sdk.shared_memory import SharedMemoryManager

logging.getLogger("NetQASM").setLevel(logging.ERROR)
DebugConnection.node_ids = {"Alice": 0, "Bob": 1}

I2 = np.eye(2, dtype=complex)
BELL = {  # amplitudes on |00>, |01>, |10>, |11>  (first qubit: remote partner, second: local)
    BellState.PHI_PLUS: np.array([1, 0, 0, 1], dtype=complex) / np.sqrt(2),
    BellState.PHI_MINUS: np.array([1, 0, 0, -1], dtype=complex) / np.sqrt(2),
    BellState.PSI_PLUS: np.array([0, 1, 1, 0], dtype=complex) / np.sqrt(2),
    BellState.PSI_MINUS: np.array([0, 1, -1, 0], dtype=complex) / np.sqrt(2),
}


def fidelity_with_phi_plus(bell, local_gates):
    """|<Phi+| (1 x U) |bell>|^2 where U is the product of the gates applied to the local half"""
    state = np.kron(I2, local_gates) @ BELL[bell]
    return float(abs(np.vdot(BELL[BellState.PHI_PLUS], state)) ** 2)


class ScriptedLink(BaseNetworkStack):
    def put(self, request):
        pass

    def setup_epr_socket(self, epr_socket_id, remote_node_id, remote_epr_socket_id, timeout=1.0):
        return None

    def get_purpose_id(self, remote_node_id, epr_socket_id):
        return epr_socket_id


class LinkHasNothingMore(RuntimeError):
    pass


class BenchExecutor(Executor):
    """The package's Executor plus (1) a link that delivers the scripted responses one by one
    whenever the program waits, (2) book-keeping of the gates applied to each virtual qubit."""

    def __init__(self, name, node_id, script):
        super().__init__(name=name)
        self._node_id = node_id
        self.network_stack = ScriptedLink()
        self.script = list(script)  # dicts: type K: bell, duration / type M: bell, outcome
        self.gates = {}  # virtual address -> product of the gates since the qubit arrived
        self.pairs = []  # per delivered pair: dict(bell, virt, pair_index)
        self.log = []  # (mnemonic, virtual address) of every single-qubit gate
        self.names = {}  # virtual address -> mnemonics of the gates since the qubit arrived
        self.measured = []  # (virtual address, pair record or None, gates before the measurement)
        self.recv_epr_count = 0

    @property
    def node_id(self):
        return self._node_id

    # link layer -----------------------------------------------------------------------
    def _wait_to_handle_epr_responses(self):
        return None  # (the base class would recurse for ever)

    def _do_wait(self):
        if self._pending_epr_responses:
            n = len(self._pending_epr_responses)
            self._handle_pending_epr_responses()
            if len(self._pending_epr_responses) < n:
                return None
        if not self.script:
            raise LinkHasNothingMore("the program waits, the link has delivered everything")
        item = self.script.pop(0)
        remote = 1 - self._node_id
        if item["type"] == "K":
            free = next(
                p for p in itertools.count() if p not in self._used_physical_qubit_addresses
            )
            response = LinkLayerOKTypeK(
                type=ReturnType.OK_K,
                create_id=1,
                logical_qubit_id=free,
                directionality_flag=1,  # we are the receiver
                sequence_number=item.get("seq", 0),
                purpose_id=0,
                remote_node_id=remote,
                goodness=item.get("duration", 1),
                goodness_time=0,
                bell_state=item["bell"],
            )
        else:
            response = LinkLayerOKTypeM(
                type=ReturnType.OK_M,
                create_id=1,
                measurement_outcome=item["outcome"],
                measurement_basis=0,
                directionality_flag=1,
                sequence_number=item.get("seq", 0),
                purpose_id=0,
                remote_node_id=remote,
                goodness=1,
                bell_state=item["bell"],
            )
        self._handle_epr_response(response)
        return None

    def _do_recv_epr(self, **kwargs):
        self.recv_epr_count += 1
        return super()._do_recv_epr(**kwargs)

    def _handle_epr_ok_k_response(self, epr_cmd_data, response, pair_index):
        ok = super()._handle_epr_ok_k_response(
            epr_cmd_data=epr_cmd_data, response=response, pair_index=pair_index
        )
        if ok:
            app_id = self._get_app_id(epr_cmd_data.subroutine_id)
            virt = self._get_virtual_address_from_epr_data(epr_cmd_data, pair_index, app_id)
            self.gates[virt] = I2
            self.names[virt] = []
            self.pairs.append(dict(bell=response.bell_state, virt=virt, pair_index=pair_index))
        return ok

    def pair_at(self, virt):
        for rec in reversed(self.pairs):
            if rec["virt"] == virt:
                return rec
        return None

    # quantum operations ---------------------------------------------------------------
    def _do_single_qubit_instr(self, instr, subroutine_id, address):
        if isinstance(instr, ins.core.InitInstruction):
            self.gates[address] = I2
            self.names[address] = []
        else:
            self.gates[address] = instr.to_matrix() @ self.gates.get(address, I2)
            self.names.setdefault(address, []).append(instr.mnemonic)
            self.log.append((instr.mnemonic, address))
        return None

    def _do_single_qubit_rotation(self, instr, subroutine_id, address, angle):
        self.gates[address] = instr.to_matrix() @ self.gates.get(address, I2)
        self.names.setdefault(address, []).append(instr.mnemonic)
        self.log.append((instr.mnemonic, address))
        return None

    def _do_meas(self, subroutine_id, q_address):
        self.measured.append((q_address, self.pair_at(q_address), self.gates.get(q_address, I2)))
        return 0


class BenchConnection(BaseNetQASMConnection):
    """Host side: every message is handled at once by the executor above."""

    def __init__(self, app_name, executor, **kwargs):
        self.executor = executor
        super().__init__(app_name, node_name=executor.name, **kwargs)

    def _get_network_info(self):
        return DebugNetworkInfo

    def _commit_serialized_message(self, raw_msg, block=True, callback=None):
        msg = deserialize_host_msg(raw_msg)
        if msg.TYPE == MessageType.INIT_NEW_APP:
            self.executor.init_new_application(app_id=msg.app_id, max_qubits=msg.max_qubits)
        elif msg.TYPE == MessageType.SUBROUTINE:
            subroutine = deserialize(msg.subroutine, flavour=VanillaFlavour())
            self.executor.consume_execute_subroutine(subroutine)
        elif msg.TYPE == MessageType.STOP_APP:
            list(self.executor.stop_application(app_id=msg.app_id))


def bench(node, script, **conn_kwargs):
    SharedMemoryManager.reset_memories()
    BaseNetQASMConnection._app_ids.clear()
    other = "Bob" if node == "Alice" else "Alice"
    executor = BenchExecutor(node, DebugConnection.node_ids[node], script)
    socket = EPRSocket(other)
    conn = BenchConnection(node, executor, epr_sockets=[socket], **conn_kwargs)
    return executor, socket, conn


def short(matrix):
    """Name a 2x2 unitary up to a global phase"""
    X = np.array([[0, 1], [1, 0]])
    Z = np.array([[1, 0], [0, -1]])
    for name, ref in [("1", I2), ("X", X), ("Z", Z), ("ZX", Z @ X)]:
        if abs(abs(np.trace(ref.conj().T @ matrix)) - 2) < 1e-9:
            return name
    return "other"


# ---------------------------------------------------------------------------------------
# Finding 1: with wait-all corrections (recv_keep / recv_rsp on generic hardware) the Pauli
# correction of every pair is applied to virtual qubit 0, whatever qubit the pair is in.

def scenario_two_pairs(bells, api):
    executor, socket, conn = bench(
        "Alice", [dict(type="K", bell=b, seq=i) for i, b in enumerate(bells)], max_qubits=5
    )
    with conn:
        if api == "recv_keep":
            qubits = socket.recv_keep(number=len(bells))
        elif api == "recv_keep_with_info":
            qubits, _ = socket.recv_keep_with_info(number=len(bells))
        else:
            qubits = socket.recv_rsp(number=len(bells))
        conn.flush()
        result = []
        for i, q in enumerate(qubits):
            rec = executor.pairs[i]
            assert rec["pair_index"] == i and rec["virt"] == q.qubit_id
            result.append(
                (q.qubit_id, rec["bell"].name, short(executor.gates[q.qubit_id]),
                 fidelity_with_phi_plus(rec["bell"], executor.gates[q.qubit_id]))
            )
        for q in qubits:
            q.free()
    return result

def scenario_bystander(bell, sequential_with_post_routine):
    """One pair, but another qubit of the application is alive (it holds virtual ID 0)"""
    executor, socket, conn = bench("Alice", [dict(type="K", bell=bell)], max_qubits=5)
    with conn:
        bystander = Qubit(conn)  # virtual ID 0, stays |0>: no gate should ever touch it
        if sequential_with_post_routine:

            def post_routine(builder, q, pair):
                pass  # keep the qubit

            qubits = socket.recv_keep(number=1, post_routine=post_routine, sequential=True)
        else:
            qubits = socket.recv_keep(number=1)
        conn.flush()
        q = qubits[0]
        rec = executor.pairs[0]
        assert rec["virt"] == q.qubit_id
        out = dict(
            pair_virtual_id=q.qubit_id,
            bell=bell.name,
            gates_on_pair=short(executor.gates[q.qubit_id]),
            fidelity=fidelity_with_phi_plus(bell, executor.gates[q.qubit_id]),
            gates_on_bystander=short(executor.gates[bystander.qubit_id]),
            log=list(executor.log),
        )
        q.free()
        bystander.free()
    return out

def main():
    failures = 0
    print("A. two pairs, all 16 Bell-state tuples, generic hardware (5 qubits)")
    for api in ["recv_keep", "recv_keep_with_info", "recv_rsp"]:
        wrong = []
        for bells in itertools.product(list(BellState), repeat=2):
            result = scenario_two_pairs(bells, api)
            if any(abs(f - 1) > 1e-9 for (_, _, _, f) in result):
                wrong.append(result)
        print(f"  {api}: {len(wrong)} of 16 tuples leave a kept qubit in a state other than Phi+")
        for result in wrong[:3]:
            for virt, bell, gates, fid in result:
                print(f"     virtual qubit {virt}: link delivered {bell:9s} gates applied: {gates:2s}"
                      f"  fidelity with Phi+ = {fid:.3f}   (expected 1.000)")
            print("     --")
        failures += len(wrong)

    print("B. one pair while another qubit of the application is alive")
    for seq in [False, True]:
        for bell in BellState:
            out = scenario_bystander(bell, seq)
            ok = abs(out["fidelity"] - 1) < 1e-9 and out["gates_on_bystander"] == "1"
            form = "recv_keep(post_routine, sequential)" if seq else "recv_keep()"
            print(f"  {form:36s} {out['bell']:9s}: pair is virtual qubit {out['pair_virtual_id']}, "
                  f"gates on it: {out['gates_on_pair']:2s} fidelity {out['fidelity']:.3f}; "
                  f"gates on the bystander (virtual 0): {out['gates_on_bystander']:2s} "
                  f"{'ok' if ok else 'VIOLATION'}  log={out['log']}")
            failures += 0 if ok else 1

    if failures:
        print(f"\nFAIL: {failures} cases in which the correction of a pair was not applied to that "
              f"pair's qubit (expected: every kept qubit in Phi+, no gate on any other qubit)")
        sys.exit(1)
    print("\nOK: every kept qubit is in Phi+ and no other qubit was touched")

if __name__ == "__main__":
    main()
