"""C11 / finding 3: the receiving side reads pair i's Bell state from pair i's response, but
applies the resulting correction (expect_phi_plus=True, the default) to virtual qubit 0
instead of to qubit i.

(a) recv_keep(number=3): the three pairs arrive as Psi+, Phi-, Psi-. Expected corrections:
    X on qubit 0, Z on qubit 1, X and Z on qubit 2. Observed: all four gates on qubit 0;
    qubits 1 and 2 - which the application gets back as "Phi+" halves - are left uncorrected.
(b) the application holds an unrelated qubit (virtual ID 0) and receives 2 pairs one after
    the other (sequential=True with a post routine; the pairs use virtual ID 1): the
    corrections hit the unrelated qubit 0.
"""
# ---------------------------------------------------------------------------------------
# Minimal in-process setup: SDK connection -> QNodeController -> Executor -> network stack.
# Only public extension points of the package are used (the Executor / QNodeController /
# BaseNetworkStack / BaseNetQASMConnection base classes are meant to be subclassed).
# ---------------------------------------------------------------------------------------
import itertools
import logging
import sys

from netqasm.backend.executor import Executor
from netqasm.backend.messages import deserialize_host_msg
from netqasm.backend.network_stack import BaseNetworkStack
from netqasm.backend.qnodeos import QNodeController
from netqasm.qlink_compat import (
    BellState,
    ErrorCode,
    LinkLayerErr,
    LinkLayerOKTypeK,
    LinkLayerOKTypeM,
    ReturnType,
    TimeUnit,
)
from netqasm.sdk.connection import BaseNetQASMConnection
from netqasm.sdk.epr_socket import EPRSocket
from netqasm.sdk.network import NetworkInfo
from netqasm.sdk.shared_memory import SharedMemoryManager

logging.disable(logging.WARNING)
NODE_IDS = {"alice": 0, "bob": 1}


class Info(NetworkInfo):
    @classmethod
    def _get_node_id(cls, node_name):
        return NODE_IDS[node_name]

    @classmethod
    def _get_node_name(cls, node_id):
        return {v: k for k, v in NODE_IDS.items()}[node_id]

    @classmethod
    def get_node_id_for_app(cls, app_name):
        return NODE_IDS[app_name]

    @classmethod
    def get_node_name_for_app(cls, app_name):
        return app_name


class Stack(BaseNetworkStack):
    """Records the requests it is given."""

    def __init__(self):
        self.requests = []

    def put(self, request):
        self.requests.append(request)

    def setup_epr_socket(self, epr_socket_id, remote_node_id, remote_epr_socket_id, timeout=1.0):
        return None

    def get_purpose_id(self, remote_node_id, epr_socket_id):
        return epr_socket_id


class Exec(Executor):
    """Executor of node 0 ("alice"). Whenever a subroutine waits, the next response of the
    link layer (`self.next_response(self)`) is delivered through `_handle_epr_response`."""

    next_response = None  # callable(executor) -> response or None
    gates = None  # list of (mnemonic, virtual qubit ID) of the gates that were executed

    @property
    def node_id(self):
        return 0

    def _wait_to_handle_epr_responses(self):
        return None  # nothing to do now: tried again at the next wait

    def _do_wait(self):
        response = self.next_response(self) if self.next_response else None
        if response is None:
            before = len(self._pending_epr_responses)
            self._handle_pending_epr_responses()
            if len(self._pending_epr_responses) == before:
                raise TimeoutError("the subroutine waits, but the link layer has nothing more to deliver")
            return None
        self._handle_epr_response(response)
        return None

    def _do_single_qubit_instr(self, instr, subroutine_id, address):
        if self.gates is not None:
            self.gates.append((instr.mnemonic, address))

    def _do_single_qubit_rotation(self, instr, subroutine_id, address, angle):
        if self.gates is not None:
            self.gates.append((instr.mnemonic, address))


class Ctrl(QNodeController):
    @classmethod
    def _get_executor_class(cls, flavour=None):
        return Exec

    def stop(self):
        pass

    def _mark_message_finished(self, msg_id, msg):
        pass


class Conn(BaseNetQASMConnection):
    def __init__(self, *args, ctrl=None, **kwargs):
        self._ctrl = ctrl
        self._msg_ids = itertools.count()
        super().__init__(*args, **kwargs)

    def _commit_serialized_message(self, raw_msg, block=True, callback=None):
        msg = deserialize_host_msg(raw_msg)
        list(self._ctrl.handle_netqasm_message(next(self._msg_ids), msg))
        if callback is not None:
            callback()

    def _get_network_info(self):
        return Info


def new_node(**conn_kwargs):
    SharedMemoryManager.reset_memories()
    ctrl = Ctrl(name="alice")
    stack = Stack()
    ctrl.network_stack = stack
    sock = EPRSocket("bob")
    conn = Conn("alice", ctrl=ctrl, epr_sockets=[sock], **conn_kwargs)
    return conn, sock, ctrl._executor, stack


# ---------------------------------------------------------------------------------------
from netqasm.sdk.qubit import Qubit

CORRECTION = {
    BellState.PHI_PLUS: [],
    BellState.PHI_MINUS: ["rot_z"],
    BellState.PSI_PLUS: ["rot_x"],
    BellState.PSI_MINUS: ["rot_x", "rot_z"],
}


def ok_k(pair, bell):
    return LinkLayerOKTypeK(
        type=ReturnType.OK_K, create_id=10 + pair, logical_qubit_id=20 + pair, directionality_flag=1,
        sequence_number=30 + pair, purpose_id=0, remote_node_id=1, goodness=40 + pair,
        goodness_time=50 + pair, bell_state=bell,
    )


failures = 0

# ---- (a) ------------------------------------------------------------------------------
bells = [BellState.PSI_PLUS, BellState.PHI_MINUS, BellState.PSI_MINUS]
conn, sock, ex, stack = new_node()
ex.gates = []
script = [ok_k(i, b) for i, b in enumerate(bells)]
ex.next_response = lambda executor: script.pop(0) if script else None
with conn:
    qubits, infos = sock.recv_keep_with_info(number=3)
    conn.flush()
    ids = [q.qubit_id for q in qubits]
    read_bells = [info.bell_state for info in infos]
    got = [g for g in ex.gates if g[0].startswith("rot")]
    for q in qubits:
        q.measure()
expected = [(m, ids[i]) for i, b in enumerate(bells) for m in CORRECTION[b]]
print("(a) recv_keep(number=3); qubit handles have virtual IDs", ids)
print("    Bell states read by the handles:", [b.name for b in read_bells])
print("    corrections expected (gate, virtual qubit):", expected)
print("    corrections executed                      :", got)
if got != expected:
    failures += 1

# ---- (b) ------------------------------------------------------------------------------
conn, sock, ex, stack = new_node()
ex.gates = []
script = [ok_k(i, BellState.PSI_MINUS) for i in range(2)]
ex.next_response = lambda executor: script.pop(0) if script else None
with conn:
    mine = Qubit(conn)  # unrelated qubit of the application, virtual ID 0
    outcomes = conn.new_array(2)

    def post(_, q, pair):
        q.measure(outcomes.get_future_index(pair))

    qubits = sock.recv_keep(number=2, sequential=True, post_routine=post)
    conn.flush()
    mine_id, epr_ids = mine.qubit_id, [q.qubit_id for q in qubits]
    got = [g for g in ex.gates if g[0].startswith("rot")]
    mine.measure()
expected = [(m, epr_ids[i]) for i in range(2) for m in CORRECTION[BellState.PSI_MINUS]]
print(f"(b) unrelated qubit has virtual ID {mine_id}; the sequentially received pairs use virtual ID {epr_ids}")
print("    corrections expected (gate, virtual qubit):", expected)
print("    corrections executed                      :", got)
if got != expected:
    failures += 1

if failures:
    print(f"VIOLATION in {failures} of 2 scenarios: pair i's Bell-state correction is not applied to qubit i")
    sys.exit(1)
print("OK")
