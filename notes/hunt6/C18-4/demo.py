"""C18 demo 4: after reset_socket_hub() the release of a socket of the PREVIOUS run
disconnects the socket of the CURRENT run that happens to carry the same mark.

  run 1:  A1 = ThreadSocket("A","B"), B1 = ThreadSocket("B","A").  The caller keeps the two
          objects (a result list, a traceback, a reference cycle that the garbage collector
          frees some time later ...).
  reset_socket_hub()        - what a runtime does between two application runs
  run 2:  A2, B2 are opened the same way.  A2.send("one"), B2 receives it.
  the objects of run 1 are released now.
  A2.send("two"); B2.recv()

Expected: "two" is delivered; A2 and B2 were never closed by anybody.
Observed: releasing A1/B1 removes A2/B2 from the hub: A2.connected is False and
          A2.send("two") raises ConnectionError.
"""
import gc
import sys
import threading
import time

from netqasm.sdk.classical_communication.thread_socket import (
    ThreadSocket,
    reset_socket_hub,
)


def open_pair():
    """A registers first, B 0.3 s later (the same, deterministic order in both runs)."""
    box = {}

    def run(me, other, delay):
        time.sleep(delay)
        box[me] = ThreadSocket(me, other, timeout=5)

    threads = [
        threading.Thread(target=run, args=("A", "B", 0.0)),
        threading.Thread(target=run, args=("B", "A", 0.3)),
    ]
    [t.start() for t in threads]
    [t.join() for t in threads]
    return box.pop("A"), box.pop("B")


reset_socket_hub()
a1, b1 = open_pair()            # run 1
a1.send("old")
assert b1.recv(block=False) == "old"
kept_by_caller = [a1, b1]
del a1, b1

reset_socket_hub()              # between two runs
a2, b2 = open_pair()            # run 2
a2.send("one")
assert b2.recv(block=False) == "one"
print("run 2 before the old objects are released: A2.connected =", a2.connected)

kept_by_caller.clear()          # the sockets of run 1 are released only now
gc.collect()

print("run 2 after  the old objects are released: A2.connected =", a2.connected,
      " B2.connected =", b2.connected)
try:
    a2.send("two")
    got = b2.recv(block=False)
    outcome = f"delivered {got!r}"
except Exception as exc:  # noqa
    outcome = f"{type(exc).__name__}: {exc}"
print("A2.send('two') / B2.recv():", outcome)
print("expected: delivered 'two' (nobody closed A2 or B2)")
if outcome != "delivered 'two'":
    print("VIOLATION: a live connection was torn down by the finalizer of another socket object")
    sys.exit(1)
print("ok")
