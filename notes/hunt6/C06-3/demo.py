"""C06 / finding 3: with the hardware setting on, the NV transpiler normalises only angles that are
written out; a templated angle is sent as it is filled in, or cannot be pre-compiled at all.

`set_is_using_hardware(True)` makes the NV transpiler rewrite every rotation n * pi / 2^d into units of
pi / 16 with a numerator in [0, 32) (`get_hardware_num_denom`). That happens at compile time; a Template
numerator is passed through untouched (and refused when d != 4), and `Subroutine.instantiate()` later
fills in the raw value. So the same operations reach the controller differently depending on whether
the value was written out or filled in.
"""
import sys

from netqasm.backend.messages import deserialize_host_msg
from netqasm.lang.instr.flavour import NVFlavour
from netqasm.lang.operand import Template
from netqasm.lang.parsing import deserialize
from netqasm.runtime.settings import set_is_using_hardware
from netqasm.sdk.connection import BaseNetQASMConnection, DebugConnection
from netqasm.sdk.qubit import Qubit
from netqasm.sdk.transpile import NVSubroutineTranspiler


def new_connection():
    BaseNetQASMConnection._app_ids.clear()
    DebugConnection.node_ids = {"alice": 0}
    return DebugConnection("alice", compiler=NVSubroutineTranspiler)


def received(conn):
    """The rotations the controller received and the number of subroutines."""
    rots, count = [], 0
    for raw in conn.storage:
        msg = deserialize_host_msg(raw)
        if hasattr(msg, "subroutine"):
            count += 1
            instrs = deserialize(msg.subroutine, flavour=NVFlavour()).instructions
            rots += [str(i) for i in instrs if i.mnemonic.startswith("rot_")]
    return rots, count


def run(flow, axis, n, d):
    conn = new_connection()
    q = Qubit(conn)
    rot = getattr(q, "rot_" + axis)
    try:
        if flow == "flush":
            rot(n=n, d=d)
            m = q.measure()
            conn.flush()
        else:
            rot(n=Template("angle"), d=d)
            m = q.measure()
            subroutine = conn.compile()
            subroutine.instantiate(conn.app_id, {"angle": n})
            conn.commit_subroutine(subroutine)
        conn.flush()
    except Exception as exc:
        return received(conn), f"{type(exc).__name__}: {exc}"
    return received(conn), None


failed = False
for hardware in (False, True):
    set_is_using_hardware(hardware)
    print(f"=== NV transpiler, hardware setting {'on' if hardware else 'off'}")
    for axis, n, d in [("X", 5, 4), ("X", 40, 4), ("Z", 255, 4), ("Y", 3, 2), ("X", 1, 0)]:
        expected = run("flush", axis, n, d)
        got = run("compile", axis, n, d)
        same = expected == got
        print(f"  rot_{axis}(n={n}, d={d}): flush -> {expected[0][0]} {expected[1] or ''}")
        print(f"  {'':>{len(str(n)) + len(str(d)) + 14}}  pre-compiled -> {got[0][0]} {got[1] or ''}"
              f"   [{'same' if same else 'DIFFERENT'}]")
        failed |= not same
set_is_using_hardware(False)

if failed:
    print("\nVIOLATION: with the hardware setting on, a filled-in angle is not the angle the controller gets "
          "when the same value is written out (or the templated program is refused).")
    sys.exit(1)
print("OK")
