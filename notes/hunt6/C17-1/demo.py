"""C17: the printed text of a subroutine that was transpiled with debug=True is not
valid NetQASM source, and does not describe the program that is encoded.

NVSubroutineTranspiler(sub, debug=True) puts DebugInstruction objects in
Subroutine.instructions. They print as "# begin SWAP" / "# end SWAP". In NetQASM source
'#' starts a *preamble* line (comments are '//'), so the printed listing is refused by
the parser. The branch targets that are printed also count these comment lines, while the
binary encoding (Subroutine._encoded_instructions) leaves them out and renumbers.
"""
import sys

from netqasm.lang.instr import DebugInstruction
from netqasm.lang.instr.flavour import NVFlavour
from netqasm.lang.parsing.binary import deserialize
from netqasm.lang.parsing.text import parse_text_subroutine
from netqasm.sdk.transpile import NVSubroutineTranspiler

SRC = """
# NETQASM 0.0
# APPID 0
set Q0 0
set Q1 1
set Q2 2
qalloc Q0
qalloc Q1
qalloc Q2
init Q0
init Q1
init Q2
set R0 0
set R1 1
cnot Q1 Q2
LOOP:
add R0 R0 R1
bez R0 LOOP
ret_reg R0
"""

flavour = NVFlavour()
sub = NVSubroutineTranspiler(parse_text_subroutine(SRC), debug=True).transpile()
assert any(isinstance(i, DebugInstruction) for i in sub.instructions)

binary = bytes(sub)  # what is sent to the quantum node controller
text = "\n".join(str(instr) for instr in sub.instructions)  # what is printed
print("---- printed text of the transpiled subroutine (excerpt) ----")
for line in text.split("\n")[10:14] + ["..."] + text.split("\n")[-4:]:
    print("   ", line)

failures = []

# 1. The printed text has to be valid source for the NV flavour.
print("\nexpected: parse_text_subroutine(printed text, flavour=NVFlavour()) succeeds")
try:
    parsed = parse_text_subroutine(text, flavour=flavour)
    print("happened: parsed", len(parsed.instructions), "instructions")
except Exception as err:  # noqa
    parsed = None
    print(f"happened: {type(err).__name__}: {err}")
    failures.append("printed text is refused by the parser")

# Every single printed line has to be valid source as well.
for instr in sub.instructions:
    if isinstance(instr, DebugInstruction):
        try:
            parse_text_subroutine(str(instr), flavour=flavour)
        except Exception as err:  # noqa
            print(f"          line {str(instr)!r} alone: {type(err).__name__}: {err}")
            failures.append("a printed line is refused by the parser")
            break

# 2. text -> binary has to give the binary of the subroutine that was printed.
if parsed is None:
    # What a user does who knows that these lines are comments: write them as comments.
    as_comments = "\n".join(
        ("// " + line[2:]) if line.startswith("# ") else line for line in text.split("\n")
    )
    parsed = parse_text_subroutine(as_comments, flavour=flavour)
    print("\n(with the '# ...' lines rewritten as '// ...' comments the text is accepted)")
parsed.app_id = sub.app_id
print("expected: text -> binary equals the binary of the printed subroutine")
if bytes(parsed) == binary:
    print("happened: equal")
else:
    printed_branch = [str(i) for i in parsed.instructions if i.mnemonic == "bez"]
    encoded_branch = [
        str(i) for i in deserialize(binary, flavour=flavour).instructions if i.mnemonic == "bez"
    ]
    print(f"happened: different; branch in the printed text: {printed_branch}, "
          f"branch in the binary: {encoded_branch}")
    failures.append("text -> binary differs from the binary of the printed subroutine")

if failures:
    print("\nVIOLATION:", "; ".join(failures))
    sys.exit(1)
print("\nok")
