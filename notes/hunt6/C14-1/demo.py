"""C14 finding 1: whether a subroutine compiles depends on operations that are already
finished.  The assembler (`_replace_constants`) only takes a scratch register that is
mentioned NOWHERE in the whole subroutine, so registers of loops that were closed long
ago still count against an operation that is built at nesting depth 0.
"""
import sys
from contextlib import ExitStack

from netqasm.logging.glob import set_log_level
from netqasm.sdk.connection import DebugConnection
from netqasm.sdk.epr_socket import EPRSocket
from netqasm.sdk.qubit import Qubit

set_log_level("ERROR")
DebugConnection.node_ids = {"Alice": 0, "Bob": 1}


def new_conn():
    sock = EPRSocket("Bob")
    return DebugConnection("Alice", epr_sockets=[sock]), sock


def closed_nest(conn, depth):
    """One finished operation: `depth` nested counted loops around an X gate."""
    q = Qubit(conn)
    with ExitStack() as stack:
        for _ in range(depth):
            stack.enter_context(conn.loop(2))
        q.X()
    q.measure()


def closed_flat_loops(conn, count):
    """`count` finished depth-1 loops, each with its own explicit loop register."""
    q = Qubit(conn)
    for k in range(count):
        with conn.loop(2, loop_register=f"R{k}"):
            q.X()
    q.measure()


def epr(conn, sock):
    """An operation at nesting depth 0 (nothing is open any more)."""
    sock.create_keep()[0].measure()


def outcome(fn):
    try:
        fn()
        return "compiles"
    except Exception as err:  # noqa
        return f"{type(err).__name__}: {err}"


results = {}
for name, prior in [
    ("12 nested loops (closed)", lambda c: closed_nest(c, 12)),
    ("12 flat loops with explicit registers R0..R11 (closed)", lambda c: closed_flat_loops(c, 12)),
]:
    def alone_prior():
        conn, sock = new_conn()
        prior(conn)
        conn.flush()

    def alone_epr():
        conn, sock = new_conn()
        epr(conn, sock)
        conn.flush()

    def with_flush_between():
        conn, sock = new_conn()
        prior(conn)
        conn.flush()
        epr(conn, sock)
        conn.flush()

    def without_flush_between():
        conn, sock = new_conn()
        prior(conn)
        assert not conn.builder._mem_mgr._active_registers  # nothing is open
        epr(conn, sock)
        conn.flush()

    results[name] = [
        ("prior operation alone, flush", outcome(alone_prior)),
        ("create_keep alone, flush", outcome(alone_epr)),
        ("prior; flush; create_keep; flush", outcome(with_flush_between)),
        ("prior; create_keep; flush", outcome(without_flush_between)),
    ]

bad = False
for name, rows in results.items():
    print(f"--- prior operation: {name}")
    for what, res in rows:
        print(f"    {what:38s} -> {res}")
    if rows[-1][1] != "compiles":
        bad = True

print()
print("expected: every line 'compiles' - when create_keep is built no operation is open, so")
print("          the registers it needs cannot depend on the loops that were finished before it")
if bad:
    print("happened: the sequence without a flush in between does not compile (see above)")
    sys.exit(1)
print("happened: all sequences compile")
