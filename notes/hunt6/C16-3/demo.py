"""C16 - operands the format cannot represent must be rejected, never silently altered.

Two places convert what they are about to range-check with `int(...)`.  `int()` also
truncates every non-integer (float, numpy float, Fraction, Decimal, even a str), so a value
the format cannot hold - an app id above 65535 such as 65535.9, a negative immediate such as
-0.5 - passes the check after having been rounded towards zero, and the bytes decode to a
different, valid-looking program.  ctypes itself refuses all of these values (TypeError),
and so did both places before the `int()` was added.

 (a) Subroutine.cstructs             - app id and NetQASM version of the header
 (b) get_hardware_num_denom          - rotation numerator / denominator, only with
                                       set_is_using_hardware(True) + the NV transpiler
"""
import sys

from netqasm.lang.encoding import RegisterName
from netqasm.lang.instr import core, vanilla
from netqasm.lang.instr.flavour import NVFlavour
from netqasm.lang.operand import Immediate, Register
from netqasm.lang.parsing import deserialize
from netqasm.lang.parsing.text import parse_text_subroutine
from netqasm.lang.subroutine import Subroutine
from netqasm.runtime.settings import set_is_using_hardware
from netqasm.sdk.transpile import NVSubroutineTranspiler

failures = []


def check(description, encode, describe):
    try:
        raw = encode()
    except (OverflowError, TypeError, ValueError) as err:
        print(f"ok      {description}: rejected with {type(err).__name__}")
        return
    print(f"WRONG   {description}: no error, bytes decode to {describe(raw)}")
    failures.append(description)


# (a) header ---------------------------------------------------------------------------------
def header(raw):
    sub = deserialize(raw)
    return f"app id {sub.app_id}, version {sub.netqasm_version}"


check(
    "Subroutine(app_id=65536.0)                       [reference]",
    lambda: bytes(Subroutine(instructions=[], app_id=65536.0)),
    header,
)
check(
    "Subroutine(app_id=65535.9)                       [app id above 65535]",
    lambda: bytes(Subroutine(instructions=[], app_id=65535.9)),
    header,
)
check(
    "Subroutine(app_id=-0.5)                          [negative app id]",
    lambda: bytes(Subroutine(instructions=[], app_id=-0.5)),
    header,
)


def instantiated():
    sub = parse_text_subroutine("# NETQASM 0.10\n# APPID 0\nset R0 1\n")
    sub.instantiate(app_id=65535.9)
    return bytes(sub)


check("text subroutine, instantiate(app_id=65535.9)", instantiated, header)
check(
    "Subroutine(app_id=1, netqasm_version=(0, 255.9)) [version part above 255]",
    lambda: bytes(Subroutine(instructions=[], app_id=1, netqasm_version=(0, 255.9))),
    header,
)


# (b) rotation numerator in hardware mode -----------------------------------------------------
def rotation(numerator, hardware):
    def encode():
        q0 = Register(RegisterName.Q, 0)
        sub = Subroutine(
            instructions=[
                core.SetInstruction(reg=q0, imm=Immediate(0)),
                vanilla.RotXInstruction(
                    reg=q0, imm0=Immediate(numerator), imm1=Immediate(4)
                ),
            ],
            app_id=0,
        )
        set_is_using_hardware(hardware)
        try:
            sub = NVSubroutineTranspiler(sub).transpile()
        finally:
            set_is_using_hardware(False)
        return bytes(sub)

    return encode


def program(raw):
    return [str(i) for i in deserialize(raw, flavour=NVFlavour()).instructions]


check("rot_x Q0 -0.5 4, NV transpiler, simulation   [reference]", rotation(-0.5, False), program)
check("rot_x Q0 -0.5 4, NV transpiler, hardware     [negative immediate]", rotation(-0.5, True), program)
check("rot_x Q0 255.9 4, NV transpiler, hardware    [immediate above 255]", rotation(255.9, True), program)

print()
if failures:
    print(
        "expected: all of these are refused (like the references); "
        f"{len(failures)} were encoded with a silently altered operand"
    )
    sys.exit(1)
print("all operands the format cannot hold were rejected")
