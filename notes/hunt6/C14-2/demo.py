"""C14 finding 2: a register the builder keeps reserved (RegFuture from `Builder.new_register`, the
way examples/example.py makes a counter) is silently overwritten by an assembler temporary of a later
subroutine, because the assembler only looks at the registers mentioned in the subroutine it assembles.
"""
import sys

from netqasm.backend.executor import Executor
from netqasm.logging.glob import set_log_level
from netqasm.sdk.connection import DebugConnection
from netqasm.sdk.shared_memory import SharedMemoryManager

set_log_level("ERROR")

SharedMemoryManager.reset_memories()
executor = Executor()
executor.init_new_application(app_id=0, max_qubits=5)


def run(subroutine):
    list(executor.execute_subroutine(subroutine=subroutine))


conn = DebugConnection("Alice")
builder = conn.builder

# subroutine 1: a counter that lives in a register, initial value 5
counter = builder.new_register(init_value=5)
run(conn.compile())
reg = counter.reg
v1 = executor._get_register(0, reg)
print(f"after subroutine 1: {reg} = {v1}, builder has {reg} reserved: "
      f"{builder._mem_mgr.is_register_active(reg)}")

# subroutine 2: an unrelated, finished operation (Future.add on an array entry)
arr = conn.new_array(1, [7])
arr.get_future_index(0).add(3)
sub2 = conn.compile()
writers = [str(i) for i in sub2.instructions
           if i.mnemonic in ("set", "load", "add") and str(i.operands[0]) == str(reg)]
run(sub2)
v2 = executor._get_register(0, reg)
print(f"after subroutine 2 (does not use the counter): {reg} = {v2}; "
      f"instructions of subroutine 2 that write {reg}: {writers}")

# subroutine 3: counter += 1
counter.add(1)
run(conn.compile())
v3 = executor._get_register(0, reg)
print(f"after subroutine 3 (counter.add(1)): {reg} = {v3}")

print()
print("expected: counter == 6 (5 + 1); the temporaries of the add in subroutine 2 leave the reserved")
print("          register alone (the builder itself does: it loads the array entry into another register)")
print(f"happened: counter == {v3}")
sys.exit(0 if (v2 == 5 and v3 == 6) else 1)
