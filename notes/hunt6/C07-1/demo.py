"""C07 finding 1: a two-qubit gate on a qubit whose virtual id is only known at run time
(`load Q0 @ids[R0]` - every FutureQubit of a sequential / post-routine / context EPR request)
is decomposed for whatever id an EARLIER `set Q0 ...` left in the transpiler's bookkeeping.

Program (SDK, NV compiler, nothing hand-written):
    post_routine(q):   b.H();  q.cnot(a)       # q = electron (id 0), a = carbon 1, b = carbon 2
Expected: CNOT electron->carbon-1, i.e. the 3-instruction electron/carbon circuit.
Observed: the carbon/carbon circuit (Q0 is believed to still hold b's id 2), which borrows the
electron through a scratch register and therefore emits `crot_x Q2 Q0` with Q2 = Q0 = 0 at run time.
"""
import sys

import numpy as np

from netqasm.lang.instr import core
from netqasm.lang.instr.base import DebugInstruction
from netqasm.lang.operand import Immediate, Register
from netqasm.sdk import EPRSocket, Qubit
from netqasm.sdk.build_types import NVHardwareConfig
from netqasm.sdk.connection import DebugConnection
from netqasm.sdk.transpile import NVSubroutineTranspiler

N = 3  # virtual qubits 0 (electron), 1, 2 (carbons)


def on1(U, q):
    M = np.array([[1]])
    for k in range(N):
        M = np.kron(M, U if k == q else np.eye(2))
    return M


def on2(U4, a, b):
    M = np.zeros((2**N, 2**N), dtype=complex)
    for col in range(2**N):
        bits = [(col >> (N - 1 - k)) & 1 for k in range(N)]
        src = bits[a] * 2 + bits[b]
        for dst in range(4):
            if U4[dst, src] == 0:
                continue
            nb = list(bits)
            nb[a], nb[b] = dst >> 1, dst & 1
            row = sum(v << (N - 1 - k) for k, v in enumerate(nb))
            M[row, col] += U4[dst, src]
    return M


def execute(instrs):
    """Run the classical part of a subroutine for real (registers, arrays, branches) and
    multiply up the published matrices of the gates on the qubits the registers hold."""
    regs, arrays, pc, steps = {}, {}, 0, 0
    U = np.eye(2**N, dtype=complex)

    def val(x):
        return regs[x] if isinstance(x, Register) else (x.value if isinstance(x, Immediate) else x)

    while pc < len(instrs):
        steps += 1
        assert steps < 10000
        ins = instrs[pc]
        pc += 1
        if isinstance(ins, DebugInstruction):
            continue
        if isinstance(ins, core.SetInstruction):
            regs[ins.reg] = ins.imm.value
        elif isinstance(ins, core.ArrayInstruction):
            arrays[ins.address.address] = [None] * regs[ins.size]
        elif isinstance(ins, core.StoreInstruction):
            arrays[ins.entry.address.address][regs[ins.entry.index]] = regs[ins.reg]
        elif isinstance(ins, core.LoadInstruction):
            regs[ins.reg] = arrays[ins.entry.address.address][regs[ins.entry.index]]
        elif isinstance(ins, core.AddInstruction):
            regs[ins.regout] = val(ins.regin0) + val(ins.regin1)
        elif isinstance(ins, core.SubInstruction):
            regs[ins.regout] = val(ins.regin0) - val(ins.regin1)
        elif isinstance(ins, core.JmpInstruction):
            pc = ins.line.value
        elif isinstance(ins, core.BranchUnaryInstruction):
            if ins.check_condition(regs[ins.reg]):
                pc = ins.line.value
        elif isinstance(ins, core.BranchBinaryInstruction):
            if ins.check_condition(regs[ins.reg0], regs[ins.reg1]):
                pc = ins.line.value
        elif isinstance(ins, (core.SingleQubitInstruction, core.RotationInstruction)):
            U = on1(ins.to_matrix(), regs[ins.reg]) @ U
        elif isinstance(ins, (core.TwoQubitInstruction, core.ControlledRotationInstruction)):
            a, b = regs[ins.reg0], regs[ins.reg1]
            if a == b:
                raise RuntimeError(
                    f"instruction {pc - 1} `{ins}`: control and target are both virtual qubit {a}"
                )
            U = on2(ins.to_matrix(), a, b) @ U
        # qalloc / init / qfree / create_epr / wait_all / ret_*: no gate
    return U


def same_up_to_phase(A, B):
    i = np.unravel_index(np.argmax(abs(A)), A.shape)
    return abs(B[i]) > 1e-9 and np.allclose(A, (A[i] / B[i]) * B, atol=1e-8)


def build(compiler):
    DebugConnection.node_ids = {"Alice": 0, "Bob": 1}
    sock = EPRSocket("Bob")
    with DebugConnection(
        "Alice", epr_sockets=[sock], compiler=compiler, hardware_config=NVHardwareConfig(3)
    ) as conn:
        e = Qubit(conn)  # id 0
        a = Qubit(conn)  # id 1 (carbon)
        b = Qubit(conn)  # id 2 (carbon)
        e.free()  # the electron is free for the EPR pair

        def post(_, q, pair):
            b.H()
            q.cnot(a)  # q: id loaded at run time (= 0, the electron)

        sock.create_keep(number=1, post_routine=post, sequential=True)
        return conn.compile()


vanilla_sub = build(None)
try:
    nv_sub = build(NVSubroutineTranspiler)
except Exception as exc:  # a loud refusal at compile time is not a violation
    print(f"ok: the NV transpiler refuses the gate instead of guessing: {exc!r}")
    sys.exit(0)

expected = execute(vanilla_sub.instructions)
print("vanilla program: H on carbon 2, CNOT electron(0) -> carbon 1")
try:
    got = execute(nv_sub.instructions)
except RuntimeError as exc:
    print("EXPECTED: the NV program implements the same unitary as the vanilla program")
    print(f"OBSERVED: the NV program cannot be executed: {exc}")
    print("          (the CNOT was decomposed as carbon->carbon because the transpiler believes")
    print("           Q0 still holds 2, the id an earlier `set Q0 2` put there, although")
    print("           `load Q0 @1[R0]` has replaced it by 0)")
    sys.exit(1)
if not same_up_to_phase(expected, got):
    print("EXPECTED: same unitary up to global phase; OBSERVED: a different unitary")
    sys.exit(1)
print("ok: NV program implements the vanilla unitary")
