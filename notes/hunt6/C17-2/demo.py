"""C17 for a flavour that is not one of the three shipped ones.

`Flavour` is the public extension point for hardware-specific instruction sets
(netqasm/lang/instr/flavour.py: "Typically, a flavour is used for each specific target
hardware"), and `parse_text_subroutine(..., flavour=...)` / `deserialize(..., flavour=...)`
take any Flavour. The binary side resolves instructions through the flavour
(`flavour.get_instr_by_id`). The text side first maps the mnemonic through the closed
enum `GenericInstr` (`string_to_instruction`) and only then asks the flavour, so the text
printed for an instruction that only this flavour knows is refused, whatever the flavour.
"""
import sys
from dataclasses import dataclass

import numpy as np

from netqasm.lang.encoding import RegisterName
from netqasm.lang.instr import core
from netqasm.lang.instr.flavour import Flavour
from netqasm.lang.operand import Register
from netqasm.lang.parsing.binary import deserialize
from netqasm.lang.parsing.text import parse_text_subroutine
from netqasm.lang.subroutine import Subroutine


@dataclass
class GateSqrtXInstruction(core.SingleQubitInstruction):
    id: int = 50
    mnemonic: str = "sqrt_x"

    def to_matrix(self) -> np.ndarray:
        return np.array([[1 + 1j, 1 - 1j], [1 - 1j, 1 + 1j]]) / 2


class MyHardwareFlavour(Flavour):
    @property
    def instrs(self):
        return [GateSqrtXInstruction]

    def __init__(self):
        super().__init__(self.instrs)


flavour = MyHardwareFlavour()
instr = GateSqrtXInstruction(reg=Register(RegisterName.Q, 3))

# The binary form works with this flavour ...
sub = Subroutine(instructions=[instr], app_id=0)
back = deserialize(bytes(sub), flavour=flavour).instructions
assert back == [instr], back
print("binary -> instruction with this flavour:", back[0], "(equal to the original)")

# ... and so should the printed text.
text = str(instr)
print("printed text:", repr(text))
print("expected: parse_text_subroutine(text, flavour=MyHardwareFlavour()) == [original instruction]")
try:
    parsed = parse_text_subroutine(text, flavour=flavour).instructions
except Exception as err:  # noqa
    print(f"happened: {type(err).__name__}: {err}")
    sys.exit(1)
if parsed != [instr]:
    print("happened:", parsed)
    sys.exit(1)
print("happened: equal\nok")
