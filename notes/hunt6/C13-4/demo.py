"""C13 finding 4: a negative virtual qubit address is accepted and aliases a valid one.

qalloc / qfree / gates check `address >= len(unit_module)` only; a negative address
(-1 .. -n) indexes the unit module from its end, so a unit module of n qubits answers to
2n virtual addresses and the virtual qubits -1 and n-1 of one application are the same
physical qubit.  (_has_virtual_address, used for keep-responses, treats negative addresses
as "not allocated", so the two views even disagree.)
"""
import sys

from netqasm.backend.executor import Executor
from netqasm.lang.parsing import parse_text_subroutine
from netqasm.sdk.shared_memory import SharedMemoryManager


def subroutine(app_id, text):
    return parse_text_subroutine(f"# NETQASM 1.0\n# APPID {app_id}\n" + text)


SharedMemoryManager.reset_memories()
ex = Executor(name="ctl")
ex.init_new_application(app_id=0, max_qubits=2)

failures = []

# reference: an address beyond the unit module is refused
try:
    ex.consume_execute_subroutine(subroutine(0, "set Q0 2\nqalloc Q0\n"))
    print("qalloc 2 on a 2-qubit unit module accepted?!")
except ValueError as exc:
    print("qalloc  2: refused (fine):", str(exc).splitlines()[0])

# a negative address (the binary format carries it: immediates are signed)
sub = subroutine(0, "set Q0 -1\nqalloc Q0\n")
assert bytes(sub)  # can be sent to a controller as it is
try:
    ex.consume_execute_subroutine(sub)
    print("qalloc -1: accepted; unit module", ex._qubit_unit_modules[0])
    failures.append("qalloc of virtual address -1 was accepted on a unit module with addresses 0..1")
except Exception as exc:
    print("qalloc -1: refused (fine):", str(exc).splitlines()[0])

if failures:
    # the "two" virtual qubits -1 and 1 are one physical qubit
    p_neg = ex._get_position(app_id=0, address=-1)
    p_pos = ex._get_position(app_id=0, address=1)
    print(f"physical qubit of virtual -1: {p_neg}; of virtual 1: {p_pos}")
    if p_neg == p_pos:
        failures.append(f"virtual qubits -1 and 1 of application 0 map to the same physical qubit {p_pos}")
    try:
        ex.consume_execute_subroutine(subroutine(0, "set Q0 1\nqalloc Q0\n"))
    except RuntimeError as exc:
        print("qalloc  1:", str(exc).splitlines()[0])
        failures.append("virtual qubit 1, never allocated by the program, is reported as already allocated")
    print("_has_virtual_address(-1) =", ex._has_virtual_address(0, -1),
          " _has_virtual_address(1) =", ex._has_virtual_address(0, 1))
    # freeing "1" frees the qubit the program allocated as "-1"
    ex.consume_execute_subroutine(subroutine(0, "set Q0 1\nqfree Q0\n"))
    print("after qfree 1: unit module", ex._qubit_unit_modules[0])

if failures:
    print("\nexpected: qalloc -1 is refused like qalloc 2 (the unit module has the addresses 0 and 1)")
    print("VIOLATION of C13:")
    for f in failures:
        print("  -", f)
    sys.exit(1)
print("ok")
