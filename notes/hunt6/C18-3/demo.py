"""C18 demo 3: callback delivery on a broadcast channel loses every message.

Two endpoints.  B opens a ThreadBroadcastChannel with use_callbacks=True and
overrides BroadcastChannel.recv_callback(remote_app_name, msg), the documented hook
("This method gets called when a message is received ... if use_callbacks is True").
A broadcasts "m0", "m1", "m2".

Expected: B.recv_callback is called with ("A","m0"), ("A","m1"), ("A","m2") in this order
          (or, failing that, the messages are at least retrievable with B.recv()).
Observed: the callback is never called and recv() finds nothing: the three messages
          are gone, A's send() returned normally.
"""
import sys
import threading

from netqasm.sdk.classical_communication.thread_socket import (
    ThreadBroadcastChannel,
    reset_socket_hub,
)

reset_socket_hub()
delivered = []


class CallbackChannel(ThreadBroadcastChannel):
    def recv_callback(self, remote_app_name, msg):
        delivered.append((remote_app_name, msg))


box = {}


def open_channel(name, remotes, cls, **kwargs):
    box[name] = cls(name, remotes, timeout=5, **kwargs)


threads = [
    threading.Thread(target=open_channel, args=("A", ["B"], ThreadBroadcastChannel)),
    threading.Thread(
        target=open_channel, args=("B", ["A"], CallbackChannel), kwargs={"use_callbacks": True}
    ),
]
[t.start() for t in threads]
[t.join() for t in threads]

sent = ["m0", "m1", "m2"]
for m in sent:
    box["A"].send(m)

polled = []
while True:
    try:
        polled.append(box["B"].recv(block=False))
    except RuntimeError:
        break

expected = [("A", m) for m in sent]
print("sent by A                  :", sent)
print("B.recv_callback was called :", delivered)
print("B.recv(block=False) yielded:", polled)
print("expected                   :", expected, "via the callback")
if delivered != expected:
    print(f"VIOLATION: {len(sent) - len(delivered) - len(polled)} of {len(sent)} messages were delivered nowhere")
    sys.exit(1)
print("ok")
