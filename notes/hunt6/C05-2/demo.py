"""C05 finding 2: measuring into a RegFuture that already holds a register re-binds the handle.

`q.measure(future=m)` with a RegFuture `m` always takes a *fresh* M register and re-points `m` to it at
build time.  Straight-line code does not notice, but a loop (or two branches) that reads `m` and then
measures into `m` again is compiled with the read on the OLD register and the write on the NEW one:
the value is not carried around the loop.

Run:  cd /tmp/hunt6/C05/wt && PYTHONPATH=/tmp/hunt6/C05/wt /venv/bin/python /tmp/hunt6/C05/out/2/demo.py
"""
import sys

from netqasm.backend.executor import Executor
from netqasm.backend.messages import MessageType, deserialize_host_msg
from netqasm.lang.parsing import deserialize
from netqasm.sdk.connection import BaseNetQASMConnection, DebugNetworkInfo
from netqasm.sdk.qubit import Qubit
from netqasm.sdk.shared_memory import SharedMemoryManager


class RecExecutor(Executor):
    """The package's Executor; quantum operations are recorded, outcomes are scripted."""

    def __init__(self, name, outcomes):
        super().__init__(name=name)
        self.trace = []
        self.outcomes = list(outcomes)

    def _do_single_qubit_instr(self, instr, subroutine_id, address):
        self.trace.append((instr.mnemonic, address))

    def _do_meas(self, subroutine_id, q_address):
        outcome = self.outcomes.pop(0) if self.outcomes else 0
        self.trace.append(("meas", q_address, outcome))
        return outcome


class ExecConnection(BaseNetQASMConnection):
    """A connection that hands every message to an in-process Executor."""

    def __init__(self, app_name, outcomes=(), **kwargs):
        self.executor = RecExecutor(app_name, outcomes)
        super().__init__(app_name=app_name, node_name=app_name, **kwargs)

    def _get_network_info(self):
        return DebugNetworkInfo

    def _commit_serialized_message(self, raw_msg, block=True, callback=None):
        msg = deserialize_host_msg(raw_msg)
        if msg.TYPE == MessageType.INIT_NEW_APP:
            self.executor.init_new_application(app_id=msg.app_id, max_qubits=msg.max_qubits)
        elif msg.TYPE == MessageType.SUBROUTINE:
            list(self.executor.execute_subroutine(deserialize(msg.subroutine)))
        elif msg.TYPE == MessageType.STOP_APP:
            list(self.executor.stop_application(app_id=msg.app_id))


OUTCOMES = [1, 0, 0, 0]  # first measurement 1, every later one 0

# ---- the program, executed directly (plain Python, same outcome sequence)
outcomes = list(OUTCOMES)
direct_x_on_t = 0
m_direct = outcomes.pop(0)  # m = q.measure()
for _ in range(3):
    if m_direct == 1:
        direct_x_on_t += 1  # t.X()
    m_direct = outcomes.pop(0)  # q2.measure(future=m)

# ---- the same program written with the SDK
SharedMemoryManager.reset_memories()
BaseNetQASMConnection._app_ids.clear()
conn = ExecConnection("alice", outcomes=OUTCOMES)
t = Qubit(conn)  # virtual 0
q = Qubit(conn)  # virtual 1
m = q.measure(store_array=False)  # register future, outcome 1
with conn.loop(3):
    with m.if_eq(1):
        t.X()
    q2 = Qubit(conn)
    q2.measure(future=m)  # m := new outcome (0)
conn.flush()

sdk_x_on_t = sum(1 for op in conn.executor.trace if op == ("x", 0))
print("X gates on t, direct execution :", direct_x_on_t, " final m =", m_direct)
print("X gates on t, controller       :", sdk_x_on_t, " final m (host) =", m.value, " register", m.reg)

if sdk_x_on_t == direct_x_on_t and m.value == m_direct:
    print("OK")
    sys.exit(0)
print("VIOLATION: the condition inside the loop keeps reading the first measurement (register M0) while")
print("           the measurement inside the loop writes a different register (M1).")
sys.exit(1)
