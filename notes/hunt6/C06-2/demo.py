"""C06 / finding 2: a templated ProtoSubroutine can be filled in only once.

`ProtoSubroutine.instantiate()` writes the concrete values over the Template operands of its commands.
A second `instantiate()` with other values finds no Template left, returns normally and changes nothing:
`commit_protosubroutine()` then sends the values of the first round again (or keeps refusing an
unencodable first value). `Subroutine.instantiate()` (the `compile()` flow) was repaired for exactly
this; the protosubroutine flow was not.
"""
import sys

from netqasm.backend.messages import deserialize_host_msg
from netqasm.lang.operand import Template
from netqasm.lang.parsing import deserialize
from netqasm.sdk.connection import BaseNetQASMConnection, DebugConnection
from netqasm.sdk.qubit import Qubit


def new_connection():
    BaseNetQASMConnection._app_ids.clear()
    DebugConnection.node_ids = {"alice": 0}
    return DebugConnection("alice")


def rotations(conn):
    """The rotation instructions the controller received, one list per subroutine."""
    result = []
    for raw in conn.storage:
        msg = deserialize_host_msg(raw)
        if hasattr(msg, "subroutine"):
            instrs = deserialize(msg.subroutine).instructions
            result.append([str(i) for i in instrs if i.mnemonic.startswith("rot_")])
    return result


def run(flow, values):
    """Rotate one living qubit once per value, each rotation in a subroutine of its own."""
    conn = new_connection()
    q = Qubit(conn)
    conn.flush()
    errors = []
    if flow == "flush":
        for v in values:
            q.rot_X(n=v, d=4)
            try:
                conn.flush()
            except OverflowError as exc:
                errors.append(type(exc).__name__)
    elif flow == "compile":
        q.rot_X(n=Template("a"), d=4)
        subroutine = conn.compile()
        for v in values:
            subroutine.instantiate(conn.app_id, {"a": v})
            try:
                conn.commit_subroutine(subroutine)
            except OverflowError as exc:
                errors.append(type(exc).__name__)
    else:
        q.rot_X(n=Template("a"), d=4)
        proto = conn.builder.subrt_pop_pending_subroutine()
        for v in values:
            proto.instantiate(conn.app_id, {"a": v})
            try:
                conn.commit_protosubroutine(proto)
            except OverflowError as exc:
                errors.append(type(exc).__name__)
    return rotations(conn), errors


failed = False
for values in ([1, 2, 3], [256, 5]):  # (256 does not fit in an immediate: that round is refused)
    print(f"=== template values, one round each: {values}")
    expected = run("flush", values)
    print("  flush with the values written out:", expected)
    for flow in ("compile", "proto"):
        got = run(flow, values)
        same = got == expected
        print(f"  [{flow:7}] {got}  -> {'same' if same else 'DIFFERENT'}")
        failed |= not same

if failed:
    print("\nVIOLATION: the second and later ProtoSubroutine.instantiate() calls are ignored silently; "
          "the controller receives the first round's values again.")
    sys.exit(1)
print("OK")
