"""C16 - operands the format cannot represent must be rejected, never silently altered.

Direct construction of the binary command structures (netqasm.lang.encoding): the range
check that `Command.__init__` performs only looks at *keyword* arguments that are integers.
The same operand given positionally, or a nested operand (register / address / array entry)
given in the tuple form ctypes accepts, is truncated by ctypes and the bytes decode to a
different, valid-looking instruction.  The raw operand structures `encoding.Register` and
`encoding.Address` (and `encoding.Metadata`) have no check at all.
"""
import sys

from netqasm.lang import encoding
from netqasm.lang.instr import core, vanilla

failures = []


def check(description, build, decode):
    """`build` should raise; if it does not, show what the bytes decode to."""
    try:
        raw = bytes(build())
    except (OverflowError, ValueError, TypeError) as err:
        print(f"ok      {description}: rejected with {type(err).__name__}")
        return
    decoded = decode(raw)
    print(f"WRONG   {description}: no error, bytes decode to '{decoded}'")
    failures.append(description)


# Reference: the keyword form of exactly the same command IS rejected.
check(
    "ImmCommand(id=9, imm=2**32 + 7)            [keyword form]",
    lambda: encoding.ImmCommand(id=9, imm=2**32 + 7),
    core.JmpInstruction.deserialize_from,
)

# 1. the same command, operands given positionally
check(
    "ImmCommand(9, 2**32 + 7)                   [jmp 4294967303]",
    lambda: encoding.ImmCommand(9, 2**32 + 7),
    core.JmpInstruction.deserialize_from,
)
check(
    "RegImmCommand(4, Register(0, 1), 2**31)    [set R1 2147483648]",
    lambda: encoding.RegImmCommand(4, encoding.Register(0, 1), 2**31),
    core.SetInstruction.deserialize_from,
)
check(
    "RegImmImmCommand(27, Register(2, 0), 300, 4)  [rot_x Q0 300 4]",
    lambda: encoding.RegImmImmCommand(27, encoding.Register(2, 0), 300, 4),
    vanilla.RotXInstruction.deserialize_from,
)

# 2. keyword form, nested operand in the tuple form that ctypes accepts
check(
    "RegCommand(id=20, reg=(2, 16))             [x Q16]",
    lambda: encoding.RegCommand(id=20, reg=(2, 16)),
    vanilla.GateXInstruction.deserialize_from,
)
check(
    "RegAddrCommand(id=8, reg=(0, 1), addr=(2**32 + 1,))  [lea R1 @4294967297]",
    lambda: encoding.RegAddrCommand(id=8, reg=(0, 1), addr=(2**32 + 1,)),
    core.LeaInstruction.deserialize_from,
)

# 3. the operand structures themselves
check(
    "RegCommand(id=20, reg=encoding.Register(2, 16))   [x Q16]",
    lambda: encoding.RegCommand(id=20, reg=encoding.Register(2, 16)),
    vanilla.GateXInstruction.deserialize_from,
)
check(
    "AddrCommand(id=40, addr=encoding.Address(2**32 + 5))  [ret_arr @4294967301]",
    lambda: encoding.AddrCommand(id=40, addr=encoding.Address(2**32 + 5)),
    core.RetArrInstruction.deserialize_from,
)
check(
    "Metadata(netqasm_version=(0, 10), app_id=70000)   [app id 70000]",
    lambda: encoding.Metadata(netqasm_version=(0, 10), app_id=70000),
    lambda raw: f"app id {encoding.Metadata.from_buffer_copy(raw).app_id}",
)

print()
if failures:
    print(
        f"expected: every command above is rejected (as the keyword form is); "
        f"{len(failures)} were encoded with silently altered operands"
    )
    sys.exit(1)
print("all out-of-range operands were rejected")
