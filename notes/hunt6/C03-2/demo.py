"""
C03 - a program that names 16 registers and contains one literal is refused, although
48 registers that the program does not name are free.

The scratch register for a literal is only looked for among R0..R15.  A program that
names all sixteen R registers (or names fewer, but has an instruction with more literals
than R registers are left) cannot be assembled, while any C / Q / M register the program
does not name would hold the literal without disturbing anything.
"""
import sys
import traceback

from netqasm.backend.executor import Executor
from netqasm.lang.encoding import RegisterName
from netqasm.lang.operand import Register
from netqasm.lang.parsing import parse_text_subroutine
from netqasm.sdk.shared_memory import SharedMemoryManager


def execute(text):
    subroutine = parse_text_subroutine(text)
    SharedMemoryManager.reset_memories()
    executor = Executor()
    executor.init_new_application(app_id=0, max_qubits=1)
    list(executor.execute_subroutine(subroutine=subroutine))
    return [executor._get_register(0, Register(RegisterName.R, i)) for i in range(16)]


failed = False

# (a) 16 registers in use (the maximum of the property's domain), one literal
lines = ["# APPID 0"] + [f"set R{i} {i + 100}" for i in range(16)] + ["add R0 R1 5"]
text_a = "\n".join(lines) + "\n"
expected_a = [101 + 5] + [i + 100 for i in range(1, 16)]
print("(a) program: set R0 100 ... set R15 115 ; add R0 R1 5")
print(f"    expected registers R0..R15 = {expected_a}")
try:
    got = execute(text_a)
    print(f"    got                        {got}")
    failed |= got != expected_a
except Exception as exc:
    print(f"    got {type(exc).__name__}: {exc}")
    failed = True

# (b) 14 registers in use, one instruction with three literals
lines = ["# APPID 0"] + [f"set R{i} {i + 100}" for i in range(14)] + ["addm R0 7 8 4"]
text_b = "\n".join(lines) + "\n"
expected_b = [(7 + 8) % 4] + [i + 100 for i in range(1, 14)] + [None, None]
print("(b) program: set R0 100 ... set R13 113 ; addm R0 7 8 4")
print(f"    expected registers R0..R13 = {expected_b[:14]}")
try:
    got = execute(text_b)
    print(f"    got                        {got[:14]}")
    failed |= got[:14] != expected_b[:14]
except Exception as exc:
    print(f"    got {type(exc).__name__}: {exc}")
    failed = True

# the same programs are fine as soon as the literal is written into a C register by hand
text_c = text_a.replace("add R0 R1 5", "set C0 5\nadd R0 R1 C0")
assert execute(text_c) == expected_a
print("(the hand-written form `set C0 5 ; add R0 R1 C0` of (a) assembles and gives the expected registers)")

if failed:
    print("\nVIOLATION: a literal of a program inside the domain (at most 16 registers) was not materialised")
    sys.exit(1)
print("\nok")
