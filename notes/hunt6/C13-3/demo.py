"""C13 finding 3: the physical qubit of a keep-response that has arrived but cannot be
handled yet (no receive request posted yet, or the virtual qubit is still in use) is not
marked in use.  A qalloc in that window is handed the very same physical qubit; when the
pending response is handled afterwards two virtual qubits - here of two different
applications - map to one physical qubit.
"""
import sys

from netqasm.backend.executor import Executor
from netqasm.backend.network_stack import BaseNetworkStack
from netqasm.lang.parsing import parse_text_subroutine
from netqasm.qlink_compat import BellState, LinkLayerOKTypeK, ReturnType
from netqasm.sdk.shared_memory import SharedMemoryManager


class Stack(BaseNetworkStack):
    def put(self, request):
        pass

    def setup_epr_socket(self, epr_socket_id, remote_node_id, remote_epr_socket_id, timeout=1.0):
        return None

    def get_purpose_id(self, remote_node_id, epr_socket_id):
        return epr_socket_id


class Controller(Executor):
    """Only the documented extension points are filled in (as every simulator has to)."""

    @property
    def node_id(self):
        return 0

    def _do_wait(self):
        yield "waiting"

    def _wait_to_handle_epr_responses(self):
        return None  # "try again later": called again on the next event


def subroutine(app_id, text):
    return parse_text_subroutine(f"# NETQASM 1.0\n# APPID {app_id}\n" + text)


def mapping(ex):
    return {
        (app, virt): phys
        for app, um in ex._qubit_unit_modules.items()
        for virt, phys in enumerate(um)
        if phys is not None
    }


SharedMemoryManager.reset_memories()
ex = Controller(name="ctl")
ex.network_stack = Stack()
ex.init_new_application(app_id=0, max_qubits=2)
ex.init_new_application(app_id=1, max_qubits=1)

# 1. The remote node was quicker: the pair for application 0 is delivered (the network stack
#    put it into the free physical qubit 0) before application 0 has posted its receive request.
#    The executor keeps the response pending ("will wait and try again").
ex._handle_epr_response(
    LinkLayerOKTypeK(
        type=ReturnType.OK_K, create_id=0, logical_qubit_id=0, directionality_flag=1,
        sequence_number=0, purpose_id=0, remote_node_id=1, goodness=0, goodness_time=0,
        bell_state=BellState.PHI_PLUS,
    )
)
print("pending responses:", len(ex._pending_epr_responses),
      " physical qubits in use:", sorted(ex._used_physical_qubit_addresses))

# 2. Application 1 allocates a qubit
ex.consume_execute_subroutine(subroutine(1, "set Q0 0\nqalloc Q0\n"))
print("after qalloc of application 1:", mapping(ex))

# 3. Application 0 posts its receive request (virtual qubit 1) and waits
run = ex.execute_subroutine(
    subroutine(
        0,
        """
        set R0 1
        array R0 @0
        set R1 1
        store R1 @0[0]
        set R0 10
        array R0 @1
        set R0 1
        set R1 0
        set R2 0
        set R3 1
        recv_epr R0 R1 R2 R3
        wait_all @1[0:10]
        """,
    )
)
next(run)
# 4. the scheduler lets the executor try its pending responses again
error = None
try:
    ex._handle_pending_epr_responses()
    list(run)
except Exception as exc:  # a loud refusal would be acceptable
    error = exc

m = mapping(ex)
print("after the pending response was handled:", m, " error:", error)
print("physical qubits in use:", sorted(ex._used_physical_qubit_addresses))

failures = []
phys = list(m.values())
if len(set(phys)) != len(phys):
    failures.append(f"two allocated virtual qubits map to the same physical qubit: {m}")

# consequence: stopping application 1 takes the qubit of application 0 away, and application 0
# can then neither be stopped cleanly nor be registered again
if failures:
    list(ex.stop_application(1))
    print("after stop of application 1: in use", sorted(ex._used_physical_qubit_addresses), " mapped", mapping(ex))
    try:
        list(ex.stop_application(0))
    except KeyError as exc:
        failures.append(f"stop_application(0) fails afterwards with KeyError({exc})")
    try:
        ex.init_new_application(app_id=0, max_qubits=2)
    except RuntimeError as exc:
        failures.append(f"application 0 cannot be registered again: {exc}")

if failures:
    print("\nexpected: distinct physical qubits for (app 0, virtual 1) and (app 1, virtual 0)")
    print("VIOLATION of C13:")
    for f in failures:
        print("  -", f)
    sys.exit(1)
print("ok")
