# ---------------------------------------------------------------------------------------
# A small independent interpreter for vanilla / NV NetQASM subroutines.
# Classical memory: registers and arrays. Quantum memory: a density matrix over the
# virtual qubit IDs that are allocated. It knows nothing of the transpiler.
# ---------------------------------------------------------------------------------------
import numpy as np
from netqasm.lang.instr import core, nv, vanilla, DebugInstruction
from netqasm.lang.operand import Register

_X = np.array([[0, 1], [1, 0]], dtype=complex)
_Y = np.array([[0, -1j], [1j, 0]], dtype=complex)
_Z = np.array([[1, 0], [0, -1]], dtype=complex)
_I = np.eye(2, dtype=complex)
_P0 = np.diag([1, 0]).astype(complex)
_P1 = np.diag([0, 1]).astype(complex)
_STATIC = {
    "x": _X, "y": _Y, "z": _Z, "h": (_X + _Z) / np.sqrt(2), "k": (_Y + _Z) / np.sqrt(2),
    "s": np.diag([1, 1j]), "t": np.diag([1, np.exp(1j * np.pi / 4)]),
}
_CNOT = np.array([[1, 0, 0, 0], [0, 1, 0, 0], [0, 0, 0, 1], [0, 0, 1, 0]], dtype=complex)
_CZ = np.diag([1, 1, 1, -1]).astype(complex)
_SWAP = np.array([[1, 0, 0, 0], [0, 0, 1, 0], [0, 1, 0, 0], [0, 0, 0, 1]], dtype=complex)


def _rot(pauli, angle):
    return np.cos(angle / 2) * _I - 1j * np.sin(angle / 2) * pauli


class RunError(Exception):
    pass


class Machine:
    def __init__(self, nv_hardware_rules, outcomes=(0,)):
        self.regs, self.arrays = {}, {}
        self.qubits, self.rho = [], np.array([[1.0 + 0j]])
        self.nv = nv_hardware_rules  # controlled rotations: control = electron (ID 0), target = a carbon
        self.outcomes, self.n_meas = list(outcomes), 0

    def get(self, reg):
        if reg not in self.regs:
            raise RunError(f"register {reg} is read before it is written")
        return self.regs[reg]

    def _idx(self, x):
        return self.get(x) if isinstance(x, Register) else int(x)

    def _entry(self, entry):
        array, index = self.arrays[entry.address.address], self._idx(entry.index)
        if not 0 <= index < len(array):
            raise RunError(f"array entry {entry} = index {index} is outside the array of length {len(array)}")
        return array, index

    def apply(self, u, ids):
        for q in ids:
            if q not in self.qubits:
                raise RunError(f"operation on virtual qubit {q}, which is not allocated")
        if len(set(ids)) != len(ids):
            raise RunError(f"two-qubit operation with the same qubit twice: {ids}")
        n, k = len(self.qubits), len(ids)
        pos = [self.qubits.index(q) for q in ids]
        full = np.eye(2**n, dtype=complex).reshape([2] * (2 * n))
        u = np.asarray(u, dtype=complex).reshape([2] * (2 * k))
        full = np.tensordot(u, full, axes=(list(range(k, 2 * k)), pos))
        full = np.moveaxis(full, list(range(k)), pos).reshape(2**n, 2**n)
        self.rho = full @ self.rho @ full.conj().T

    def alloc(self, q):
        if q in self.qubits:
            raise RunError(f"qalloc of virtual qubit {q}, which is already allocated")
        self.qubits.append(q)
        self.rho = np.kron(self.rho, _P0)

    def free(self, q):
        if q not in self.qubits:
            raise RunError(f"qfree of virtual qubit {q}, which is not allocated")
        n, p = len(self.qubits), self.qubits.index(q)
        rho = np.trace(self.rho.reshape([2] * (2 * n)), axis1=p, axis2=n + p)
        self.qubits.pop(p)
        self.rho = rho.reshape(2 ** (n - 1), 2 ** (n - 1))

    def measure(self, q):
        want = self.outcomes[self.n_meas % len(self.outcomes)]
        self.n_meas += 1
        before = self.rho
        for b in (want, 1 - want):
            self.rho = before
            self.apply([_P0, _P1][b], [q])
            p = np.trace(self.rho).real
            if p > 1e-9:
                self.rho = self.rho / p
                return b

    def run(self, instructions, max_steps=100000):
        pc = 0
        for _ in range(max_steps):
            if pc == len(instructions):
                return self
            if not 0 <= pc < len(instructions):
                raise RunError(f"jump to {pc}, outside the program")
            ins, nxt = instructions[pc], pc + 1
            if isinstance(ins, DebugInstruction):
                pass
            elif isinstance(ins, core.SetInstruction):
                self.regs[ins.reg] = int(ins.imm.value)
            elif isinstance(ins, (core.AddInstruction, core.SubInstruction)):
                a, b = self.get(ins.reg1), self.get(ins.reg2)
                self.regs[ins.reg0] = a + b if isinstance(ins, core.AddInstruction) else a - b
            elif isinstance(ins, core.ArrayInstruction):
                self.arrays[ins.address.address] = [None] * self.get(ins.size)
            elif isinstance(ins, core.StoreInstruction):
                array, index = self._entry(ins.entry)
                array[index] = self.get(ins.reg)
            elif isinstance(ins, core.LoadInstruction):
                array, index = self._entry(ins.entry)
                value = array[index]
                if value is None:
                    raise RunError(f"line {pc}: load of an array entry that has no value")
                self.regs[ins.reg] = value
            elif isinstance(ins, core.JmpInstruction):
                nxt = ins.line.value
            elif isinstance(ins, core.BranchUnaryInstruction):
                a = self.get(ins.reg)
                if (a == 0) == isinstance(ins, core.BezInstruction):
                    nxt = ins.line.value
            elif isinstance(ins, core.BranchBinaryInstruction):
                a, b = self.get(ins.reg0), self.get(ins.reg1)
                taken = {core.BeqInstruction: a == b, core.BneInstruction: a != b,
                         core.BltInstruction: a < b, core.BgeInstruction: a >= b}[type(ins)]
                if taken:
                    nxt = ins.line.value
            elif isinstance(ins, core.QAllocInstruction):
                self.alloc(self.get(ins.reg))
            elif isinstance(ins, core.InitInstruction):
                q = self.get(ins.reg)
                self.free(q)
                self.alloc(q)
            elif isinstance(ins, core.QFreeInstruction):
                self.free(self.get(ins.reg))
            elif isinstance(ins, core.MeasInstruction):
                self.regs[ins.creg] = self.measure(self.get(ins.qreg))
            elif isinstance(ins, (core.RetRegInstruction, core.RetArrInstruction)):
                pass
            elif isinstance(ins, core.SingleQubitInstruction):
                self.apply(_STATIC[ins.mnemonic], [self.get(ins.reg)])
            elif isinstance(ins, core.RotationInstruction):
                pauli = {"rot_x": _X, "rot_y": _Y, "rot_z": _Z}[ins.mnemonic]
                angle = ins.angle_num.value * np.pi / 2**ins.angle_denom.value
                self.apply(_rot(pauli, angle), [self.get(ins.reg)])
            elif isinstance(ins, core.ControlledRotationInstruction):
                pauli = {"crot_x": _X, "crot_y": _Y}[ins.mnemonic]
                angle = ins.angle_num.value * np.pi / 2**ins.angle_denom.value
                ctrl, target = self.get(ins.reg0), self.get(ins.reg1)
                if self.nv and not (ctrl == 0 and target != 0):
                    raise RunError(
                        f"line {pc}: '{ins}' runs with control = qubit {ctrl}, target = qubit {target}; "
                        f"NV only has electron(0)-controlled rotations of a carbon"
                    )
                self.apply(np.kron(_P0, _rot(pauli, angle)) + np.kron(_P1, _rot(pauli, -angle)), [ctrl, target])
            elif isinstance(ins, core.TwoQubitInstruction):
                u = {"cnot": _CNOT, "cphase": _CZ, "mov": _SWAP}[ins.mnemonic]
                self.apply(u, [self.get(ins.reg0), self.get(ins.reg1)])
            else:
                raise RunError(f"instruction {ins} is not modelled")
            pc = nxt
        raise RunError("too many steps")

    def quantum_state(self):
        """(sorted virtual IDs, density matrix with the qubits in that order)"""
        n = len(self.qubits)
        order = sorted(range(n), key=lambda i: self.qubits[i])
        rho = self.rho.reshape([2] * (2 * n)).transpose(order + [n + o for o in order])
        return sorted(self.qubits), rho.reshape(2**n, 2**n)


def mentioned_registers(instructions):
    """Names of all registers a program mentions, also inside @a[R] and @a[R:R]."""
    names = set()
    for ins in instructions:
        for op in ins.operands:
            for part in [op] + [getattr(op, attr, None) for attr in ("index", "start", "stop")]:
                if isinstance(part, Register):
                    names.add(str(part))
    return names


def differences(m_vanilla, m_nv, vanilla_instructions):
    """What differs between the two final states. Registers the vanilla program does not
    mention anywhere are the transpiler's to use as scratch: they are not compared."""
    own = mentioned_registers(vanilla_instructions)
    out = []
    r1 = {str(k): v for k, v in m_vanilla.regs.items() if str(k) in own}
    r2 = {str(k): v for k, v in m_nv.regs.items() if str(k) in own}
    for k in sorted(set(r1) | set(r2)):
        if r1.get(k) != r2.get(k):
            out.append(f"register {k}: vanilla {r1.get(k)}, NV {r2.get(k)}")
    if m_vanilla.arrays != m_nv.arrays:
        out.append(f"arrays: vanilla {m_vanilla.arrays}, NV {m_nv.arrays}")
    (q1, rho1), (q2, rho2) = m_vanilla.quantum_state(), m_nv.quantum_state()
    if q1 != q2:
        out.append(f"allocated qubits: vanilla {q1}, NV {q2}")
    elif not np.allclose(rho1, rho2, atol=1e-7):
        out.append(f"quantum state of qubits {q1} differs")
    return out


# ---------------------------------------------------------------------------------------
# The demonstration
# ---------------------------------------------------------------------------------------
import sys
from copy import deepcopy

from netqasm.lang.encoding import RegisterName
from netqasm.lang.operand import Register
from netqasm.sdk.build_types import NVHardwareConfig
from netqasm.sdk.connection import DebugConnection
from netqasm.sdk.qubit import Qubit
from netqasm.sdk.transpile import NVSubroutineTranspiler

Q2 = Register(RegisterName.Q, 2)

# One application, two subroutines. Registers keep their values from one subroutine of an
# application to the next (netqasm.backend.executor.Executor keeps them per app ID).
with DebugConnection("Alice", hardware_config=NVHardwareConfig(4)) as conn:
    electron, carbon1, carbon2 = Qubit(conn), Qubit(conn), Qubit(conn)  # virtual IDs 0, 1, 2
    with conn.loop(2, loop_register=Q2) as i:  # explicit loop register: Q2 counts 0, 1 and ends as 2
        carbon1.H()
    first = conn.compile()

    counts = conn.new_array(3, init_values=[10, 20, 30])
    carbon1.cnot(carbon2)  # a gate between two carbons
    counts.get_future_index(i).add(5)  # load R @counts[Q2] / add / store R @counts[Q2]
    second = conn.compile()

print("second vanilla subroutine:")
print("\n".join(f"   {k:3d}  {ins}" for k, ins in enumerate(second.instructions)))

nv_first = NVSubroutineTranspiler(deepcopy(first)).transpile()
nv_second = NVSubroutineTranspiler(deepcopy(second)).transpile()
scratch = [str(ins) for ins in nv_second.instructions if str(ins).startswith("set Q") and str(ins).endswith(" 0")
           and str(ins) not in [str(j) for j in second.instructions]]
print(f"\nscratch electron register chosen by the transpiler for the carbon-carbon cnot: {scratch[:1]}")

m_vanilla = Machine(nv_hardware_rules=False)
m_vanilla.run(list(first.instructions)).run(list(second.instructions))
m_nv = Machine(nv_hardware_rules=True)
m_nv.run(list(nv_first.instructions)).run(list(nv_second.instructions))

# (registers that neither vanilla subroutine mentions are not compared)
diffs = differences(m_vanilla, m_nv, list(first.instructions) + list(second.instructions))
print(f"\nexpected: same classical memory and quantum state; array @0 = {m_vanilla.arrays[0]}, Q2 = {m_vanilla.regs[Q2]}")
print(f"happened: array @0 = {m_nv.arrays[0]}, Q2 = {m_nv.regs[Q2]}")
for d in diffs:
    print("   ", d)
if diffs:
    print("\nFAIL: the scratch register of the carbon-carbon expansion overwrote a register the subroutine "
          "uses (as an array index)")
    sys.exit(1)
print("\nOK")
