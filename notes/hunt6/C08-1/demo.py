# ---------------------------------------------------------------------------------------
# A small independent interpreter for vanilla / NV NetQASM subroutines.
# Classical memory: registers and arrays. Quantum memory: a density matrix over the
# virtual qubit IDs that are allocated. It knows nothing of the transpiler.
# ---------------------------------------------------------------------------------------
import numpy as np
from netqasm.lang.instr import core, nv, vanilla, DebugInstruction
from netqasm.lang.operand import Register

_X = np.array([[0, 1], [1, 0]], dtype=complex)
_Y = np.array([[0, -1j], [1j, 0]], dtype=complex)
_Z = np.array([[1, 0], [0, -1]], dtype=complex)
_I = np.eye(2, dtype=complex)
_P0 = np.diag([1, 0]).astype(complex)
_P1 = np.diag([0, 1]).astype(complex)
_STATIC = {
    "x": _X, "y": _Y, "z": _Z, "h": (_X + _Z) / np.sqrt(2), "k": (_Y + _Z) / np.sqrt(2),
    "s": np.diag([1, 1j]), "t": np.diag([1, np.exp(1j * np.pi / 4)]),
}
_CNOT = np.array([[1, 0, 0, 0], [0, 1, 0, 0], [0, 0, 0, 1], [0, 0, 1, 0]], dtype=complex)
_CZ = np.diag([1, 1, 1, -1]).astype(complex)
_SWAP = np.array([[1, 0, 0, 0], [0, 0, 1, 0], [0, 1, 0, 0], [0, 0, 0, 1]], dtype=complex)


def _rot(pauli, angle):
    return np.cos(angle / 2) * _I - 1j * np.sin(angle / 2) * pauli


class RunError(Exception):
    pass


class Machine:
    def __init__(self, nv_hardware_rules, outcomes=(0,)):
        self.regs, self.arrays = {}, {}
        self.qubits, self.rho = [], np.array([[1.0 + 0j]])
        self.nv = nv_hardware_rules  # controlled rotations: control = electron (ID 0), target = a carbon
        self.outcomes, self.n_meas = list(outcomes), 0

    def get(self, reg):
        if reg not in self.regs:
            raise RunError(f"register {reg} is read before it is written")
        return self.regs[reg]

    def _idx(self, x):
        return self.get(x) if isinstance(x, Register) else int(x)

    def apply(self, u, ids):
        for q in ids:
            if q not in self.qubits:
                raise RunError(f"operation on virtual qubit {q}, which is not allocated")
        if len(set(ids)) != len(ids):
            raise RunError(f"two-qubit operation with the same qubit twice: {ids}")
        n, k = len(self.qubits), len(ids)
        pos = [self.qubits.index(q) for q in ids]
        full = np.eye(2**n, dtype=complex).reshape([2] * (2 * n))
        u = np.asarray(u, dtype=complex).reshape([2] * (2 * k))
        full = np.tensordot(u, full, axes=(list(range(k, 2 * k)), pos))
        full = np.moveaxis(full, list(range(k)), pos).reshape(2**n, 2**n)
        self.rho = full @ self.rho @ full.conj().T

    def alloc(self, q):
        if q in self.qubits:
            raise RunError(f"qalloc of virtual qubit {q}, which is already allocated")
        self.qubits.append(q)
        self.rho = np.kron(self.rho, _P0)

    def free(self, q):
        if q not in self.qubits:
            raise RunError(f"qfree of virtual qubit {q}, which is not allocated")
        n, p = len(self.qubits), self.qubits.index(q)
        rho = np.trace(self.rho.reshape([2] * (2 * n)), axis1=p, axis2=n + p)
        self.qubits.pop(p)
        self.rho = rho.reshape(2 ** (n - 1), 2 ** (n - 1))

    def measure(self, q):
        want = self.outcomes[self.n_meas % len(self.outcomes)]
        self.n_meas += 1
        before = self.rho
        for b in (want, 1 - want):
            self.rho = before
            self.apply([_P0, _P1][b], [q])
            p = np.trace(self.rho).real
            if p > 1e-9:
                self.rho = self.rho / p
                return b

    def run(self, instructions, max_steps=100000):
        pc = 0
        for _ in range(max_steps):
            if pc == len(instructions):
                return self
            if not 0 <= pc < len(instructions):
                raise RunError(f"jump to {pc}, outside the program")
            ins, nxt = instructions[pc], pc + 1
            if isinstance(ins, DebugInstruction):
                pass
            elif isinstance(ins, core.SetInstruction):
                self.regs[ins.reg] = int(ins.imm.value)
            elif isinstance(ins, (core.AddInstruction, core.SubInstruction)):
                a, b = self.get(ins.reg1), self.get(ins.reg2)
                self.regs[ins.reg0] = a + b if isinstance(ins, core.AddInstruction) else a - b
            elif isinstance(ins, core.ArrayInstruction):
                self.arrays[ins.address.address] = [None] * self.get(ins.size)
            elif isinstance(ins, core.StoreInstruction):
                self.arrays[ins.entry.address.address][self._idx(ins.entry.index)] = self.get(ins.reg)
            elif isinstance(ins, core.LoadInstruction):
                value = self.arrays[ins.entry.address.address][self._idx(ins.entry.index)]
                if value is None:
                    raise RunError(f"line {pc}: load of an array entry that has no value")
                self.regs[ins.reg] = value
            elif isinstance(ins, core.JmpInstruction):
                nxt = ins.line.value
            elif isinstance(ins, core.BranchUnaryInstruction):
                a = self.get(ins.reg)
                if (a == 0) == isinstance(ins, core.BezInstruction):
                    nxt = ins.line.value
            elif isinstance(ins, core.BranchBinaryInstruction):
                a, b = self.get(ins.reg0), self.get(ins.reg1)
                taken = {core.BeqInstruction: a == b, core.BneInstruction: a != b,
                         core.BltInstruction: a < b, core.BgeInstruction: a >= b}[type(ins)]
                if taken:
                    nxt = ins.line.value
            elif isinstance(ins, core.QAllocInstruction):
                self.alloc(self.get(ins.reg))
            elif isinstance(ins, core.InitInstruction):
                q = self.get(ins.reg)
                self.free(q)
                self.alloc(q)
            elif isinstance(ins, core.QFreeInstruction):
                self.free(self.get(ins.reg))
            elif isinstance(ins, core.MeasInstruction):
                self.regs[ins.creg] = self.measure(self.get(ins.qreg))
            elif isinstance(ins, (core.RetRegInstruction, core.RetArrInstruction)):
                pass
            elif isinstance(ins, core.SingleQubitInstruction):
                self.apply(_STATIC[ins.mnemonic], [self.get(ins.reg)])
            elif isinstance(ins, core.RotationInstruction):
                pauli = {"rot_x": _X, "rot_y": _Y, "rot_z": _Z}[ins.mnemonic]
                angle = ins.angle_num.value * np.pi / 2**ins.angle_denom.value
                self.apply(_rot(pauli, angle), [self.get(ins.reg)])
            elif isinstance(ins, core.ControlledRotationInstruction):
                pauli = {"crot_x": _X, "crot_y": _Y}[ins.mnemonic]
                angle = ins.angle_num.value * np.pi / 2**ins.angle_denom.value
                ctrl, target = self.get(ins.reg0), self.get(ins.reg1)
                if self.nv and not (ctrl == 0 and target != 0):
                    raise RunError(
                        f"line {pc}: '{ins}' runs with control = qubit {ctrl}, target = qubit {target}; "
                        f"NV only has electron(0)-controlled rotations of a carbon"
                    )
                self.apply(np.kron(_P0, _rot(pauli, angle)) + np.kron(_P1, _rot(pauli, -angle)), [ctrl, target])
            elif isinstance(ins, core.TwoQubitInstruction):
                u = {"cnot": _CNOT, "cphase": _CZ, "mov": _SWAP}[ins.mnemonic]
                self.apply(u, [self.get(ins.reg0), self.get(ins.reg1)])
            else:
                raise RunError(f"instruction {ins} is not modelled")
            pc = nxt
        raise RunError("too many steps")

    def quantum_state(self):
        """(sorted virtual IDs, density matrix with the qubits in that order)"""
        n = len(self.qubits)
        order = sorted(range(n), key=lambda i: self.qubits[i])
        rho = self.rho.reshape([2] * (2 * n)).transpose(order + [n + o for o in order])
        return sorted(self.qubits), rho.reshape(2**n, 2**n)


def differences(m_vanilla, m_nv, scratch=()):
    """What differs between the two final states (registers in `scratch` are not compared)."""
    out = []
    r1 = {str(k): v for k, v in m_vanilla.regs.items() if str(k) not in scratch}
    r2 = {str(k): v for k, v in m_nv.regs.items() if str(k) not in scratch}
    for k in sorted(set(r1) | set(r2)):
        if r1.get(k) != r2.get(k):
            out.append(f"register {k}: vanilla {r1.get(k)}, NV {r2.get(k)}")
    if m_vanilla.arrays != m_nv.arrays:
        out.append(f"arrays: vanilla {m_vanilla.arrays}, NV {m_nv.arrays}")
    (q1, rho1), (q2, rho2) = m_vanilla.quantum_state(), m_nv.quantum_state()
    if q1 != q2:
        out.append(f"allocated qubits: vanilla {q1}, NV {q2}")
    elif not np.allclose(rho1, rho2, atol=1e-7):
        out.append(f"quantum state of qubits {q1} differs")
    return out


# ---------------------------------------------------------------------------------------
# The demonstration
# ---------------------------------------------------------------------------------------
import sys
from copy import deepcopy

from netqasm.sdk.build_types import NVHardwareConfig
from netqasm.sdk.connection import DebugConnection
from netqasm.sdk.epr_socket import EPRSocket
from netqasm.sdk.qubit import FutureQubit, Qubit
from netqasm.sdk.transpile import NVSubroutineTranspiler

failures = []


def report(title, vanilla_sub, expected, happened, bad):
    print(f"--- {title}")
    print(f"    expected: {expected}")
    print(f"    happened: {happened}")
    if bad:
        failures.append(title)


def run_both(vanilla_sub):
    """Run the vanilla subroutine and its NV transpilation from the same (empty) state."""
    nv_sub = NVSubroutineTranspiler(deepcopy(vanilla_sub)).transpile()
    m_vanilla = Machine(nv_hardware_rules=False).run(list(vanilla_sub.instructions))
    m_nv = Machine(nv_hardware_rules=True).run(list(nv_sub.instructions))
    return nv_sub, differences(m_vanilla, m_nv, scratch=("C15", "Q2"))


# Case A: the qubit registers of a gate are written by `load` (a FutureQubit: its virtual ID
# is an array entry). Earlier in the same subroutine Q0 / Q1 were `set` to other IDs.
with DebugConnection("Alice", hardware_config=NVHardwareConfig(3)) as conn:
    electron = Qubit(conn)  # virtual ID 0
    carbon = Qubit(conn)  # virtual ID 1
    electron.H()
    electron.cnot(carbon)  # set Q0 0 / set Q1 1 / cnot Q0 Q1     (electron -> carbon)
    ids = conn.new_array(2, init_values=[1, 0])
    f_carbon = FutureQubit(conn, ids.get_future_index(0))  # holds 1 when the gate runs
    f_electron = FutureQubit(conn, ids.get_future_index(1))  # holds 0 when the gate runs
    f_carbon.H()
    f_carbon.cnot(f_electron)  # load Q0 @ids[0] / load Q1 @ids[1] / cnot Q0 Q1   (carbon -> electron)
    vanilla_a = conn.compile()

title = "A: cnot whose registers were loaded (carbon -> electron) after a cnot with set registers (electron -> carbon)"
expected = "the carbon->electron circuit (H on the electron, electron-controlled rotation of the carbon, H)"
try:
    nv_a, diffs = run_both(vanilla_a)
    report(title, vanilla_a, expected, f"NV program ran, differences: {diffs or 'none'}", bool(diffs))
except RunError as exc:
    report(title, vanilla_a, expected, f"the NV program cannot run on NV: {exc}", True)
except (ValueError, NotImplementedError, RuntimeError) as exc:
    report(title, vanilla_a, expected, f"refused at transpile time: {exc!r}", False)

# Case B: the request form the SDK offers for this (an EPR context): the EPR qubit is a
# FutureQubit, the gate partner a memory qubit.
DebugConnection.node_ids = {"Alice": 0, "Bob": 1}
epr_socket = EPRSocket("Bob")
with DebugConnection("Alice", hardware_config=NVHardwareConfig(4), epr_sockets=[epr_socket]) as conn:
    m1 = Qubit(conn)
    m2 = Qubit(conn)
    m1.H()
    with epr_socket.create_context(number=2, sequential=True) as (q, pair):
        m2.cnot(q)  # set Q0 <m2> / load Q1 @ids[pair] / cnot Q0 Q1 ; the loaded ID is 0 (the electron)
        q.measure()
    vanilla_b = conn.compile()

title = "B: EPR context (sequential), memory_qubit.cnot(epr_qubit); the EPR qubit's register is loaded and holds 0"
gate_lines = [str(i) for i in vanilla_b.instructions if i.mnemonic in ("cnot", "load") and "Q" in str(i)]
try:
    nv_b = NVSubroutineTranspiler(deepcopy(vanilla_b)).transpile()
    # Which circuit was chosen for that cnot? A carbon-carbon circuit starts by pointing a
    # scratch register at the electron and swapping; with the electron as the target it
    # would act on qubit 0 twice.
    text = [str(i) for i in nv_b.instructions]
    start = max(k for k, t in enumerate(text) if t.startswith("load Q1"))
    chosen = text[start + 1 : start + 4]
    uses_scratch = any(t.startswith("set Q2 0") for t in chosen)
    report(
        title, vanilla_b, expected,
        f"after 'load Q1 ...' the transpiler emitted {chosen}: "
        + ("the carbon-carbon circuit (scratch register Q2 := electron); at run time Q1 holds 0 as well, "
           "so 'crot_x Q2 Q1' names the electron twice" if uses_scratch else "ok"),
        uses_scratch,
    )
except AssertionError as exc:
    report(title, vanilla_b, expected, f"the transpiler crashed: AssertionError({exc})", True)
except (ValueError, NotImplementedError, RuntimeError) as exc:
    report(title, vanilla_b, expected, f"refused at transpile time: {exc!r}", False)

# Case C: the same gate when no `set` of that register precedes it in the text at all.
with DebugConnection("Alice", hardware_config=NVHardwareConfig(3)) as conn:
    Qubit(conn)  # virtual ID 0   (set Q0 0 / qalloc Q0 / init Q0)
    Qubit(conn)  # virtual ID 1   (set Q0 1 / qalloc Q0 / init Q0)
    ids = conn.new_array(2, init_values=[0, 1])
    a = FutureQubit(conn, ids.get_future_index(0))
    b = FutureQubit(conn, ids.get_future_index(1))
    a.H()
    a.cphase(b)  # load Q0 @ids[0] / load Q1 @ids[1] / cphase Q0 Q1
    vanilla_c = conn.compile()
title = "C: cphase between two FutureQubits (IDs 0 and 1), no 'set' of Q1 anywhere in the subroutine"
try:
    nv_c, diffs = run_both(vanilla_c)
    report(title, vanilla_c, "electron-carbon cphase circuit", f"differences: {diffs or 'none'}", bool(diffs))
except AssertionError as exc:
    report(title, vanilla_c, "electron-carbon cphase circuit", f"the transpiler crashed: AssertionError({exc})", True)
except RunError as exc:
    report(title, vanilla_c, "electron-carbon cphase circuit", f"the NV program cannot run on NV: {exc}", True)
except (ValueError, NotImplementedError, RuntimeError) as exc:
    report(title, vanilla_c, "electron-carbon cphase circuit", f"refused at transpile time: {exc!r}", False)

if failures:
    print(f"\nFAIL: {len(failures)} case(s) violate C08 (decomposition must reflect the qubit the register holds)")
    sys.exit(1)
print("\nOK")
