"""C09 finding 1: on NV with the NV transpiler a gate between two memory qubits addresses
virtual qubit 0 although no qubit is allocated there.

Run: cd /tmp/hunt6/C09/wt && PYTHONPATH=/tmp/hunt6/C09/wt /venv/bin/python /tmp/hunt6/C09/out/1/demo.py
"""
# ---------------------------------------------------------------------------------------
# Small self-contained test bench: an SDK connection that hands every message at once to a
# controller built from netqasm's own QNodeController / Executor. The executor subclass
# only adds what a simulator backend adds: (1) every qubit instruction looks its virtual
# qubit up in the unit module (Executor._get_position -> NotAllocatedError), (2) a link
# layer that answers a keep request pair by pair as soon as Executor._handle_epr_ok_k_response
# accepts the pair (it refuses while the virtual ID of the pair is still allocated).
# ---------------------------------------------------------------------------------------
import logging
import sys
from types import GeneratorType

from netqasm.backend.executor import Executor
from netqasm.backend.messages import deserialize_host_msg
from netqasm.backend.network_stack import BaseNetworkStack
from netqasm.backend.qnodeos import QNodeController
from netqasm.lang.instr.flavour import NVFlavour
from netqasm.qlink_compat import BellState, LinkLayerOKTypeK, LinkLayerOKTypeM, RequestType
from netqasm.sdk.build_types import GenericHardwareConfig, NVHardwareConfig
from netqasm.sdk.connection import BaseNetQASMConnection, DebugConnection, DebugNetworkInfo
from netqasm.sdk.epr_socket import EPRSocket
from netqasm.sdk.qubit import Qubit
from netqasm.sdk.shared_memory import SharedMemoryManager
from netqasm.sdk.transpile import NVSubroutineTranspiler

logging.disable(logging.CRITICAL)
DebugConnection.node_ids = {"Alice": 0, "Bob": 1}


class Deadlock(Exception):
    pass


class Stack(BaseNetworkStack):
    def put(self, request):
        pass

    def setup_epr_socket(self, epr_socket_id, remote_node_id, remote_epr_socket_id, timeout=1.0):
        return None

    def get_purpose_id(self, remote_node_id, epr_socket_id):
        return epr_socket_id


class CheckingExecutor(Executor):
    def __init__(self, *args, **kwargs):
        super().__init__(*args, **kwargs)
        self.network_stack = Stack()
        self.bell_state = BellState.PHI_PLUS  # Bell state the link layer reports
        self.durations = []  # generation duration reported for the 1st, 2nd, ... pair (default 1)
        self.delivered = 0
        self.steps = 0

    @property
    def node_id(self):
        return 0

    def _chk(self, subroutine_id, *addresses):
        for address in addresses:
            self._get_position(subroutine_id=subroutine_id, address=address)

    def _do_single_qubit_instr(self, instr, subroutine_id, address):
        self._chk(subroutine_id, address)

    def _do_single_qubit_rotation(self, instr, subroutine_id, address, angle):
        self._chk(subroutine_id, address)

    def _do_controlled_qubit_rotation(self, instr, subroutine_id, address1, address2, angle):
        self._chk(subroutine_id, address1, address2)

    def _do_two_qubit_instr(self, instr, subroutine_id, address1, address2):
        self._chk(subroutine_id, address1, address2)

    def _do_meas(self, subroutine_id, q_address):
        self._chk(subroutine_id, q_address)
        return 0

    def _execute_command(self, subroutine_id, command):
        self.steps += 1
        if self.steps > 100000:
            raise Deadlock("instruction budget exhausted")
        return super()._execute_command(subroutine_id, command)

    # -- link layer
    def _wait_to_handle_epr_responses(self):
        pass  # (the base class would recurse for ever on a response it cannot handle yet)

    def _deliver(self):
        progress = False
        for creator, reqs in ((True, self._epr_create_requests), (False, self._epr_recv_requests)):
            for key in list(reqs.keys()):
                while len(reqs[key]) > 0:
                    data = reqs[key][0]
                    remote_node_id, purpose_id = key
                    keep = (data.request.type == RequestType.K) if creator else (data.virtual_qubit_ids is not None)
                    common = dict(
                        create_id=1,
                        directionality_flag=0 if creator else 1,
                        sequence_number=data.tot_pairs - data.pairs_left,
                        purpose_id=purpose_id,
                        remote_node_id=remote_node_id,
                        goodness=self.durations[self.delivered] if self.delivered < len(self.durations) else 1,
                        bell_state=self.bell_state,
                    )
                    if keep:
                        phys = min(p for p in range(100) if p not in self._used_physical_qubit_addresses)
                        resp = LinkLayerOKTypeK(logical_qubit_id=phys, goodness_time=0, **common)
                    else:
                        resp = LinkLayerOKTypeM(measurement_outcome=0, measurement_basis=0, **common)
                    left = data.pairs_left
                    self._handle_epr_response(resp)
                    if resp in self._pending_epr_responses:
                        self._pending_epr_responses.remove(resp)
                    if data.pairs_left == left:
                        break  # the executor does not take this pair yet
                    progress = True
                    self.delivered += 1
        return progress

    def _do_create_epr(self, **kwargs):
        out = super()._do_create_epr(**kwargs)
        self._deliver()
        return out

    def _do_recv_epr(self, **kwargs):
        out = super()._do_recv_epr(**kwargs)
        self._deliver()
        return out

    def _do_wait(self):
        if not self._deliver():
            raise Deadlock(
                "the subroutine waits for a pair that the executor can never accept: "
                f"the virtual ID it is meant for is allocated (unit modules: {self._qubit_unit_modules})"
            )


class Controller(QNodeController):
    @classmethod
    def _get_executor_class(cls, flavour=None):
        return CheckingExecutor

    def stop(self):
        pass

    def _mark_message_finished(self, msg_id, msg):
        pass


class Conn(BaseNetQASMConnection):
    def __init__(self, flavour=None, **kwargs):
        BaseNetQASMConnection._app_ids.clear()
        SharedMemoryManager.reset_memories()
        self.ctrl = Controller(name="Alice", flavour=flavour)
        self.sent = []
        super().__init__("Alice", **kwargs)

    @property
    def executor(self):
        return self.ctrl._executor

    def _commit_serialized_message(self, raw_msg, block=True, callback=None):
        out = self.ctrl.handle_netqasm_message(0, deserialize_host_msg(raw_msg))
        if isinstance(out, GeneratorType):
            for _ in out:
                pass

    def commit_subroutine(self, subroutine, block=True, callback=None):
        self.sent.append(subroutine)
        super().commit_subroutine(subroutine, block, callback)

    def _get_network_info(self):
        return DebugNetworkInfo

    def controller_ids(self):
        unit_module = self.executor._qubit_unit_modules[self.app_id]
        return sorted(i for i, phys in enumerate(unit_module) if phys is not None)

    def sdk_ids(self):
        return sorted(int(q.qubit_id) for q in self.active_qubits)


def first_line(exc):
    return f"{type(exc).__name__}: " + (str(exc).splitlines() or [""])[0]


# ---------------------------------------------------------------------------------------

def scenario(gate, flush_between):
    """Budget 4 on NV: at most 3 qubits alive. q0 (ID 0) is measured, which gives ID 0 back;
    then a two-qubit gate between the qubits with IDs 1 and 2."""
    conn = Conn(
        max_qubits=4,
        hardware_config=NVHardwareConfig(4),
        compiler=NVSubroutineTranspiler,
        flavour=NVFlavour(),
    )
    q0, q1, q2 = Qubit(conn), Qubit(conn), Qubit(conn)
    assert [q0.qubit_id, q1.qubit_id, q2.qubit_id] == [0, 1, 2]
    q0.measure()
    if flush_between:
        conn.flush()
        assert conn.controller_ids() == [1, 2] == conn.sdk_ids()
    getattr(q1, gate)(q2)
    conn.flush()
    return conn


def main():
    failures = 0
    for gate in ("cnot", "cphase"):
        for flush_between in (False, True):
            name = f"NV budget 4 + NV transpiler: q0,q1,q2 = 3 x Qubit(); q0.measure(); " \
                   f"{'flush(); ' if flush_between else ''}q1.{gate}(q2); flush()"
            print(name)
            print("  expected: the subroutine executes; every instruction addresses an allocated virtual qubit")
            try:
                conn = scenario(gate, flush_between)
                print(f"  happened: executed, controller holds {conn.controller_ids()}, SDK holds {conn.sdk_ids()}")
            except Exception as exc:  # noqa
                failures += 1
                print(f"  happened: {first_line(exc)}")
    # control: the same gate while ID 0 is occupied works
    conn = Conn(max_qubits=4, hardware_config=NVHardwareConfig(4), compiler=NVSubroutineTranspiler, flavour=NVFlavour())
    q0, q1, q2 = Qubit(conn), Qubit(conn), Qubit(conn)
    q1.cnot(q2)
    conn.flush()
    print("control (ID 0 occupied by a third qubit): executed without fault")
    if failures:
        print(f"FAIL: {failures} of 4 in-budget programs hit an allocation fault")
        sys.exit(1)
    print("PASS")


if __name__ == "__main__":
    main()
