"""C19 finding 1: with a tolerance below ~1.9e-7 the decomposition silently drops
steps whose exponent is >= 32, so the returned steps miss the angle by far more
than the stated tolerance (tolerances down to 1e-9 are inside the property's domain)."""
import sys
from fractions import Fraction

from netqasm.sdk.toolbox import get_angle_spec_from_float

# pi to 60 digits, exact rational arithmetic for the check
PI = Fraction(int("3141592653589793238462643383279502884197169399375105820974944"), 10**60)


def error(angle, nds):
    total = sum((Fraction(n) * PI / Fraction(2) ** d for n, d in nds), Fraction(0))
    diff = Fraction(angle) - total
    diff -= round(diff / (2 * PI)) * 2 * PI
    return float(abs(diff))


cases = [
    (1.5e-9, 1e-9),   # a small angle: nothing at all is returned
    (1.8e-7, 1e-9),
    (0.3, 1e-9),      # an ordinary angle: the last step is lost
    (-3.2582231319742982, 1e-8),
    (-7.301331538360092, 1e-7),
    (2.0, 1e-9),
]
bad = 0
for angle, tol in cases:
    nds = get_angle_spec_from_float(angle, tol=tol)
    fits = all(0 <= n <= 255 and 0 <= d <= 255 for n, d in nds)
    err = error(angle, nds)
    ok = fits and err <= tol
    bad += not ok
    print(
        f"angle={angle!r} tol={tol:g}: steps={nds}\n"
        f"    expected |angle - sum n*pi/2^d| (mod 2 pi) <= {tol:g}, got {err:.3e}"
        f"  -> {'ok' if ok else 'VIOLATION'}"
    )
if bad:
    print(f"{bad} of {len(cases)} angles are not approximated within the stated tolerance")
    sys.exit(1)
print("all angles approximated within tolerance")
