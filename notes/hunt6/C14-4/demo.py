"""C14 finding 4: the callback form of a loop (`conn.loop_body`) with an explicit loop register silently
shares a register that is the live loop counter of an enclosing loop.  The context form
(`conn.loop(..., loop_register=...)`) refuses exactly the same request.
"""
import sys

from netqasm.backend.executor import Executor
from netqasm.logging.glob import set_log_level
from netqasm.sdk.connection import DebugConnection
from netqasm.sdk.shared_memory import SharedMemoryManager

set_log_level("ERROR")


def execute(subroutine):
    SharedMemoryManager.reset_memories()
    executor = Executor()
    executor.init_new_application(app_id=subroutine.app_id, max_qubits=5)
    list(executor.execute_subroutine(subroutine=subroutine))
    return executor


def build(inner_register):
    """3 x 2 iterations, every innermost iteration adds 1 to an array entry."""
    conn = DebugConnection("Alice")
    counter = conn.new_array(1, [0])
    entry = counter.get_future_index(0)

    def inner(c, j):
        entry.add(1)

    with conn.loop(3) as i:  # automatically chosen register (R0)
        outer_register = i
        conn.loop_body(inner, 2, loop_register=inner_register)
    return conn.compile(), outer_register, counter.address


# reference: the context form refuses an explicit register that is live
conn = DebugConnection("Alice")
try:
    with conn.loop(3) as i:
        with conn.loop(2, loop_register="R0"):
            pass
    context_form = "accepted"
except ValueError as err:
    context_form = f"refused ({err})"
print(f"context form  conn.loop(2, loop_register='R0') inside a loop that counts in R0: {context_form}")

ok = True
for reg in ["R7", "R0"]:
    try:
        subroutine, outer_register, address = build(reg)
    except ValueError as err:
        print(f"callback form conn.loop_body(inner, 2, loop_register='{reg}'): refused ({err})")
        continue
    writers = [
        str(instr) for instr in subroutine.instructions
        if instr.mnemonic == "set" and str(instr.operands[0]) == str(outer_register)
    ]
    executor = execute(subroutine)
    total = executor._app_arrays[subroutine.app_id][address, 0]
    print(f"callback form conn.loop_body(inner, 2, loop_register='{reg}') inside a loop that counts in "
          f"{outer_register}: accepted, 'set {outer_register} ..' instructions: {len(writers)}, "
          f"innermost body executed {total} times")
    if total != 6:
        ok = False

print()
print("expected: 6 executions (3 x 2), or a refusal as in the context form - never a silently shared counter")
print("happened:", "as expected" if ok else "the inner loop counts in the live counter of the outer loop; "
      "the outer loop ends after its first iteration")
sys.exit(0 if ok else 1)
