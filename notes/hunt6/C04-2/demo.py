"""C04 finding 2: negative register values / branch targets wrap around (Python list indexing).

* store / load / undef with index register -1 address the LAST entry of the array
  instead of faulting (only an index past the end faults);
* qalloc / qfree with virtual address -1 allocate / free the LAST slot of the unit module;
* jmp / branch to line -k continues at line len-k of the subroutine.
All silent.  (No loops are used, so the demo always terminates.)
"""
import sys

from netqasm.backend.executor import Executor
from netqasm.lang.parsing import parse_text_subroutine
from netqasm.sdk.shared_memory import SharedMemoryManager

HDR = "# NETQASM 1.0\n# APPID 0\n"
_n = [0]


def fresh(max_qubits=3):
    SharedMemoryManager.reset_memories()
    _n[0] += 1
    ex = Executor(name=f"c04_demo2_{_n[0]}")
    ex.init_new_application(app_id=0, max_qubits=max_qubits)
    return ex


def run(ex, text):
    sub = parse_text_subroutine(HDR + text)
    try:
        ex.consume_execute_subroutine(sub)
        return None
    except Exception as exc:  # the executor re-raises the class of the fault
        return f"{type(exc).__name__}: {str(exc).splitlines()[0]}"


def reg(ex, name, index):
    from netqasm.lang.encoding import RegisterName

    return ex._registers[0][RegisterName[name]]._register.get(index)


failures = []


def check(title, cond, detail):
    print(f"{'ok  ' if cond else 'FAIL'} {title}: {detail}")
    if not cond:
        failures.append(title)


# 1. store with index -1 (computed with sub, as a program would)
ex = fresh()
err = run(
    ex,
    """
set R0 3
array R0 @0
set R1 0
set R2 1
sub R3 R1 R2
set R4 42
store R4 @0[R3]
""",
)
arr = list(ex._app_arrays[0]._get_array(0))
check(
    "store @0[-1]",
    err is not None and err.split(": ", 1)[1].startswith("At line 6") and arr == [None] * 3,
    f"expected a fault naming line 6 and array [None, None, None]; got error={err!r}, array={arr}",
)

# 2. load with index -1
ex = fresh()
err = run(
    ex,
    """
set R0 2
array R0 @0
set R1 1
set R4 42
store R4 @0[R1]
set R3 -1
load R5 @0[R3]
""",
)
check(
    "load @0[-1]",
    err is not None and "At line 6" in err and reg(ex, "R", 5) is None,
    f"expected a fault naming line 6 and R5 untouched; got error={err!r}, R5={reg(ex, 'R', 5)}",
)

# 3. undef with index -3 on an array of length 3 (wraps to entry 0)
ex = fresh()
err = run(
    ex,
    """
set R0 3
array R0 @0
set R1 0
set R4 42
store R4 @0[R1]
set R3 -3
undef @0[R3]
""",
)
arr = list(ex._app_arrays[0]._get_array(0))
check(
    "undef @0[-3]",
    err is not None and "At line 6" in err and arr == [42, None, None],
    f"expected a fault naming line 6 and array [42, None, None]; got error={err!r}, array={arr}",
)

# 4. qalloc with virtual address -1
ex = fresh(max_qubits=3)
err = run(ex, "set Q0 -1\nqalloc Q0\n")
um = list(ex._qubit_unit_modules[0])
check(
    "qalloc -1",
    err is not None and "At line 1" in err and um == [None] * 3,
    f"expected a fault naming line 1 and an empty unit module; got error={err!r}, unit module={um}",
)

# 5. qfree with virtual address -1 frees virtual qubit 2
ex = fresh(max_qubits=3)
err = run(ex, "set Q1 2\nqalloc Q1\nset Q0 -1\nqfree Q0\n")
um = list(ex._qubit_unit_modules[0])
check(
    "qfree -1",
    err is not None and "At line 3" in err and um == [None, None, 0],
    f"expected a fault naming line 3 (qubit -1 is not allocated) and qubit 2 still allocated; "
    f"got error={err!r}, unit module={um}",
)

# 6. jump to line -2: must not execute line len-2
ex = fresh()
err = run(
    ex,
    """
set R0 0
set R1 1
jmp -2
jmp 6
add R0 R0 R1
jmp 6
""",
)
r0 = reg(ex, "R", 0)
check(
    "jmp -2",
    r0 == 0,
    f"expected either a fault naming line 2 or the end of the subroutine, R0 == 0 in both cases; "
    f"got error={err!r}, R0={r0}" + (" (line 4 = len-2 was executed)" if r0 != 0 else ""),
)

if failures:
    print("VIOLATION:", ", ".join(failures))
    sys.exit(1)
print("ok")
