"""C19 finding 2: with the hardware setting switched on (rotations in units of pi/16, NV compiler)
some float angles that ARE exact multiples of pi/16 are refused, their neighbours are accepted.
The float k*pi/16 can be one ulp below the dyadic value; the decomposition always rounds down,
so instead of the single step (k, 4) it returns e.g. [(239, 7), (127, 14), (127, 21)]."""
import math
import sys

from netqasm.lang.instr import core
from netqasm.runtime.settings import set_is_using_hardware
from netqasm.sdk.connection import DebugConnection
from netqasm.sdk.qubit import Qubit
from netqasm.sdk.toolbox import get_angle_spec_from_float
from netqasm.sdk.transpile import NVSubroutineTranspiler

set_is_using_hardware(True)

bad = 0
for k in range(-32, 65):
    angle = k * math.pi / 16
    conn = DebugConnection("alice", compiler=NVSubroutineTranspiler)
    q = Qubit(conn)
    q.rot_X(angle=angle)
    expected = [(k % 32, 4)] if k % 32 else []
    try:
        subroutine = conn.compile()
        got = [
            (int(i.angle_num.value), int(i.angle_denom.value))
            for i in subroutine.instructions
            if isinstance(i, core.RotationInstruction)
        ]
    except Exception as exc:  # noqa
        got = f"{type(exc).__name__}: {exc}"
    if got != expected:
        bad += 1
        print(
            f"rot_X(angle={k}*pi/16 = {angle!r}): expected rotation steps {expected}, got {got}\n"
            f"    decomposition was {get_angle_spec_from_float(angle)}"
        )
if bad:
    print(f"{bad} of 97 exact multiples of pi/16 were not realised on the hardware setting")
    sys.exit(1)
print("every multiple of pi/16 was realised as one hardware rotation")
