"""C18 demo 2: a message that was queued for a socket that has been closed is
handed to the NEXT connection under the same names.

  connection 1:  A sends "m1", "m2";  B receives "m1";  both sockets are closed.
  connection 2:  new sockets A', B' (same names, same id).  A' sends nothing.
                 B'.recv(block=False) must report emptiness.

Expected: RuntimeError("No message to receive ...") - the channel of connection 2 is empty.
Observed: B' receives "m2", a message that A' never sent.
Second part: A' then sends "n1"; B' must receive "n1" first - it receives the stale "m2".
"""
import gc
import sys
import threading

from netqasm.sdk.classical_communication.thread_socket import (
    ThreadSocket,
    reset_socket_hub,
)


def open_pair():
    box = {}

    def run(me, other):
        box[me] = ThreadSocket(me, other, timeout=5)

    threads = [
        threading.Thread(target=run, args=("A", "B")),
        threading.Thread(target=run, args=("B", "A")),
    ]
    [t.start() for t in threads]
    [t.join() for t in threads]
    return box.pop("A"), box.pop("B")


reset_socket_hub()
failures = []

# connection 1
a, b = open_pair()
a.send("m1")
a.send("m2")
assert b.recv(block=False) == "m1"
del a, b
gc.collect()

# connection 2
a, b = open_pair()
try:
    got = b.recv(block=False)
    print(f"non-blocking receive on the empty channel of connection 2 returned {got!r}")
    failures.append("stale message instead of emptiness")
except RuntimeError as exc:
    print("non-blocking receive reports emptiness:", exc)
del a, b
gc.collect()

# same thing, seen as an ordering / exactly-once failure
reset_socket_hub()
a, b = open_pair()
a.send("m1")
a.send("m2")
assert b.recv(block=False) == "m1"
del a, b
gc.collect()
a, b = open_pair()
a.send("n1")
first = b.recv(block=False)
print(f"connection 2: sent ['n1'], first message received: {first!r}")
if first != "n1":
    failures.append("first message of connection 2 is not the first message sent on it")

print("expected: emptiness, then 'n1'")
if failures:
    print("VIOLATION:", "; ".join(failures))
    sys.exit(1)
print("ok")
