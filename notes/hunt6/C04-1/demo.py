"""C04 finding 1: ret_arr hands the executor's own list to the shared memory.

After `ret_arr @0` every later `store` / `undef` on @0 shows up in the host-visible
shared memory immediately, although no ret_arr instruction published it (and the
aliasing also works backwards: a host that edits what it read edits the executor's array).
"""
import sys

from netqasm.backend.executor import Executor
from netqasm.lang.parsing import parse_text_subroutine
from netqasm.sdk.shared_memory import SharedMemoryManager

SharedMemoryManager.reset_memories()
ex = Executor(name="c04_demo1")
ex.init_new_application(app_id=0, max_qubits=1)
shm = SharedMemoryManager.get_shared_memory("c04_demo1", key=0)

HDR = "# NETQASM 1.0\n# APPID 0\n"
sub1 = parse_text_subroutine(
    HDR
    + """
set R0 3
array R0 @0
set R1 0
set R2 7
store R2 @0[R1]
ret_arr @0
set R1 1
set R2 9
store R2 @0[R1]
"""
)
# a second subroutine of the same application, which returns nothing at all
sub2 = parse_text_subroutine(
    HDR
    + """
set R1 0
undef @0[R1]
set R1 2
set R2 5
store R2 @0[R1]
"""
)

failures = []

ex.consume_execute_subroutine(sub1)
expected = [7, None, None]  # the array as it was when ret_arr (line 5) executed
got = list(shm.get_array_part(0, slice(0, 3)))
print(f"after subroutine 1: shared memory @0 expected {expected}, got {got}")
if got != expected:
    failures.append("store after ret_arr (same subroutine) is visible to the host")

ex.consume_execute_subroutine(sub2)
got = list(shm.get_array_part(0, slice(0, 3)))
print(f"after subroutine 2 (no ret_arr in it): expected {expected}, got {got}")
if got != expected:
    failures.append("stores/undef of a later subroutine without ret_arr are visible to the host")

# the other direction: the host edits the list it was given
host_view = shm._get_array(0)
before = list(ex._app_arrays[0]._get_array(0))
host_view[0] = 12345
after = list(ex._app_arrays[0]._get_array(0))
host_view[0] = before[0]
print(f"executor array before host edit {before}, after host edit {after}")
if after != before:
    failures.append("editing the returned list on the host changes the executor's array")

if failures:
    print("VIOLATION:")
    for f in failures:
        print("  -", f)
    sys.exit(1)
print("ok")
