"""C11 / finding 1: create_rsp / recv_rsp with min_fidelity_all_at_end.

A remote-state-preparation request with `min_fidelity_all_at_end` is wrapped in a retry loop
(`Builder.sdk_create_epr_rsp` / `sdk_recv_epr_rsp`), but - unlike the keep variant - the
entanglement-results array is not reset between the attempts. From the second attempt on
`wait_all` falls through on the stale values of attempt 1, the exit condition keeps reading
attempt 1's duration, and the loop fires `max_tries` requests at the network stack without
waiting for any of them. The result handles show the rejected first attempt.

Expected (and what create_keep / recv_keep do with the very same link-layer behaviour):
attempts 1 and 2 are too slow, attempt 3 is fast enough -> exactly 3 requests reach the
stack, and the handles read the responses of attempt 3.
"""
# ---------------------------------------------------------------------------------------
# Minimal in-process setup: SDK connection -> QNodeController -> Executor -> network stack.
# Only public extension points of the package are used (the Executor / QNodeController /
# BaseNetworkStack / BaseNetQASMConnection base classes are meant to be subclassed).
# ---------------------------------------------------------------------------------------
import itertools
import logging
import sys

from netqasm.backend.executor import Executor
from netqasm.backend.messages import deserialize_host_msg
from netqasm.backend.network_stack import BaseNetworkStack
from netqasm.backend.qnodeos import QNodeController
from netqasm.qlink_compat import (
    BellState,
    ErrorCode,
    LinkLayerErr,
    LinkLayerOKTypeK,
    LinkLayerOKTypeM,
    ReturnType,
    TimeUnit,
)
from netqasm.sdk.connection import BaseNetQASMConnection
from netqasm.sdk.epr_socket import EPRSocket
from netqasm.sdk.network import NetworkInfo
from netqasm.sdk.shared_memory import SharedMemoryManager

logging.disable(logging.WARNING)
NODE_IDS = {"alice": 0, "bob": 1}


class Info(NetworkInfo):
    @classmethod
    def _get_node_id(cls, node_name):
        return NODE_IDS[node_name]

    @classmethod
    def _get_node_name(cls, node_id):
        return {v: k for k, v in NODE_IDS.items()}[node_id]

    @classmethod
    def get_node_id_for_app(cls, app_name):
        return NODE_IDS[app_name]

    @classmethod
    def get_node_name_for_app(cls, app_name):
        return app_name


class Stack(BaseNetworkStack):
    """Records the requests it is given."""

    def __init__(self):
        self.requests = []

    def put(self, request):
        self.requests.append(request)

    def setup_epr_socket(self, epr_socket_id, remote_node_id, remote_epr_socket_id, timeout=1.0):
        return None

    def get_purpose_id(self, remote_node_id, epr_socket_id):
        return epr_socket_id


class Exec(Executor):
    """Executor of node 0 ("alice"). Whenever a subroutine waits, the next response of the
    link layer (`self.next_response(self)`) is delivered through `_handle_epr_response`."""

    next_response = None  # callable(executor) -> response or None
    gates = None  # list of (mnemonic, virtual qubit ID) of the gates that were executed

    @property
    def node_id(self):
        return 0

    def _wait_to_handle_epr_responses(self):
        return None  # nothing to do now: tried again at the next wait

    def _do_wait(self):
        response = self.next_response(self) if self.next_response else None
        if response is None:
            before = len(self._pending_epr_responses)
            self._handle_pending_epr_responses()
            if len(self._pending_epr_responses) == before:
                raise TimeoutError("the subroutine waits, but the link layer has nothing more to deliver")
            return None
        self._handle_epr_response(response)
        return None

    def _do_single_qubit_instr(self, instr, subroutine_id, address):
        if self.gates is not None:
            self.gates.append((instr.mnemonic, address))

    def _do_single_qubit_rotation(self, instr, subroutine_id, address, angle):
        if self.gates is not None:
            self.gates.append((instr.mnemonic, address))


class Ctrl(QNodeController):
    @classmethod
    def _get_executor_class(cls, flavour=None):
        return Exec

    def stop(self):
        pass

    def _mark_message_finished(self, msg_id, msg):
        pass


class Conn(BaseNetQASMConnection):
    def __init__(self, *args, ctrl=None, **kwargs):
        self._ctrl = ctrl
        self._msg_ids = itertools.count()
        super().__init__(*args, **kwargs)

    def _commit_serialized_message(self, raw_msg, block=True, callback=None):
        msg = deserialize_host_msg(raw_msg)
        list(self._ctrl.handle_netqasm_message(next(self._msg_ids), msg))
        if callback is not None:
            callback()

    def _get_network_info(self):
        return Info


def new_node(**conn_kwargs):
    SharedMemoryManager.reset_memories()
    ctrl = Ctrl(name="alice")
    stack = Stack()
    ctrl.network_stack = stack
    sock = EPRSocket("bob")
    conn = Conn("alice", ctrl=ctrl, epr_sockets=[sock], **conn_kwargs)
    return conn, sock, ctrl._executor, stack


# ---------------------------------------------------------------------------------------
from netqasm.sdk.build_nv import NVEprCompiler

NUMBER = 2
MAX_TRIES = 5
MAX_TIME = NVEprCompiler.get_max_time_for_fidelity(80)  # 28000: a pair may take at most this long
DURATION_OF_ATTEMPT = [10**6, 10**6, 5, 5, 5]  # "goodness" (generation duration) per attempt
failures = []


def run(kind):
    conn, sock, ex, stack = new_node()
    served = {"n": 0}

    def next_response(executor):
        # The link layer answers the requests in the order they were made, pair by pair.
        attempt, pair = divmod(served["n"], NUMBER)
        if kind.startswith("create"):
            if attempt >= len(stack.requests):
                return None
        else:
            if attempt >= MAX_TRIES:
                return None
        served["n"] += 1
        duration = DURATION_OF_ATTEMPT[attempt]
        base = 1000 * (attempt + 1) + 10 * pair
        d = 0 if kind.startswith("create") else 1
        if kind == "create_rsp":
            # (the creator of an R request gets measure-type responses)
            return LinkLayerOKTypeM(
                type=ReturnType.OK_M, create_id=base, measurement_outcome=pair % 2, measurement_basis=0,
                directionality_flag=d, sequence_number=base + 1, purpose_id=0, remote_node_id=1,
                goodness=duration, bell_state=BellState.PHI_PLUS,
            )
        return LinkLayerOKTypeK(
            type=ReturnType.OK_K, create_id=base, logical_qubit_id=pair, directionality_flag=d,
            sequence_number=base + 1, purpose_id=0, remote_node_id=1, goodness=duration,
            goodness_time=base + 2, bell_state=BellState.PHI_PLUS,
        )

    ex.next_response = next_response
    with conn:
        if kind == "create_rsp":
            results = sock.create_rsp(number=NUMBER, min_fidelity_all_at_end=80, max_tries=MAX_TRIES)
        elif kind == "recv_rsp":
            _, results = sock.recv_rsp_with_info(number=NUMBER, min_fidelity_all_at_end=80, max_tries=MAX_TRIES)
        elif kind == "create_keep":  # reference: this one behaves
            # (create_keep_with_info has no max_tries argument, so go through the builder)
            from netqasm.sdk.build_epr import EntRequestParams

            _, results = conn.builder.sdk_create_epr_keep(params=EntRequestParams(
                remote_node_id=1, epr_socket_id=0, number=NUMBER, post_routine=None, sequential=False,
                min_fidelity_all_at_end=80, max_tries=MAX_TRIES))
        elif kind == "recv_keep":  # reference: this one behaves
            _, results = sock.recv_keep_with_info(number=NUMBER, min_fidelity_all_at_end=80, max_tries=MAX_TRIES)
        try:
            conn.flush()
        except Exception as exc:  # noqa
            print(f"  {kind}: flush raised {type(exc).__name__}: {str(exc).splitlines()[0]}")
        if kind.startswith("create"):
            made = len(stack.requests)
            open_requests = sum(len(v) for v in ex._epr_create_requests.values())
        else:
            open_requests = sum(len(v) for v in ex._epr_recv_requests.values())
            made = served["n"] // NUMBER + open_requests
        durations = [r.generation_duration.value for r in results]
    print(f"  {kind}: requests made = {made}, requests still open in the executor = {open_requests}, "
          f"durations read by the handles = {durations} (limit {MAX_TIME})")
    ok = made == 3 and open_requests == 0 and durations == [5] * NUMBER
    return ok


print("reference (keep requests with the same option):")
for kind in ("create_keep", "recv_keep"):
    if not run(kind):
        print("  !! even the reference does not behave; the demo's model is off")
        sys.exit(2)
print("remote state preparation:")
for kind in ("create_rsp", "recv_rsp"):
    if not run(kind):
        failures.append(kind)

if failures:
    print(f"VIOLATION for {failures}: expected 3 requests (two slow attempts, one good one), no request left "
          f"open, and handles that read the accepted attempt (duration 5).")
    sys.exit(1)
print("OK")
