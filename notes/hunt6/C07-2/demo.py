"""C07 finding 2: the published matrix of a rotation is the identity when its numerator is a
measurement outcome (a resolved Future - an `int` subclass that carries its value in `__int__`),
although the instruction prints, encodes and is executed as the rotation by n * pi / 2**d.

    m = q.measure(inplace=True); conn.flush()      # backend delivers m = 1
    q.rot_X(n=m, d=0)                              # "X correction if m == 1": rotation by m * pi

Expected: the vanilla instruction `rot_x Q0 1 0`, and the NV instruction the transpiler emits for it,
          publish the matrix of an X rotation by pi (= X up to global phase) - the operator that the
          encoded instruction denotes.
Observed: both publish the 2x2 identity.
"""
import sys

import numpy as np

from netqasm.lang.instr import core, nv, vanilla
from netqasm.lang.instr.flavour import NVFlavour, VanillaFlavour
from netqasm.lang.parsing import deserialize
from netqasm.sdk import Qubit
from netqasm.sdk.connection import DebugConnection
from netqasm.sdk.shared_memory import SharedMemory
from netqasm.sdk.transpile import NVSubroutineTranspiler


class Conn(DebugConnection):
    """DebugConnection with a shared memory that lasts (the demo plays the backend)."""

    _mem = None

    @property
    def shared_memory(self):
        if self._mem is None:
            self._mem = SharedMemory()
        return self._mem


def same_up_to_phase(A, B):
    i = np.unravel_index(np.argmax(abs(A)), A.shape)
    return abs(B[i]) > 1e-9 and np.allclose(A, (A[i] / B[i]) * B, atol=1e-8)


def rotation_of(compiler, flavour):
    with Conn("Alice", compiler=compiler) as conn:
        q = Qubit(conn)
        m = q.measure(inplace=True)
        conn.flush()
        # the backend writes the outcome 1 into the shared memory
        conn.shared_memory.init_new_array(m._address, 1)
        conn.shared_memory.set_array_part(m._address, m._index, 1)
        assert m == 1 and isinstance(m, int)

        q.rot_X(n=m, d=0)  # rotation about X by m * pi
        sub = conn.compile()
        sub.instantiate(conn.app_id)
    (rot,) = [i for i in sub.instructions if isinstance(i, core.RotationInstruction)]
    (wire,) = [
        i
        for i in deserialize(bytes(sub), flavour=flavour).instructions
        if isinstance(i, core.RotationInstruction)
    ]
    return rot, wire


X_ROT_PI = np.array([[0, -1j], [-1j, 0]])  # exp(-i pi X / 2)
failed = False
for name, compiler, flavour, cls in [
    ("vanilla", None, VanillaFlavour(), vanilla.RotXInstruction),
    ("NV (transpiled)", NVSubroutineTranspiler, NVFlavour(), nv.RotXInstruction),
]:
    rot, wire = rotation_of(compiler, flavour)
    assert type(rot) is cls and type(wire) is cls
    published = rot.to_matrix()
    print(f"[{name}] instruction as built by the SDK : {rot}")
    print(f"[{name}] instruction after encoding      : {wire}")
    print(f"[{name}] EXPECTED published matrix (X rotation by 1*pi/2**0):\n{X_ROT_PI}")
    print(f"[{name}] OBSERVED published matrix:\n{np.round(published, 6)}")
    ok = same_up_to_phase(X_ROT_PI, published) and same_up_to_phase(
        wire.to_matrix(), published
    )
    print(f"[{name}] {'ok' if ok else 'MISMATCH: the matrix is not the operator `' + str(rot) + '` denotes'}\n")
    failed |= not ok

sys.exit(1 if failed else 0)
