"""C11 / finding 4: single-communication-qubit (NV) hardware configuration + a remote-state-preparation
receive (or an EPR context) of more than one pair: pair 0's response can never be delivered.

On NV every pair arrives in virtual qubit 0 and has to be moved to a memory qubit. Only
`Builder.sdk_epr_keep` (create_keep / recv_keep) does that. `sdk_epr_rsp_recv` (recv_rsp) and
`_pre_epr_context` (create_context / recv_context) call the same helper that reserves - and
allocates - the memory qubits, but then hand those *already allocated* IDs to recv_epr / create_epr
as the places where the pairs should arrive. The executor finds the target of pair 0 in use, defers
the response ("virtual address is in use, will wait and try again") and the subroutine waits forever:
no result handle ever reads its pair's response.

Controls: recv_keep(number=2) on NV, and recv_rsp(number=2) on generic hardware, complete and their
handles read pair i's fields.
"""
# ---------------------------------------------------------------------------------------
# Minimal in-process setup: SDK connection -> QNodeController -> Executor -> network stack.
# Only public extension points of the package are used (the Executor / QNodeController /
# BaseNetworkStack / BaseNetQASMConnection base classes are meant to be subclassed).
# ---------------------------------------------------------------------------------------
import itertools
import logging
import sys

from netqasm.backend.executor import Executor
from netqasm.backend.messages import deserialize_host_msg
from netqasm.backend.network_stack import BaseNetworkStack
from netqasm.backend.qnodeos import QNodeController
from netqasm.qlink_compat import (
    BellState,
    ErrorCode,
    LinkLayerErr,
    LinkLayerOKTypeK,
    LinkLayerOKTypeM,
    ReturnType,
    TimeUnit,
)
from netqasm.sdk.connection import BaseNetQASMConnection
from netqasm.sdk.epr_socket import EPRSocket
from netqasm.sdk.network import NetworkInfo
from netqasm.sdk.shared_memory import SharedMemoryManager

logging.disable(logging.WARNING)
NODE_IDS = {"alice": 0, "bob": 1}


class Info(NetworkInfo):
    @classmethod
    def _get_node_id(cls, node_name):
        return NODE_IDS[node_name]

    @classmethod
    def _get_node_name(cls, node_id):
        return {v: k for k, v in NODE_IDS.items()}[node_id]

    @classmethod
    def get_node_id_for_app(cls, app_name):
        return NODE_IDS[app_name]

    @classmethod
    def get_node_name_for_app(cls, app_name):
        return app_name


class Stack(BaseNetworkStack):
    """Records the requests it is given."""

    def __init__(self):
        self.requests = []

    def put(self, request):
        self.requests.append(request)

    def setup_epr_socket(self, epr_socket_id, remote_node_id, remote_epr_socket_id, timeout=1.0):
        return None

    def get_purpose_id(self, remote_node_id, epr_socket_id):
        return epr_socket_id


class Exec(Executor):
    """Executor of node 0 ("alice"). Whenever a subroutine waits, the next response of the
    link layer (`self.next_response(self)`) is delivered through `_handle_epr_response`."""

    next_response = None  # callable(executor) -> response or None
    gates = None  # list of (mnemonic, virtual qubit ID) of the gates that were executed

    @property
    def node_id(self):
        return 0

    def _wait_to_handle_epr_responses(self):
        return None  # nothing to do now: tried again at the next wait

    def _do_wait(self):
        response = self.next_response(self) if self.next_response else None
        if response is None:
            before = len(self._pending_epr_responses)
            self._handle_pending_epr_responses()
            if len(self._pending_epr_responses) == before:
                raise TimeoutError("the subroutine waits, but the link layer has nothing more to deliver")
            return None
        self._handle_epr_response(response)
        return None

    def _do_single_qubit_instr(self, instr, subroutine_id, address):
        if self.gates is not None:
            self.gates.append((instr.mnemonic, address))

    def _do_single_qubit_rotation(self, instr, subroutine_id, address, angle):
        if self.gates is not None:
            self.gates.append((instr.mnemonic, address))


class Ctrl(QNodeController):
    @classmethod
    def _get_executor_class(cls, flavour=None):
        return Exec

    def stop(self):
        pass

    def _mark_message_finished(self, msg_id, msg):
        pass


class Conn(BaseNetQASMConnection):
    def __init__(self, *args, ctrl=None, **kwargs):
        self._ctrl = ctrl
        self._msg_ids = itertools.count()
        super().__init__(*args, **kwargs)

    def _commit_serialized_message(self, raw_msg, block=True, callback=None):
        msg = deserialize_host_msg(raw_msg)
        list(self._ctrl.handle_netqasm_message(next(self._msg_ids), msg))
        if callback is not None:
            callback()

    def _get_network_info(self):
        return Info


def new_node(**conn_kwargs):
    SharedMemoryManager.reset_memories()
    ctrl = Ctrl(name="alice")
    stack = Stack()
    ctrl.network_stack = stack
    sock = EPRSocket("bob")
    conn = Conn("alice", ctrl=ctrl, epr_sockets=[sock], **conn_kwargs)
    return conn, sock, ctrl._executor, stack


# ---------------------------------------------------------------------------------------
from netqasm.lang.instr.flavour import NVFlavour
from netqasm.sdk.build_types import NVHardwareConfig
from netqasm.sdk.transpile import NVSubroutineTranspiler


def new_nv_node():
    SharedMemoryManager.reset_memories()
    ctrl = Ctrl(name="alice", flavour=NVFlavour())
    stack = Stack()
    ctrl.network_stack = stack
    sock = EPRSocket("bob")
    conn = Conn("alice", ctrl=ctrl, epr_sockets=[sock], hardware_config=NVHardwareConfig(4),
                compiler=NVSubroutineTranspiler)
    return conn, sock, ctrl._executor, stack


def ok_k(pair, directionality):
    return LinkLayerOKTypeK(
        type=ReturnType.OK_K, create_id=10 + pair, logical_qubit_id=20 + pair,
        directionality_flag=directionality, sequence_number=30 + pair, purpose_id=0, remote_node_id=1,
        goodness=40 + pair, goodness_time=50 + pair, bell_state=BellState.PHI_PLUS,
    )


NUMBER = 2


def run(name, node, build, directionality):
    """build(conn, sock) queues the request and returns the list of (duration) futures, or None."""
    conn, sock, ex, stack = node()
    script = [ok_k(i, directionality) for i in range(NUMBER)]
    ex.next_response = lambda executor: script.pop(0) if script else None
    ok = True
    with conn:
        durations = build(conn, sock)
        try:
            conn.flush()
        except TimeoutError as exc:
            deferred = len(ex._pending_epr_responses)
            print(f"  {name}: HANGS - {str(exc).splitlines()[0][:110]}")
            print(f"      responses delivered by the link layer but never handled: {deferred} of {NUMBER}")
            ok = False
            conn._clear_app_on_exit = False  # (the application is stuck; do not try to clean up)
        if ok and durations is not None:
            got = [d.value for d in durations]
            want = [40 + i for i in range(NUMBER)]
            print(f"  {name}: completes, handles read durations {got} (expected {want})")
            ok = got == want
        elif ok:
            print(f"  {name}: completes")
    return ok


def recv_keep(conn, sock):
    return [r.generation_duration for r in sock.recv_keep_with_info(number=NUMBER)[1]]


def recv_rsp(conn, sock):
    return [r.generation_duration for r in sock.recv_rsp_with_info(number=NUMBER)[1]]


def create_context(conn, sock):
    with sock.create_context(number=NUMBER) as (q, pair):
        q.measure()


def recv_context(conn, sock):
    with sock.recv_context(number=NUMBER) as (q, pair):
        q.measure()


print("controls:")
assert run("recv_keep(2) on NV", new_nv_node, recv_keep, 1)
assert run("recv_rsp(2) on generic hardware", new_node, recv_rsp, 1)
assert run("create_context(2) on generic hardware", new_node, create_context, 0)
print("NV hardware configuration (NVHardwareConfig(4), NV compiler, NV flavour):")
bad = [name for name, build, d in (
    ("recv_rsp(2)", recv_rsp, 1),
    ("create_context(2)", create_context, 0),
    ("recv_context(2)", recv_context, 1),
) if not run(name + " on NV", new_nv_node, build, d)]
if bad:
    print("VIOLATION:", bad, "- the link layer's responses cannot be delivered, the result handles never get pair i's fields")
    sys.exit(1)
print("OK")
