"""C11 / finding 4: remote-state-preparation (type R) requests and responses cannot cross the
qlink-interface 1.0 boundary, and the R-specific response of the built-in interface is refused too.

create_rsp(...) reaches the network stack as LinkLayerCreate(type=R, ...) with the right values,
but `qlink_compat.request_to_qlink_1_0` - the conversion a qlink-interface-1.0 stack has to use -
refuses it, although the interface has `ReqRemoteStatePrep` with exactly these fields.
In the other direction neither `qlink_1_0.ResRemoteStatePrep` nor netqasm's own
`LinkLayerOKTypeR` is accepted by `Executor._handle_epr_response`.
K and M requests / responses (the controls below) pass.
"""
# ---------------------------------------------------------------------------------------
# Minimal in-process setup: SDK connection -> QNodeController -> Executor -> network stack.
# Only public extension points of the package are used (the Executor / QNodeController /
# BaseNetworkStack / BaseNetQASMConnection base classes are meant to be subclassed).
# ---------------------------------------------------------------------------------------
import itertools
import logging
import sys

from netqasm.backend.executor import Executor
from netqasm.backend.messages import deserialize_host_msg
from netqasm.backend.network_stack import BaseNetworkStack
from netqasm.backend.qnodeos import QNodeController
from netqasm.qlink_compat import (
    BellState,
    ErrorCode,
    LinkLayerErr,
    LinkLayerOKTypeK,
    LinkLayerOKTypeM,
    ReturnType,
    TimeUnit,
)
from netqasm.sdk.connection import BaseNetQASMConnection
from netqasm.sdk.epr_socket import EPRSocket
from netqasm.sdk.network import NetworkInfo
from netqasm.sdk.shared_memory import SharedMemoryManager

logging.disable(logging.WARNING)
NODE_IDS = {"alice": 0, "bob": 1}


class Info(NetworkInfo):
    @classmethod
    def _get_node_id(cls, node_name):
        return NODE_IDS[node_name]

    @classmethod
    def _get_node_name(cls, node_id):
        return {v: k for k, v in NODE_IDS.items()}[node_id]

    @classmethod
    def get_node_id_for_app(cls, app_name):
        return NODE_IDS[app_name]

    @classmethod
    def get_node_name_for_app(cls, app_name):
        return app_name


class Stack(BaseNetworkStack):
    """Records the requests it is given."""

    def __init__(self):
        self.requests = []

    def put(self, request):
        self.requests.append(request)

    def setup_epr_socket(self, epr_socket_id, remote_node_id, remote_epr_socket_id, timeout=1.0):
        return None

    def get_purpose_id(self, remote_node_id, epr_socket_id):
        return epr_socket_id


class Exec(Executor):
    """Executor of node 0 ("alice"). Whenever a subroutine waits, the next response of the
    link layer (`self.next_response(self)`) is delivered through `_handle_epr_response`."""

    next_response = None  # callable(executor) -> response or None
    gates = None  # list of (mnemonic, virtual qubit ID) of the gates that were executed

    @property
    def node_id(self):
        return 0

    def _wait_to_handle_epr_responses(self):
        return None  # nothing to do now: tried again at the next wait

    def _do_wait(self):
        response = self.next_response(self) if self.next_response else None
        if response is None:
            before = len(self._pending_epr_responses)
            self._handle_pending_epr_responses()
            if len(self._pending_epr_responses) == before:
                raise TimeoutError("the subroutine waits, but the link layer has nothing more to deliver")
            return None
        self._handle_epr_response(response)
        return None

    def _do_single_qubit_instr(self, instr, subroutine_id, address):
        if self.gates is not None:
            self.gates.append((instr.mnemonic, address))

    def _do_single_qubit_rotation(self, instr, subroutine_id, address, angle):
        if self.gates is not None:
            self.gates.append((instr.mnemonic, address))


class Ctrl(QNodeController):
    @classmethod
    def _get_executor_class(cls, flavour=None):
        return Exec

    def stop(self):
        pass

    def _mark_message_finished(self, msg_id, msg):
        pass


class Conn(BaseNetQASMConnection):
    def __init__(self, *args, ctrl=None, **kwargs):
        self._ctrl = ctrl
        self._msg_ids = itertools.count()
        super().__init__(*args, **kwargs)

    def _commit_serialized_message(self, raw_msg, block=True, callback=None):
        msg = deserialize_host_msg(raw_msg)
        list(self._ctrl.handle_netqasm_message(next(self._msg_ids), msg))
        if callback is not None:
            callback()

    def _get_network_info(self):
        return Info


def new_node(**conn_kwargs):
    SharedMemoryManager.reset_memories()
    ctrl = Ctrl(name="alice")
    stack = Stack()
    ctrl.network_stack = stack
    sock = EPRSocket("bob")
    conn = Conn("alice", ctrl=ctrl, epr_sockets=[sock], **conn_kwargs)
    return conn, sock, ctrl._executor, stack


# ---------------------------------------------------------------------------------------
import qlink_interface as ql

from netqasm.qlink_compat import LinkLayerOKTypeR, RandomBasis, request_to_qlink_1_0

failures = []


def run(kind, make_response):
    """Issue a 1-pair request of the given kind, convert what the stack got to qlink 1.0,
    answer with make_response() and return (converted request, values read by the handle)."""
    conn, sock, ex, stack = new_node()
    script = []
    ex.next_response = lambda executor: script.pop(0) if script else None
    converted = values = None
    with conn:
        if kind == "R":
            res = sock.create_rsp(number=1, time_unit=TimeUnit.MILLI_SECONDS, max_time=9,
                                  rotations_local=(1, 2, 3), random_basis_local=RandomBasis.XZ)
        elif kind == "M":
            res = sock.create_measure(number=1, time_unit=TimeUnit.MILLI_SECONDS, max_time=9,
                                      rotations_local=(1, 2, 3), random_basis_local=RandomBasis.XZ)
        else:
            res = sock.create_keep_with_info(number=1, time_unit=TimeUnit.MILLI_SECONDS, max_time=9)[1]
        script[:] = [make_response()]
        try:
            conn.flush()
        except Exception as exc:  # noqa
            print(f"  [{kind}] response refused: {type(exc).__name__}: {str(exc).splitlines()[0][:120]}")
            failures.append(f"{kind} response")
        request = stack.requests[0]
        print(f"  [{kind}] the stack received: type={request.type.name} number={request.number} "
              f"time_unit={request.time_unit} max_time={request.max_time} "
              f"rot_local=({request.rotation_X_local1},{request.rotation_Y_local},{request.rotation_X_local2}) "
              f"random_basis_local={request.random_basis_local.name}")
        try:
            converted = request_to_qlink_1_0(request)
            print(f"  [{kind}] as qlink 1.0 request: {converted}")
        except Exception as exc:  # noqa
            print(f"  [{kind}] request_to_qlink_1_0 refused it: {type(exc).__name__}: {exc}"[:200])
            failures.append(f"{kind} request")
        r = res[0]
        values = (r.generation_duration.value, r.raw_bell_state.value, r.remote_node_id.value)
    return converted, values


common = dict(create_id=3, directionality_flag=0, sequence_number=4, purpose_id=0, remote_node_id=1,
              goodness=77, bell_state=ql.BellState.PSI_PLUS)
print("controls (K, M) through qlink-interface 1.0:")
conv, vals = run("K", lambda: ql.ResCreateAndKeep(logical_qubit_id=0, time_of_goodness=5, **common))
assert isinstance(conv, ql.ReqCreateAndKeep) and vals == (77, BellState.PSI_PLUS.value, 1), (conv, vals)
conv, vals = run("M", lambda: ql.ResMeasureDirectly(measurement_outcome=1, measurement_basis=ql.MeasurementBasis.X, **common))
assert isinstance(conv, ql.ReqMeasureDirectly) and vals == (77, BellState.PSI_PLUS.value, 1), (conv, vals)
assert not failures, failures

print("type R, qlink-interface 1.0 response (ResRemoteStatePrep):")
conv, vals = run("R", lambda: ql.ResRemoteStatePrep(measurement_outcome=1, measurement_basis=ql.MeasurementBasis.X, **common))
expected_req = ql.ReqRemoteStatePrep(
    remote_node_id=1, minimum_fidelity=0, time_unit=1, max_time=9, purpose_id=0, number=1, priority=0,
    atomic=0, consecutive=0, random_basis_local=ql.RandomBasis.XZ, x_rotation_angle_local_1=1,
    y_rotation_angle_local=2, x_rotation_angle_local_2=3)
if conv != expected_req:
    print("  expected qlink 1.0 request:", expected_req)
if vals != (77, BellState.PSI_PLUS.value, 1):
    print("  handle reads (duration, bell state, remote node) =", vals, "- expected (77, 1, 1)")

print("type R, built-in response type LinkLayerOKTypeR:")
failures_before = len(failures)
run("R", lambda: LinkLayerOKTypeR(type=ReturnType.OK_R, create_id=3, measurement_outcome=1, directionality_flag=0,
                                  sequence_number=4, purpose_id=0, remote_node_id=1, goodness=77,
                                  bell_state=BellState.PSI_PLUS))

if failures:
    print("VIOLATION:", sorted(set(failures)), "- type R is inside the domain (K/M/R), the link-layer interface has "
          "ReqRemoteStatePrep / ResRemoteStatePrep / LinkLayerOKTypeR for it, but none of them gets across")
    sys.exit(1)
print("OK")
