"""
C03 - a label whose name reads like a register (R1, C2, Q0, M3 ...) is accepted where it is
defined, but a branch to it does not land anywhere: the operand is parsed as a register
before it is tried as a label, and the assembler stops with a bare AssertionError.
"""
import sys

from netqasm.backend.executor import Executor
from netqasm.lang.encoding import RegisterName
from netqasm.lang.operand import Register
from netqasm.lang.parsing import parse_text_subroutine
from netqasm.sdk.shared_memory import SharedMemoryManager
from netqasm.util.string import is_variable_name

TEMPLATE = """
# APPID 0
set R0 0
{label}:
add R0 R0 1
blt R0 5 {label}
jmp {label}_end
add R0 R0 100
{label}_end:
ret_reg R0
"""


def execute(text):
    subroutine = parse_text_subroutine(text)
    SharedMemoryManager.reset_memories()
    executor = Executor()
    executor.init_new_application(app_id=0, max_qubits=1)
    list(executor.execute_subroutine(subroutine=subroutine))
    return executor._get_register(0, Register(RegisterName.R, 0))


failed = False
for label in ["LOOP", "R", "C2x", "C2", "R1", "Q0", "M15"]:
    assert is_variable_name(label)  # the parser's own rule for label names
    text = TEMPLATE.format(label=label)
    try:
        got = execute(text)
        outcome = f"R0 == {got}"
        ok = got == 5
    except BaseException as exc:  # AssertionError
        outcome = f"{type(exc).__name__}({exc})"
        ok = False
    print(f"label {label!r:7}: expected R0 == 5, got {outcome}")
    failed |= not ok

if failed:
    print("\nVIOLATION: a branch to a defined label did not land on the instruction after the label")
    sys.exit(1)
print("\nok")
