"""C11 / finding 2: after the link layer reported an error, the failed request stays at the head
of the executor's request queue, and every later response on that socket is attributed to the
wrong request / the wrong pair.

History (receiving side, measure-directly pairs, everything else default):
  1. alice: recv_measure(number=2)            -> request A
     link layer: pair 0 of A, then an error (TIMEOUT) -> the subroutine fails with a RuntimeError.
     That refusal is loud and fine.
  2. alice tries again: recv_measure(number=2) -> request B
     link layer: the remote node creates 2 pairs (X0, X1), and a bit later 2 more (Y0, Y1).
Expected: B's handle 0 reads X0 and handle 1 reads X1.
Observed: X0 is written into the array of the dead request A, handle 0 reads X1 and
handle 1 reads Y0 - and it stays shifted like that for every later request on the socket.
"""
# ---------------------------------------------------------------------------------------
# Minimal in-process setup: SDK connection -> QNodeController -> Executor -> network stack.
# Only public extension points of the package are used (the Executor / QNodeController /
# BaseNetworkStack / BaseNetQASMConnection base classes are meant to be subclassed).
# ---------------------------------------------------------------------------------------
import itertools
import logging
import sys

from netqasm.backend.executor import Executor
from netqasm.backend.messages import deserialize_host_msg
from netqasm.backend.network_stack import BaseNetworkStack
from netqasm.backend.qnodeos import QNodeController
from netqasm.qlink_compat import (
    BellState,
    ErrorCode,
    LinkLayerErr,
    LinkLayerOKTypeK,
    LinkLayerOKTypeM,
    ReturnType,
    TimeUnit,
)
from netqasm.sdk.connection import BaseNetQASMConnection
from netqasm.sdk.epr_socket import EPRSocket
from netqasm.sdk.network import NetworkInfo
from netqasm.sdk.shared_memory import SharedMemoryManager

logging.disable(logging.WARNING)
NODE_IDS = {"alice": 0, "bob": 1}


class Info(NetworkInfo):
    @classmethod
    def _get_node_id(cls, node_name):
        return NODE_IDS[node_name]

    @classmethod
    def _get_node_name(cls, node_id):
        return {v: k for k, v in NODE_IDS.items()}[node_id]

    @classmethod
    def get_node_id_for_app(cls, app_name):
        return NODE_IDS[app_name]

    @classmethod
    def get_node_name_for_app(cls, app_name):
        return app_name


class Stack(BaseNetworkStack):
    """Records the requests it is given."""

    def __init__(self):
        self.requests = []

    def put(self, request):
        self.requests.append(request)

    def setup_epr_socket(self, epr_socket_id, remote_node_id, remote_epr_socket_id, timeout=1.0):
        return None

    def get_purpose_id(self, remote_node_id, epr_socket_id):
        return epr_socket_id


class Exec(Executor):
    """Executor of node 0 ("alice"). Whenever a subroutine waits, the next response of the
    link layer (`self.next_response(self)`) is delivered through `_handle_epr_response`."""

    next_response = None  # callable(executor) -> response or None
    gates = None  # list of (mnemonic, virtual qubit ID) of the gates that were executed

    @property
    def node_id(self):
        return 0

    def _wait_to_handle_epr_responses(self):
        return None  # nothing to do now: tried again at the next wait

    def _do_wait(self):
        response = self.next_response(self) if self.next_response else None
        if response is None:
            before = len(self._pending_epr_responses)
            self._handle_pending_epr_responses()
            if len(self._pending_epr_responses) == before:
                raise TimeoutError("the subroutine waits, but the link layer has nothing more to deliver")
            return None
        self._handle_epr_response(response)
        return None

    def _do_single_qubit_instr(self, instr, subroutine_id, address):
        if self.gates is not None:
            self.gates.append((instr.mnemonic, address))

    def _do_single_qubit_rotation(self, instr, subroutine_id, address, angle):
        if self.gates is not None:
            self.gates.append((instr.mnemonic, address))


class Ctrl(QNodeController):
    @classmethod
    def _get_executor_class(cls, flavour=None):
        return Exec

    def stop(self):
        pass

    def _mark_message_finished(self, msg_id, msg):
        pass


class Conn(BaseNetQASMConnection):
    def __init__(self, *args, ctrl=None, **kwargs):
        self._ctrl = ctrl
        self._msg_ids = itertools.count()
        super().__init__(*args, **kwargs)

    def _commit_serialized_message(self, raw_msg, block=True, callback=None):
        msg = deserialize_host_msg(raw_msg)
        list(self._ctrl.handle_netqasm_message(next(self._msg_ids), msg))
        if callback is not None:
            callback()

    def _get_network_info(self):
        return Info


def new_node(**conn_kwargs):
    SharedMemoryManager.reset_memories()
    ctrl = Ctrl(name="alice")
    stack = Stack()
    ctrl.network_stack = stack
    sock = EPRSocket("bob")
    conn = Conn("alice", ctrl=ctrl, epr_sockets=[sock], **conn_kwargs)
    return conn, sock, ctrl._executor, stack


# ---------------------------------------------------------------------------------------


def ok_m(tag, outcome):
    # `tag` is used as the duration ("goodness") so that a handle shows which response it reads
    return LinkLayerOKTypeM(
        type=ReturnType.OK_M, create_id=tag, measurement_outcome=outcome, measurement_basis=0,
        directionality_flag=1, sequence_number=tag, purpose_id=0, remote_node_id=1, goodness=tag,
        bell_state=BellState.PHI_PLUS,
    )


conn, sock, ex, stack = new_node()
script = []
ex.next_response = lambda executor: script.pop(0) if script else None

with conn:
    # 1. request A fails
    res_a = sock.recv_measure(number=2)
    script[:] = [ok_m(100, 0), LinkLayerErr(create_id=7, error_code=ErrorCode.TIMEOUT)]
    try:
        conn.flush()
        print("request A: no error?!")
        sys.exit(2)
    except RuntimeError as exc:
        print("request A failed as it should:", str(exc).splitlines()[0][:110], "...")
    left = [(key, [(d.ent_results_array_address, d.pairs_left) for d in reqs])
            for key, reqs in ex._epr_recv_requests.items() if reqs]
    print("receive requests still queued in the executor after the error "
          "[(remote, purpose), [(results array, pairs left)]]:", left)

    # 2. the application tries again
    res_b = sock.recv_measure(number=2)
    X0, X1, Y0, Y1 = ok_m(500, 1), ok_m(501, 0), ok_m(600, 1), ok_m(601, 1)
    script[:] = [X0, X1, Y0, Y1]
    try:
        conn.flush()
    except Exception as exc:  # noqa
        print("request B: flush raised", type(exc).__name__, str(exc).splitlines()[0][:110])
    got = [(r.generation_duration.value, r.raw_measurement_outcome.value) for r in res_b]

expected = [(500, 1), (501, 0)]
print("request B, (duration, outcome) read by handle 0 and 1:")
print("  expected", expected, "(responses X0, X1)")
print("  got     ", got)
if got != expected:
    print("VIOLATION: the handles of request B do not read the responses of B's pairs")
    sys.exit(1)
print("OK")
