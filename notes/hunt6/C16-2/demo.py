"""C16 - operands the format cannot represent must be rejected, never silently altered.

SDK entry point: a loop bound (and the bound of a loop_until exit condition) that does not fit
the 32-bit integer of the format is rewritten on the host before the program is assembled, so
the encoder never sees it: no error, and the bytes contain another, valid-looking bound.

(The rewritten program happens to behave like Python's `range` for these inputs - zero
iterations / a test that is never true - but the unrepresentable operand is accepted silently,
while the very same value as `start` or `step`, or as `stop` of a non-empty range, is refused.)
"""
import sys

from netqasm.lang.parsing import deserialize
from netqasm.sdk.connection import DebugConnection
from netqasm.sdk.constraint import ValueAtMostConstraint
from netqasm.sdk.qubit import Qubit

failures = []


def flushed_program(build):
    DebugConnection._app_ids = {}
    conn = DebugConnection("alice")
    build(conn)
    conn.flush()
    raw = [m for m in conn.storage if m[0] == 2][-1]
    return deserialize(raw[1:])


def check(description, build, bad_value):
    try:
        subroutine = flushed_program(build)
    except OverflowError as err:
        print(f"ok      {description}: rejected ({err})")
        return
    print(f"WRONG   {description}: no error; {bad_value} is nowhere in the encoded program:")
    for i, instr in enumerate(subroutine.instructions):
        print(f"            {i:2d}  {instr}")
    failures.append(description)


def loop(start, stop, step):
    def build(conn):
        q = Qubit(conn)
        with conn.loop(stop=stop, start=start, step=step):
            q.H()

    return build


def loop_until_at_most(bound):
    def build(conn):
        q = Qubit(conn)
        value = conn.builder.new_register(7)
        with conn.loop_until(max_iterations=3) as ctx:
            q.H()
            ctx.set_exit_condition(ValueAtMostConstraint(value, bound))

    return build


# References: the same unrepresentable integer in the other positions is refused
check("loop(start=2**40, stop=2**40 + 2)", loop(2**40, 2**40 + 2, 1), 2**40)
check("loop(start=0, stop=3, step=2**40)", loop(0, 3, 2**40), 2**40)
check("loop(start=0, stop=2**40)", loop(0, 2**40, 1), 2**40)

# The violations
check("loop(start=5, stop=-2**40)", loop(5, -(2**40), 1), -(2**40))
check("loop(start=3, stop=2**40, step=-1)", loop(3, 2**40, -1), 2**40)
check(
    "loop_until exit condition ValueAtMostConstraint(reg, -2**31 - 1)",
    loop_until_at_most(-(2**31) - 1),
    -(2**31) - 1,
)

print()
if failures:
    print(
        "expected: an integer outside the 32-bit range is refused wherever it is used as a "
        f"loop bound; {len(failures)} programs were encoded with another bound instead"
    )
    sys.exit(1)
print("all unrepresentable bounds were rejected")
