"""
C03 - a literal is materialised in a register the (SDK / text) program still holds.

The assembler picks the scratch register for a literal among the R registers that are
not named *in the ProtoSubroutine it is assembling right now*.  Registers live for the
whole application (the executor keeps them between subroutines, and the SDK hands out
`RegFuture`s that are explicitly meant to be used in later subroutines:
`Builder.new_register`, `RegFuture.add`).  A later subroutine that only contains literals
therefore gets the very register the program still holds as its scratch register.
"""
import sys

from netqasm.backend.executor import Executor
from netqasm.backend.messages import deserialize_host_msg
from netqasm.lang.encoding import RegisterName
from netqasm.lang.operand import Register
from netqasm.lang.parsing import deserialize, parse_text_subroutine
from netqasm.sdk.connection import DebugConnection
from netqasm.sdk.shared_memory import SharedMemoryManager

R0 = Register(RegisterName.R, 0)
failures = []


def run_all(subroutines, app_id=0):
    SharedMemoryManager.reset_memories()
    executor = Executor()
    executor.init_new_application(app_id=app_id, max_qubits=1)
    for subroutine in subroutines:
        list(executor.execute_subroutine(subroutine=subroutine))
    return executor._get_register(app_id, R0)


# ---------------------------------------------------------------- 1. IR built by the SDK
conn = DebugConnection("alice")
with conn:
    counter = conn.builder.new_register(init_value=5)  # the program names R0
    conn.flush()
    conn.new_array(2, init_values=[1, 2])  # only literals: `array 2 @0`, `store 1 @0[0]`, ...
    conn.flush()
    counter.add(1)  # the program uses its register again: 5 + 1
    conn.flush()

subroutines = []
for raw in conn.storage:
    msg = deserialize_host_msg(raw)
    if hasattr(msg, "subroutine"):
        subroutines.append(deserialize(msg.subroutine))

print("SDK program: r = new_register(5); flush; new_array(2, [1, 2]); flush; r.add(1); flush")
for i, s in enumerate(subroutines):
    print(f"--- assembled subroutine {i}")
    for j, instr in enumerate(s.instructions):
        print(f"   {j:2d}  {instr}")
got = run_all(subroutines)
print(f"expected R0 == 6 after the three subroutines, got R0 == {got}")
if got != 6:
    failures.append("sdk")

# ---------------------------------------------------------------- 2. the same as text
texts = [
    "# APPID 0\nset R0 5\n",
    "# APPID 0\narray(2) @0\nstore 1 @0[0]\nstore 2 @0[1]\n",  # names no register at all
    "# APPID 0\nadd R0 R0 1\n",
]
subroutines = [parse_text_subroutine(t) for t in texts]
print()
print("text program of three subroutines (same application):")
for t in texts:
    print("   " + t.strip().replace("\n", " ; "))
print("--- the second one is assembled into")
for j, instr in enumerate(subroutines[1].instructions):
    print(f"   {j:2d}  {instr}")
got = run_all(subroutines)
print(f"expected R0 == 6 (the second subroutine names no register), got R0 == {got}")
if got != 6:
    failures.append("text")

if failures:
    print(f"\nVIOLATION ({', '.join(failures)}): a literal was materialised in R0, "
          "a register the program holds")
    sys.exit(1)
print("\nok")
