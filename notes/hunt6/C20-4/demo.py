"""C20 demo 4: a parity_meas that is refused for lack of a free outcome register leaves half of its circuit queued.

Run: cd /tmp/hunt6/C20/wt && PYTHONPATH=/tmp/hunt6/C20/wt /venv/bin/python /tmp/hunt6/C20/out/4/demo.py
"""
import sys
# ---------------------------------------------------------------------------------------
# A small independent state-vector backend: a subclass of netqasm's Executor that really
# applies the gates, driven by netqasm's own QNodeController, and a connection that hands
# every serialized message to that controller in-process (SDK -> bytes -> controller).
# ---------------------------------------------------------------------------------------
import itertools
from types import GeneratorType

import numpy as np

from netqasm.backend.executor import Executor
from netqasm.backend.messages import deserialize_host_msg
from netqasm.backend.qnodeos import QNodeController
from netqasm.lang.instr import core, vanilla
from netqasm.lang.instr.flavour import NVFlavour
from netqasm.sdk.connection import BaseNetQASMConnection, DebugNetworkInfo
from netqasm.sdk.transpile import NVSubroutineTranspiler

I2 = np.eye(2, dtype=complex)
PX = np.array([[0, 1], [1, 0]], dtype=complex)
PY = np.array([[0, -1j], [1j, 0]], dtype=complex)
PZ = np.array([[1, 0], [0, -1]], dtype=complex)


def rot(axis, angle):
    P = {"x": PX, "y": PY, "z": PZ}[axis]
    return np.cos(angle / 2) * I2 - 1j * np.sin(angle / 2) * P


class SV:
    """State vector over an ordered list of physical qubit ids."""

    def __init__(self, rng):
        self.order, self.state, self.rng = [], np.array([1.0 + 0j]), rng

    def add(self, pid):
        self.order.append(pid)
        self.state = np.kron(self.state, np.array([1, 0], dtype=complex))

    def _t(self):
        return self.state.reshape([2] * len(self.order))

    def apply1(self, U, pid):
        k = self.order.index(pid)
        t = np.moveaxis(np.tensordot(U, self._t(), axes=([1], [k])), 0, k)
        self.state = t.reshape(-1)

    def apply2(self, U, p0, p1):
        k0, k1 = self.order.index(p0), self.order.index(p1)
        U4 = np.asarray(U, dtype=complex).reshape(2, 2, 2, 2)
        t = np.moveaxis(np.tensordot(U4, self._t(), axes=([2, 3], [k0, k1])), [0, 1], [k0, k1])
        self.state = t.reshape(-1)

    def measure(self, pid):
        k = self.order.index(pid)
        t = self._t()
        p0 = float(np.sum(np.abs(np.take(t, 0, axis=k)) ** 2))
        out = 0 if self.rng.random() < p0 else 1
        idx = [slice(None)] * len(self.order)
        idx[k] = out
        proj = np.zeros_like(t)
        proj[tuple(idx)] = t[tuple(idx)]
        self.state = (proj / np.linalg.norm(proj)).reshape(-1)
        return out, (p0 if out == 0 else 1 - p0)

    def reset(self, pid):
        if self.measure(pid)[0] == 1:
            self.apply1(PX, pid)

    def remove(self, pid):
        self.reset(pid)
        k = self.order.index(pid)
        t = np.take(self._t(), 0, axis=k)
        self.order.pop(k)
        self.state = t.reshape(-1)

    def reduced(self, pids):
        ks = [self.order.index(p) for p in pids]
        rest = [i for i in range(len(self.order)) if i not in ks]
        t = np.transpose(self._t(), ks + rest).reshape(2 ** len(ks), -1)
        return t @ t.conj().T

    def set_state(self, pids, vec):
        assert sorted(pids) == sorted(self.order)
        self.order, self.state = list(pids), np.asarray(vec, dtype=complex).copy()


class SVExecutor(Executor):
    def __init__(self, *args, seed=0, **kwargs):
        super().__init__(*args, **kwargs)
        self.sv = SV(np.random.default_rng(seed))
        self.meas_log = []  # (probability of the outcome that was obtained, outcome)

    def _reserve_physical_qubit(self, physical_address):
        self.sv.add(physical_address)

    def _clear_phys_qubit_in_memory(self, physical_address):
        self.sv.remove(physical_address)

    def _pos(self, subroutine_id, address):
        return self._get_position(subroutine_id=subroutine_id, address=address)

    def _do_single_qubit_instr(self, instr, subroutine_id, address):
        pid = self._pos(subroutine_id, address)
        if isinstance(instr, core.InitInstruction):
            self.sv.reset(pid)
        else:
            self.sv.apply1(np.asarray(instr.to_matrix(), dtype=complex), pid)

    def _do_single_qubit_rotation(self, instr, subroutine_id, address, angle):
        axis = {"rot_x": "x", "rot_y": "y", "rot_z": "z"}[instr.mnemonic]
        self.sv.apply1(rot(axis, angle), self._pos(subroutine_id, address))

    def _do_controlled_qubit_rotation(self, instr, subroutine_id, address1, address2, angle):
        axis = {"crot_x": "x", "crot_y": "y"}[instr.mnemonic]
        # NV controlled rotation: control |0> -> R(+angle), control |1> -> R(-angle)
        U = np.kron(np.diag([1, 0]), rot(axis, angle)) + np.kron(np.diag([0, 1]), rot(axis, -angle))
        self.sv.apply2(U, self._pos(subroutine_id, address1), self._pos(subroutine_id, address2))

    def _do_two_qubit_instr(self, instr, subroutine_id, address1, address2):
        self.sv.apply2(
            np.asarray(instr.to_matrix(), dtype=complex),
            self._pos(subroutine_id, address1),
            self._pos(subroutine_id, address2),
        )

    def _do_meas(self, subroutine_id, q_address):
        out, p = self.sv.measure(self._pos(subroutine_id, q_address))
        self.meas_log.append((p, out))
        return out


class SVController(QNodeController):
    @classmethod
    def _get_executor_class(cls, flavour=None):
        return SVExecutor

    def stop(self):
        pass

    def _mark_message_finished(self, msg_id, msg):
        pass


class SVConnection(BaseNetQASMConnection):
    _counter = itertools.count()

    def __init__(self, app_name="alice", flavour=None, seed=0, **kwargs):
        name = f"node{next(SVConnection._counter)}"
        self.controller = SVController(name=name, flavour=flavour, seed=seed)
        self._msg_id = 0
        super().__init__(app_name=app_name, node_name=name, **kwargs)

    @property
    def executor(self):
        return self.controller._executor

    def _commit_serialized_message(self, raw_msg, block=True, callback=None):
        out = self.controller.handle_netqasm_message(self._msg_id, deserialize_host_msg(raw_msg))
        self._msg_id += 1
        if isinstance(out, GeneratorType):
            list(out)
        if callback is not None:
            callback()

    def _get_network_info(self):
        return DebugNetworkInfo

    def phys(self, q):
        return self.executor._get_position(app_id=self.app_id, address=q.qubit_id)


def vanilla_connection(**kw):
    return SVConnection(**kw)


def nv_connection(**kw):
    """NV compiler on the host, NV flavour on the controller (matching configuration)."""
    return SVConnection(flavour=NVFlavour(), compiler=NVSubroutineTranspiler, **kw)


def random_state(n, rng):
    v = rng.normal(size=2**n) + 1j * rng.normal(size=2**n)
    return v / np.linalg.norm(v)


# ---------------------------------------------------------------------------------------
from netqasm.sdk.qubit import Qubit
from netqasm.sdk.toolbox import parity_meas


def scenario(bases, n_regs):
    """Qubits in the +1 eigenstate of X (one qubit) / XX (Bell state). `n_regs` measurement outcomes are
    kept in registers in the current subroutine; then the parity is measured.
    Returns (fidelity of the qubits with their input state after the first call + flush,
             probability of the outcome that the (re)tried call obtained, that outcome, error text)."""
    n = len(bases)
    conn = vanilla_connection(max_qubits=24)
    qs = [Qubit(conn) for _ in range(n)]
    qs[0].H()
    if n == 2:
        qs[0].cnot(qs[1])
    conn.flush()
    psi = (np.array([1, 1]) if n == 1 else np.array([1, 0, 0, 1])) / np.sqrt(2)

    # outcomes kept in registers (16 M-registers exist; they are handed out again after a flush)
    kept = []
    for _ in range(n_regs):
        a = Qubit(conn)
        kept.append(a.measure(store_array=False))

    err = None
    m = None
    try:
        m = parity_meas(qs, bases)
    except RuntimeError as exc:
        err = f"{type(exc).__name__}: {exc}"
    n_active = len(conn.active_qubits)
    conn.flush()
    rho = conn.executor.sv.reduced([conn.phys(q) for q in qs])
    fid = float(np.real(psi.conj() @ rho @ psi))
    if m is None:
        # the caller does what the message suggests: the registers are free again after the flush, try again
        conn.executor.meas_log.clear()
        m = parity_meas(qs, bases)
        conn.flush()
    prob, _ = conn.executor.meas_log[-1]
    return fid, prob, int(m), err, n_active - n


if __name__ == "__main__":
    print("input: +1 eigenstate of the measured Pauli string, so the outcome must be 0 with probability 1")
    print("expected: a call either measures the parity, or (refused) leaves the qubits as they were")
    bad = 0
    for bases in ("X", "XX"):
        for n_regs in (15, 16):
            fid, prob, m, err, leaked = scenario(bases, n_regs)
            print(f"  parity_meas(.., {bases!r}) with {n_regs} outcome registers in use:")
            print(f"      first call: {'returned' if err is None else 'raised ' + err}")
            print(f"      qubits after that call + flush: fidelity with the +1 eigenstate {fid:.4f}; "
                  f"extra qubits left active by the call: {leaked}")
            print(f"      outcome finally obtained: {m} (its probability on the controller: {prob:.4f})")
            if abs(fid - 1) > 1e-9 or abs(prob - 1) > 1e-9 or m != 0 or leaked:
                bad += 1
    if bad:
        print("VIOLATION: the refused call left basis changes (and an entangled ancilla) behind; the state is no "
              "longer the input state and the repeated measurement is random")
        sys.exit(1)
    print("OK")
    sys.exit(0)
