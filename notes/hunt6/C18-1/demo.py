"""C18 demo 1: a rendezvous mark that nobody takes back makes a later socket
"connect" to a peer that does not exist.

History (two endpoints "A" and "B", socket id 0, everything legal):
  1. A0 and B connect.
  2. A0 is closed, A1 is opened (B is still open), one message goes A1 -> B.
  3. B is closed, then A1 is closed.  Nobody is connected any more.
  4. B2 is opened FIRST, A2 is opened 0.5 s later.  B2 sends "hello" as soon as
     its constructor returns, A2 receives.

Expected (and what happens on a fresh hub, see the control run): the constructor of
B2 blocks until A2 exists, then "hello" is delivered.
Observed: the constructor of B2 returns at once although no peer exists and the
send raises ConnectionError.
"""
import gc
import sys
import threading
import time

from netqasm.sdk.classical_communication.thread_socket import (
    ThreadSocket,
    reset_socket_hub,
)


def open_pair(name_a, name_b):
    box = {}

    def run(me, other):
        box[me] = ThreadSocket(me, other, timeout=5)

    threads = [
        threading.Thread(target=run, args=(name_a, name_b)),
        threading.Thread(target=run, args=(name_b, name_a)),
    ]
    [t.start() for t in threads]
    [t.join() for t in threads]
    return box[name_a], box[name_b]


def late_peer_round():
    """B starts first and sends at once, A starts 0.5 s later and receives."""
    result = {}

    def bob():
        t0 = time.time()
        try:
            sock = ThreadSocket("B", "A", timeout=5)
            result["b_ctor_seconds"] = time.time() - t0
            result["b_connected_after_ctor"] = sock.connected
            sock.send("hello")
            result["b_send"] = "ok"
            time.sleep(1.0)  # keep the socket alive until A has read
        except Exception as exc:  # noqa
            result["b_send"] = f"{type(exc).__name__}: {exc}"

    def alice():
        time.sleep(0.5)
        try:
            sock = ThreadSocket("A", "B", timeout=5)
            result["a_recv"] = sock.recv(timeout=2)
        except Exception as exc:  # noqa
            result["a_recv"] = f"{type(exc).__name__}: {exc}"

    threads = [threading.Thread(target=bob), threading.Thread(target=alice)]
    [t.start() for t in threads]
    [t.join() for t in threads]
    gc.collect()
    return result


reset_socket_hub()
control = late_peer_round()
print("control, fresh hub      :", control)

reset_socket_hub()
a0, b = open_pair("A", "B")            # 1
del a0
gc.collect()
a1 = ThreadSocket("A", "B", timeout=5)  # 2 (B is open: returns at once)
a1.send("x")
assert b.recv(block=False) == "x"
del b                                   # 3
gc.collect()
del a1
gc.collect()

after = late_peer_round()               # 4
print("after the legal history :", after)

ok = (
    after.get("b_send") == "ok"
    and after.get("a_recv") == "hello"
    and after.get("b_connected_after_ctor") is True
)
print("expected: B2's constructor waits for A2 (about 0.5 s), send ok, A2 receives 'hello'")
if not ok:
    print("VIOLATION: B2 did not wait for its peer / message not delivered")
    sys.exit(1)
print("ok")
