"""C05 finding 4: a value held in a register does not survive a flush that is placed between its
definition and its use.

Registers of an application persist on the controller from one subroutine to the next, and the SDK lets a
RegFuture be used in later subroutines (conditions, add).  But after every flush the builder forgets which
M registers hold live values (`MemoryManager.reset_used_meas_registers`), so the next measurement - even one
that goes into an array - is compiled to `meas Q0 M0` and overwrites the earlier outcome.  (The assembler
does the same to R registers: `_replace_constants` takes every R register that is not mentioned in the
*current* subroutine as scratch.)

The program below is run twice: without intermediate flushes and with a flush after every top-level statement.

Run:  cd /tmp/hunt6/C05/wt && PYTHONPATH=/tmp/hunt6/C05/wt /venv/bin/python /tmp/hunt6/C05/out/4/demo.py
"""
import sys

from netqasm.backend.executor import Executor
from netqasm.backend.messages import MessageType, deserialize_host_msg
from netqasm.lang.parsing import deserialize
from netqasm.sdk.connection import BaseNetQASMConnection, DebugNetworkInfo
from netqasm.sdk.qubit import Qubit
from netqasm.sdk.shared_memory import SharedMemoryManager


class RecExecutor(Executor):
    """The package's Executor; quantum operations are recorded, outcomes are scripted."""

    def __init__(self, name, outcomes):
        super().__init__(name=name)
        self.trace = []
        self.outcomes = list(outcomes)

    def _do_single_qubit_instr(self, instr, subroutine_id, address):
        self.trace.append((instr.mnemonic, address))

    def _do_meas(self, subroutine_id, q_address):
        outcome = self.outcomes.pop(0) if self.outcomes else 0
        self.trace.append(("meas", q_address, outcome))
        return outcome


class ExecConnection(BaseNetQASMConnection):
    """A connection that hands every message to an in-process Executor."""

    def __init__(self, app_name, outcomes=(), **kwargs):
        self.executor = RecExecutor(app_name, outcomes)
        super().__init__(app_name=app_name, node_name=app_name, **kwargs)

    def _get_network_info(self):
        return DebugNetworkInfo

    def _commit_serialized_message(self, raw_msg, block=True, callback=None):
        msg = deserialize_host_msg(raw_msg)
        if msg.TYPE == MessageType.INIT_NEW_APP:
            self.executor.init_new_application(app_id=msg.app_id, max_qubits=msg.max_qubits)
        elif msg.TYPE == MessageType.SUBROUTINE:
            list(self.executor.execute_subroutine(deserialize(msg.subroutine)))
        elif msg.TYPE == MessageType.STOP_APP:
            list(self.executor.stop_application(app_id=msg.app_id))


def program(flush_between):
    SharedMemoryManager.reset_memories()
    BaseNetQASMConnection._app_ids.clear()
    conn = ExecConnection("alice", outcomes=[1, 0])

    def maybe_flush():
        if flush_between:
            conn.flush()

    # statement 1: measure into a register (outcome 1)
    t = Qubit(conn)  # virtual 0, stays alive
    q1 = Qubit(conn)
    m = q1.measure(store_array=False)
    maybe_flush()
    # statement 2: an unrelated measurement into an array entry (outcome 0)
    q2 = Qubit(conn)
    other = q2.measure()
    maybe_flush()
    # statement 3: use the register value
    with m.if_eq(1):
        t.X()
    m.add(5)
    conn.flush()

    x_on_t = sum(1 for op in conn.executor.trace if op == ("x", 0))
    ctrl_m = conn.executor._get_register(conn.app_id, m.reg)
    host_m = conn.shared_memory.get_register(m.reg)
    return x_on_t, ctrl_m, host_m, int(other)


# direct execution: m = 1, other = 0, X on t once, m + 5 = 6
expected = (1, 6, 6, 0)
one_subroutine = program(flush_between=False)
three_subroutines = program(flush_between=True)
print("                      (X gates on t, m on controller, m in host memory, other)")
print("direct execution     :", expected)
print("no intermediate flush:", one_subroutine)
print("flush after each stmt:", three_subroutines)

if one_subroutine == expected and three_subroutines == expected:
    print("OK")
    sys.exit(0)
print("VIOLATION: with flushes between the statements the second measurement is compiled to `meas Q0 M0`")
print("           and overwrites m: the conditional X is skipped and m.add(5) yields 5 instead of 6.")
sys.exit(1)
