"""C06 / finding 1: operations queued between taking a templated ProtoSubroutine off the builder and
committing it (commit_protosubroutine) lose their array / register bookkeeping.

`compile()` resets the builder's bookkeeping at the moment the pending operations stop being pending.
The other pre-compilation entry point - `builder.subrt_pop_pending_subroutine()` +
`ProtoSubroutine.instantiate()` + `connection.commit_protosubroutine()` - resets it only when the
protosubroutine is committed, i.e. it also wipes the bookkeeping of everything the host queued in between
(typically: work done while waiting for the value of the template).
"""
import sys
from types import GeneratorType

from netqasm.backend.executor import Executor
from netqasm.backend.messages import deserialize_host_msg
from netqasm.backend.qnodeos import QNodeController
from netqasm.lang.operand import Template
from netqasm.lang.parsing import deserialize
from netqasm.sdk.connection import BaseNetQASMConnection, DebugConnection, DebugNetworkInfo
from netqasm.sdk.qubit import Qubit
from netqasm.sdk.shared_memory import SharedMemoryManager


class _Executor(Executor):
    def _do_meas(self, subroutine_id, q_address):
        return 1  # every measurement gives 1


class _Controller(QNodeController):
    @classmethod
    def _get_executor_class(cls, flavour=None):
        return _Executor

    def stop(self):
        pass

    def _mark_message_finished(self, msg_id, msg):
        pass


class LiveConnection(BaseNetQASMConnection):
    """A connection whose messages are executed at once by an in-process controller."""

    def __init__(self, app_name, **kwargs):
        self.controller = _Controller(name=app_name)
        self.sent = []
        self.controller_error = None
        super().__init__(app_name, **kwargs)

    def _get_network_info(self):
        return DebugNetworkInfo

    def _commit_serialized_message(self, raw_msg, block=True, callback=None):
        self.sent.append(raw_msg)
        try:
            out = self.controller.handle_netqasm_message(len(self.sent), deserialize_host_msg(raw_msg))
            if isinstance(out, GeneratorType):
                for _ in out:
                    pass
        except Exception as exc:  # the controller refuses the subroutine
            self.controller_error = f"{type(exc).__name__}: {str(exc).splitlines()[0]}"


def new_connection():
    SharedMemoryManager.reset_memories()
    BaseNetQASMConnection._app_ids.clear()
    DebugConnection.node_ids = {"alice": 0}
    return LiveConnection("alice")


def subroutines(conn):
    texts = []
    for raw in conn.sent:
        msg = deserialize_host_msg(raw)
        if hasattr(msg, "subroutine"):
            texts.append("\n".join(str(i) for i in deserialize(msg.subroutine).instructions))
    return texts


def value(future):
    try:
        return int(future)
    except Exception as exc:
        return f"<{type(exc).__name__}>"


def run(flow, store_array):
    conn = new_connection()
    q = Qubit(conn)
    if flow == "flush":
        q.rot_X(n=3, d=4)
        m = q.measure(store_array=store_array)
        conn.flush()
        q2 = Qubit(conn)
        m2 = q2.measure(store_array=store_array)
        conn.flush()
    elif flow == "compile":
        q.rot_X(n=Template("a"), d=4)
        m = q.measure(store_array=store_array)
        subroutine = conn.compile()
        q2 = Qubit(conn)  # queued while the host waits for the value of "a"
        m2 = q2.measure(store_array=store_array)
        subroutine.instantiate(conn.app_id, {"a": 3})
        conn.commit_subroutine(subroutine)
        conn.flush()
    else:
        q.rot_X(n=Template("a"), d=4)
        m = q.measure(store_array=store_array)
        proto = conn.builder.subrt_pop_pending_subroutine()
        q2 = Qubit(conn)  # queued while the host waits for the value of "a"
        m2 = q2.measure(store_array=store_array)
        proto.instantiate(conn.app_id, {"a": 3})
        conn.commit_protosubroutine(proto)
        conn.flush()
    return subroutines(conn), (value(m), value(m2)), conn.controller_error


failed = False
for store_array in (True, False):
    print(f"=== measurement outcomes kept in {'arrays' if store_array else 'registers'}")
    expected = run("flush", store_array)
    for flow in ("compile", "proto"):
        got = run(flow, store_array)
        same = got == expected
        print(f"[{flow:7}] same subroutines, outcomes and controller status as flush/flush: {same}")
        if not same:
            failed = True
            print("  expected (m, m2) =", expected[1], " controller error:", expected[2])
            print("  got      (m, m2) =", got[1], " controller error:", got[2])
            print("  --- last subroutine expected:\n   ", expected[0][-1].replace("\n", "\n    "))
            print("  --- last subroutine sent:\n   ", got[0][-1].replace("\n", "\n    "))

if failed:
    print("\nVIOLATION: after pop -> instantiate -> commit_protosubroutine, the flush of what was queued in "
          "between neither declares / returns its array nor returns its register.")
    sys.exit(1)
print("OK")
