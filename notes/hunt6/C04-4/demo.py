"""C04 finding 4: the instruction logger of a node name is cached per process and stays bound
to the FIRST executor that had that name.

`Executor.get_instr_logger` keeps one logger per node name in the class attribute
`Executor._INSTR_LOGGERS`, and the logger keeps a reference to the executor it was created for.
A second executor with the same node name (the next run of a simulation in the same process,
or a node that is rebuilt) gets that old logger.  While the new executor executes a subroutine,
the logger reads app IDs, registers and arrays from the OLD executor:
  * if the old executor has no subroutine with that ID -> "Unknown subroutine" is raised and the
    new executor reports a fault at line 0 of a correct program (the instruction was executed);
  * if it has one, values of the wrong executor are looked up.
"""
import sys
import tempfile

from netqasm.backend.executor import Executor
from netqasm.lang.parsing import parse_text_subroutine
from netqasm.logging.output import InstrLogger
from netqasm.sdk.shared_memory import SharedMemoryManager


class DemoInstrLogger(InstrLogger):
    # only the hooks the base class asks subclasses to provide
    @classmethod
    def _get_qubit_states(cls, subroutine_id, qubit_ids):
        return None

    @classmethod
    def _get_qubit_groups(cls):
        return None

    def _get_node_name(self):
        return self._executor.name


class LoggingExecutor(Executor):
    instr_logger_class = DemoInstrLogger


LOG_DIR = tempfile.mkdtemp()
PROGRAM = """
# NETQASM 1.0
# APPID 0
set R0 1
set R1 2
add R2 R0 R1
ret_reg R2
"""


def one_run(run_number):
    """A complete life of node "alice": register app 0, run one subroutine, stop the app."""
    executor = LoggingExecutor(name="alice", instr_log_dir=LOG_DIR)
    executor.init_new_application(app_id=0, max_qubits=1)
    shm = SharedMemoryManager.get_shared_memory("alice", key=0)
    try:
        executor.consume_execute_subroutine(parse_text_subroutine(PROGRAM))
        err = None
    except Exception as exc:
        err = f"{type(exc).__name__}: {str(exc).splitlines()[0]}"
    returned = shm.get_register("R2")
    bound_to_self = executor._instr_logger._executor is executor
    list(executor.stop_application(app_id=0))
    print(
        f"run {run_number}: expected no fault and R2 == 3 returned; "
        f"got error={err!r}, returned R2={returned}, logger bound to this executor: {bound_to_self}"
    )
    return err is None and returned == 3


SharedMemoryManager.reset_memories()
ok1 = one_run(1)
ok2 = one_run(2)
if not (ok1 and ok2):
    print("VIOLATION: the same program on a fresh executor of the same node name faults")
    sys.exit(1)
print("ok")
