"""C04 finding 3: with an instruction logger switched on, correct classical programs fault.

The executor calls the instruction logger from inside `_execute_command`, AFTER the handler
has run and the program counter has moved on.  The logger then
  (a) evaluates the operands again - with the register values the instruction just wrote, and
  (b) treats the value of every operand in register bank Q as a virtual qubit ID and looks it
      up in the unit module.
Whatever that raises is reported as a fault of the (already executed) instruction, and the
subroutine stops.  The same programs run to the end without a logger.

The base `InstrLogger` leaves three hooks to "be subclassed" (node name, qubit groups, qubit
states); the subclass below fills in exactly those, nothing else.
"""
import sys
import tempfile

from netqasm.backend.executor import Executor
from netqasm.lang.encoding import RegisterName
from netqasm.lang.parsing import parse_text_subroutine
from netqasm.logging.output import InstrLogger
from netqasm.sdk.shared_memory import SharedMemoryManager


class DemoInstrLogger(InstrLogger):
    @classmethod
    def _get_qubit_states(cls, subroutine_id, qubit_ids):
        return None

    @classmethod
    def _get_qubit_groups(cls):
        return None

    def _get_node_name(self):
        return self._executor.name


class LoggingExecutor(Executor):
    instr_logger_class = DemoInstrLogger


HDR = "# NETQASM 1.0\n# APPID 0\n"
LOG_DIR = tempfile.mkdtemp()
_n = [0]


def execute(text, with_logger):
    SharedMemoryManager.reset_memories()
    _n[0] += 1
    name = f"c04_demo3_{_n[0]}"
    if with_logger:
        ex = LoggingExecutor(name=name, instr_log_dir=LOG_DIR)
    else:
        ex = Executor(name=name)
    ex.init_new_application(app_id=0, max_qubits=3)
    sub = parse_text_subroutine(HDR + text)
    try:
        ex.consume_execute_subroutine(sub)
        err = None
    except Exception as exc:
        err = f"{type(exc).__name__}: {str(exc).splitlines()[0]}"
    regs = {
        f"{bank.name}{i}": v
        for bank, group in ex._registers[0].items()
        for i, v in sorted(group._register.items())
    }
    shm = ex._shared_memories[0]
    returned = {
        f"{bank.name}{i}": v
        for bank, group in shm._registers.items()
        for i, v in sorted(group._register.items())
    }
    return err, regs, returned


PROGRAMS = {
    # (a) the index register of `load` is also its destination: a pointer-chasing load
    "load R0 @0[R0]": """
set R0 2
array R0 @0
set R0 0
set R1 5
store R1 @0[R0]
load R0 @0[R0]
ret_reg R0
""",
    # (b) bank Q used for plain integers ("all register banks")
    "arithmetic in bank Q": """
set Q0 100
set Q1 1
add Q2 Q0 Q1
ret_reg Q2
""",
    "negative value in bank Q": """
set R0 0
set Q0 -7
ret_reg Q0
""",
}

failed = False
for title, text in PROGRAMS.items():
    plain = execute(text, with_logger=False)
    logged = execute(text, with_logger=True)
    same = plain == logged
    print(f"--- {title}")
    print(f"  without logger: error={plain[0]!r} registers={plain[1]} returned={plain[2]}")
    print(f"  with logger   : error={logged[0]!r} registers={logged[1]} returned={logged[2]}")
    print("  expected: identical outcome;", "ok" if same else "DIFFERENT")
    failed |= not same

if failed:
    print("VIOLATION: switching the instruction logger on changes what a classical program does")
    sys.exit(1)
print("ok")
