"""C05 finding 3: `loop_body(..., loop_register=R)` silently shares a register that is already in use.

The context form `conn.loop(..., loop_register="R0")` refuses a register that is reserved ("Register R0 is
already active").  The callback form `conn.loop_body(body, ..., loop_register="R0")` takes it without a word:
the inner loop then counts in the register of the enclosing `foreach` / `loop` / `loop_until` (whose register the
user never chose and, for `foreach`, never sees), and the enclosing loop ends early or never.

Run:  cd /tmp/hunt6/C05/wt && PYTHONPATH=/tmp/hunt6/C05/wt /venv/bin/python /tmp/hunt6/C05/out/3/demo.py
"""
import sys

from netqasm.backend.executor import Executor
from netqasm.backend.messages import MessageType, deserialize_host_msg
from netqasm.lang.parsing import deserialize
from netqasm.sdk.connection import BaseNetQASMConnection, DebugNetworkInfo
from netqasm.sdk.shared_memory import SharedMemoryManager


class BudgetExecutor(Executor):
    """The package's Executor with an instruction budget (to survive endless loops)."""

    budget = 5000

    def _execute_command(self, subroutine_id, command):
        self.budget -= 1
        if self.budget < 0:
            raise TimeoutError("instruction budget exhausted: the subroutine does not terminate")
        return super()._execute_command(subroutine_id, command)


class ExecConnection(BaseNetQASMConnection):
    """A connection that hands every message to an in-process Executor."""

    def __init__(self, app_name, **kwargs):
        self.executor = BudgetExecutor(name=app_name)
        super().__init__(app_name=app_name, node_name=app_name, **kwargs)

    def _get_network_info(self):
        return DebugNetworkInfo

    def _commit_serialized_message(self, raw_msg, block=True, callback=None):
        msg = deserialize_host_msg(raw_msg)
        if msg.TYPE == MessageType.INIT_NEW_APP:
            self.executor.init_new_application(app_id=msg.app_id, max_qubits=msg.max_qubits)
        elif msg.TYPE == MessageType.SUBROUTINE:
            list(self.executor.execute_subroutine(deserialize(msg.subroutine)))
        elif msg.TYPE == MessageType.STOP_APP:
            list(self.executor.stop_application(app_id=msg.app_id))


def run(form, loop_register):
    """for each of the 3 entries: do 2 inner iterations, each adds 1 to a counter -> 6"""
    SharedMemoryManager.reset_memories()
    BaseNetQASMConnection._app_ids.clear()
    conn = ExecConnection("alice")
    values = conn.new_array(init_values=[1, 2, 3])
    counter_arr = conn.new_array(init_values=[0])
    counter = counter_arr.get_future_index(0)
    try:
        with values.foreach():
            if form == "context":
                with conn.loop(2, loop_register=loop_register):
                    counter.add(1)
            else:
                conn.loop_body(lambda c, i: counter.add(1), 2, loop_register=loop_register)
        conn.flush()
        return counter_arr[0]
    except Exception as exc:  # noqa
        return f"{type(exc).__name__}: {str(exc).splitlines()[0]}"


expected = 6  # direct execution: 3 * 2
results = {
    "loop_body, automatic register": run("callback", None),
    "loop_body, loop_register='R5'": run("callback", "R5"),
    "loop context, loop_register='R0'": run("context", "R0"),
    "loop_body, loop_register='R0'": run("callback", "R0"),
}
print("expected counter (direct execution):", expected)
for k, v in results.items():
    print(f"  {k:36s} -> {v}")

bad = results["loop_body, loop_register='R0'"]
if bad == expected or (isinstance(bad, str) and bad.startswith("ValueError")):
    # either compiled correctly or refused like the context form
    print("OK")
    sys.exit(0)
print("VIOLATION: loop_body accepted a loop register that the enclosing foreach already counts in;")
print(f"           the compiled program produced {bad!r} instead of {expected} (the context form refuses).")
sys.exit(1)
