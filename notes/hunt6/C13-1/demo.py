"""C13 finding 1: a keep-response that cannot be stored leaves its physical qubit marked in use.

Executor._handle_epr_ok_k_response adds response.logical_qubit_id to
_used_physical_qubit_addresses BEFORE _allocate_physical_qubit validates the virtual
address / the unit module.  When that validation refuses (loudly), the physical
qubit stays "in use" for ever although no virtual qubit maps to it.
"""
import sys

from netqasm.backend.executor import Executor
from netqasm.backend.network_stack import BaseNetworkStack
from netqasm.lang.parsing import parse_text_subroutine
from netqasm.qlink_compat import BellState, LinkLayerOKTypeK, ReturnType
from netqasm.sdk.shared_memory import SharedMemoryManager


class Stack(BaseNetworkStack):
    def put(self, request):
        pass

    def setup_epr_socket(self, epr_socket_id, remote_node_id, remote_epr_socket_id, timeout=1.0):
        return None

    def get_purpose_id(self, remote_node_id, epr_socket_id):
        return epr_socket_id


class Controller(Executor):
    """Only the documented extension points are filled in (as every simulator has to)."""

    @property
    def node_id(self):
        return 0

    def _do_wait(self):
        yield "waiting"  # hand control back to the scheduler

    def _wait_to_handle_epr_responses(self):
        return None  # "try again later": the scheduler calls again on the next event


def subroutine(app_id, text):
    return parse_text_subroutine(f"# NETQASM 1.0\n# APPID {app_id}\n" + text)


def keep_response(physical_qubit, seq):
    return LinkLayerOKTypeK(
        type=ReturnType.OK_K, create_id=0, logical_qubit_id=physical_qubit,
        directionality_flag=1, sequence_number=seq, purpose_id=0, remote_node_id=1,
        goodness=0, goodness_time=0, bell_state=BellState.PHI_PLUS,
    )


def mapped(ex):
    return sorted(p for um in ex._qubit_unit_modules.values() for p in um if p is not None)


def receive(app_id, virtual_ids):
    k = len(virtual_ids)
    text = f"set R0 {k}\narray R0 @0\n"
    for i, v in enumerate(virtual_ids):
        text += f"set R1 {v}\nstore R1 @0[{i}]\n"
    text += (
        f"set R0 {10 * k}\narray R0 @1\n"
        "set R0 1\nset R1 0\nset R2 0\nset R3 1\n"
        "recv_epr R0 R1 R2 R3\n"
        f"wait_all @1[0:{10 * k}]\n"
    )
    return subroutine(app_id, text)


failures = []

# ---- scenario (a): unit module of 1 qubit, request for two pairs (virtual qubits 0 and 1)
SharedMemoryManager.reset_memories()
ex = Controller(name="ctl_a")
ex.network_stack = Stack()
ex.init_new_application(app_id=0, max_qubits=1)
run = ex.execute_subroutine(receive(0, [0, 1]))
next(run)  # blocked in wait_all
ex._handle_epr_response(keep_response(5, seq=0))  # pair 0 -> virtual 0: fine
try:
    ex._handle_epr_response(keep_response(6, seq=1))  # pair 1 -> virtual 1: outside the module
    print("(a) second response accepted?!")
except ValueError as exc:
    print("(a) second response refused (fine):", str(exc).splitlines()[0])
used, maps = sorted(ex._used_physical_qubit_addresses), mapped(ex)
print(f"(a) expected: in use == mapped == [5]; got in use {used}, mapped {maps}")
if used != maps:
    failures.append("(a) physical qubit 6 is marked in use but no virtual qubit maps to it")
list(ex.stop_application(0))
used = sorted(ex._used_physical_qubit_addresses)
print(f"(a) after stop_application: expected nothing in use; got {used}")
if used:
    failures.append("(a) the qubit stays in use even after the application was stopped")

# ---- scenario (b): the application is stopped while its request is outstanding
SharedMemoryManager.reset_memories()
ex = Controller(name="ctl_b")
ex.network_stack = Stack()
ex.init_new_application(app_id=0, max_qubits=2)
run = ex.execute_subroutine(receive(0, [0]))
next(run)
list(ex.stop_application(0))
try:
    ex._handle_epr_response(keep_response(3, seq=0))
except RuntimeError as exc:
    print("(b) response for the stopped application refused (fine):", str(exc).splitlines()[0])
used, maps = sorted(ex._used_physical_qubit_addresses), mapped(ex)
print(f"(b) expected: nothing in use, nothing mapped; got in use {used}, mapped {maps}")
if used != maps:
    failures.append("(b) physical qubit 3 is marked in use although no application is registered")

if failures:
    print("\nVIOLATION of C13 (set of physical qubits in use == set currently mapped):")
    for f in failures:
        print("  -", f)
    sys.exit(1)
print("ok")
