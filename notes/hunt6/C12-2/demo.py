"""C12 finding 2: stop_application() leaves the EPR requests of the stopped application queued.

Run 1: an application posts a receive request (1 pair) for (remote node 1, socket 0); the remote side never
creates the pair and the application is stopped (Executor.stop_application).
Run 2: a new application on the same node posts its own receive request (1 pair) for the same remote node and
socket; the remote side creates the pair; one response arrives.

Expected (C12): the response is consumed by the oldest OUTSTANDING request for its remote node, purpose and
role - the only outstanding one is that of the running application -, fills slice 0 of THAT request's result
array and maps THAT request's 0-th virtual qubit; the request is retired; its wait_all resumes.
"""
import sys

from netqasm.backend.executor import Executor
from netqasm.backend.network_stack import BaseNetworkStack
from netqasm.lang.parsing import parse_text_subroutine
from netqasm.qlink_compat import BellState, LinkLayerOKTypeK, ReturnType
from netqasm.sdk.shared_memory import SharedMemoryManager


class Stack(BaseNetworkStack):
    def put(self, request):
        pass

    def setup_epr_socket(self, epr_socket_id, remote_node_id, remote_epr_socket_id, timeout=1.0):
        return None

    def get_purpose_id(self, remote_node_id, epr_socket_id):
        return epr_socket_id


class Controller(Executor):
    @property
    def node_id(self):
        return 0

    def _do_wait(self):
        yield "waiting"

    def _wait_to_handle_epr_responses(self):
        pass  # the demo retries explicitly


def subroutine(app_id, text):
    return parse_text_subroutine(f"# NETQASM 1.0\n# APPID {app_id}\n" + text)


def response():
    return LinkLayerOKTypeK(
        type=ReturnType.OK_K, create_id=0, logical_qubit_id=7, directionality_flag=1,
        sequence_number=0, purpose_id=0, remote_node_id=1, goodness=1, goodness_time=3,
        bell_state=BellState.PHI_PLUS,
    )


INFO = [0, 0, 7, 1, 0, 0, 1, 1, 3, 0]


def scenario(second_app_id):
    SharedMemoryManager.reset_memories()
    exe = Controller(name=f"node-{second_app_id}")
    exe.network_stack = Stack()

    # ---- run 1: application 0 posts a receive request that is never answered, and is stopped
    exe.init_new_application(app_id=0, max_qubits=2)
    run1 = exe.execute_subroutine(subroutine(0,
        "array 10 @0\n"         # result array
        "array 1 @1\n"          # virtual qubit IDs: [0]
        "store 0 @1[0]\n"
        "recv_epr(1,0) 1 0\n"
        "wait_all @0[0:10]\n"
    ))
    for _ in range(5):
        next(run1)              # ... now polling in wait_all
    assert len(exe._epr_recv_requests[1, 0]) == 1
    for _ in exe.stop_application(app_id=0):
        pass
    run1.close()

    # ---- run 2: a new application posts its own request
    app = second_app_id
    exe.init_new_application(app_id=app, max_qubits=2)
    run2 = exe.execute_subroutine(subroutine(app,
        "array 10 @0\n"         # data of the application: ten times 42
        + "".join(f"store 42 @0[{i}]\n" for i in range(10)) +
        "array 10 @1\n"         # result array
        "array 1 @2\n"          # virtual qubit IDs: [1]
        "store 1 @2[0]\n"
        "recv_epr(1,0) 2 1\n"
        "wait_all @1[0:10]\n"
    ))
    for _ in range(5):
        next(run2)
    queue = exe._epr_recv_requests[1, 0]

    problems = []
    if len(queue) != 1:
        problems.append(f"{len(queue)} requests are queued for (node 1, purpose 0, receive) although only one "
                        f"application is running and it posted one request")

    try:
        exe._handle_epr_response(response())
    except Exception as exc:  # noqa
        problems.append(f"delivering the response raised {type(exc).__name__}: {str(exc).splitlines()[0]}")

    resumed = False
    for _ in range(20):
        try:
            next(run2)
        except StopIteration:
            resumed = True
            break
        exe._handle_pending_epr_responses()

    arrays = exe._app_arrays[app]._arrays
    if arrays[1] != INFO:
        problems.append(f"result array @1 of the running request: expected {INFO}, got {arrays[1]}")
    if arrays[0] != [42] * 10:
        problems.append(f"data array @0 of the running application: expected ten times 42, got {arrays[0]}")
    if exe._qubit_unit_modules[app] != [None, 7]:
        problems.append(f"unit module: expected [None, 7] (virtual qubit 1 mapped), got {exe._qubit_unit_modules[app]}")
    left = exe._epr_recv_requests[1, 0]
    if left:
        problems.append(f"{len(left)} request(s) still queued after the only expected pair was delivered "
                        f"(pairs_left={[d.pairs_left for d in left]})")
    if exe._pending_epr_responses == [] and arrays[1] != INFO:
        problems.append("the response is gone but the running request did not receive it")
    if not resumed:
        problems.append("wait_all of the running application never resumes")
    return problems


def main():
    failed = False
    for second_app_id, label in [(0, "the next run re-uses app ID 0"), (1, "the next run uses app ID 1")]:
        print(f"--- {label}")
        problems = scenario(second_app_id)
        if problems:
            failed = True
            for p in problems:
                print("   VIOLATION:", p)
        else:
            print("   ok: the running application's request received the pair")
    sys.exit(1 if failed else 0)


if __name__ == "__main__":
    main()
