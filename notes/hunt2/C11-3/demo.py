"""recv_keep / recv_rsp (expect_phi_plus=True, the default): the Bell-state field of pair i's response is
applied to virtual qubit 0, not to the qubit handle i that the application gets back."""
import itertools
import logging
import sys

from netqasm.backend.executor import Executor
from netqasm.backend.messages import deserialize_host_msg
from netqasm.backend.network_stack import BaseNetworkStack
from netqasm.backend.qnodeos import QNodeController
from netqasm.qlink_compat import BellState, LinkLayerOKTypeK, ReturnType
from netqasm.sdk.connection import BaseNetQASMConnection
from netqasm.sdk.epr_socket import EPRSocket
from netqasm.sdk.network import NetworkInfo
from netqasm.sdk.qubit import Qubit
from netqasm.sdk.shared_memory import SharedMemoryManager

logging.disable(logging.WARNING)
NODES = {"alice": 0, "bob": 1}


class Info(NetworkInfo):
    _get_node_id = classmethod(lambda cls, node_name: NODES[node_name])
    _get_node_name = classmethod(lambda cls, node_id: {v: k for k, v in NODES.items()}[node_id])
    get_node_id_for_app = classmethod(lambda cls, app_name: NODES[app_name])
    get_node_name_for_app = classmethod(lambda cls, app_name: app_name)


class Stack(BaseNetworkStack):
    def put(self, request):
        pass

    def setup_epr_socket(self, epr_socket_id, remote_node_id, remote_epr_socket_id, timeout=1.0):
        pass

    def get_purpose_id(self, remote_node_id, epr_socket_id):
        return epr_socket_id


class Exec(Executor):
    node_id = NODES["bob"]
    gates = []  # (mnemonic, virtual qubit ID) of every rotation executed

    def _do_wait(self):
        yield  # hand control to the driver, which plays the link layer

    def _do_single_qubit_rotation(self, instr, subroutine_id, address, angle):
        self.gates.append((instr.mnemonic, address))


class Controller(QNodeController):
    _get_executor_class = classmethod(lambda cls, flavour=None: Exec)

    def stop(self):
        pass

    def _mark_message_finished(self, msg_id, msg):
        pass


class Conn(BaseNetQASMConnection):
    """Hands every serialized Host message to the controller; `link_layer` runs at each wait."""

    def __init__(self, app_name, controller, link_layer, **kwargs):
        self._ctrl, self._link_layer, self._ids = controller, link_layer, itertools.count()
        super().__init__(app_name=app_name, **kwargs)

    def _get_network_info(self):
        return Info

    def _commit_serialized_message(self, raw_msg, block=True, callback=None):
        for n, _ in enumerate(self._ctrl.handle_netqasm_message(next(self._ids), deserialize_host_msg(raw_msg))):
            assert n < 100, "deadlock"
            self._link_layer(self._ctrl._executor)


def run(bells, program):
    """bob receives len(bells) K-type pairs whose responses carry the given Bell states."""
    sent = []

    def link_layer(executor):
        if not sent:
            for i, bell in enumerate(bells):
                sent.append(LinkLayerOKTypeK(
                    type=ReturnType.OK_K, create_id=0, logical_qubit_id=10 + i, directionality_flag=1,
                    sequence_number=i, purpose_id=0, remote_node_id=NODES["alice"], goodness=1, goodness_time=1,
                    bell_state=bell))
                executor._handle_epr_response(sent[-1])

    SharedMemoryManager.reset_memories()
    Exec.gates = []
    ctrl = Controller(name="bob")
    ctrl.network_stack = Stack()
    sock = EPRSocket("alice")
    with Conn("bob", ctrl, link_layer, epr_sockets=[sock]) as bob:
        ids = program(bob, sock)
        bob.flush()
        bob.builder.inactivate_qubits()  # (nothing is measured here; keep the exit quiet)
    return ids, list(Exec.gates)


bad = 0

# A: two pairs, only pair 1 needs a correction (Psi+ -> X)
ids, gates = run([BellState.PHI_PLUS, BellState.PSI_PLUS],
                 lambda conn, sock: [q.qubit_id for q in sock.recv_keep(number=2)])
print(f"A: recv_keep(number=2), Bell states [PHI_PLUS, PSI_PLUS]; qubit handles have virtual IDs {ids}")
print(f"   expected corrections: [('rot_x', {ids[1]})]   executed: {gates}")
bad += gates != [("rot_x", ids[1])]

# B: the application already holds a data qubit (virtual ID 0); one pair arrives in Psi+
ids, gates = run([BellState.PSI_PLUS],
                 lambda conn, sock: [Qubit(conn).qubit_id] + [q.qubit_id for q in sock.recv_keep(number=1)])
print(f"B: data qubit has virtual ID {ids[0]}, recv_keep(number=1) handle has virtual ID {ids[1]}, Bell state PSI_PLUS")
print(f"   expected corrections: [('rot_x', {ids[1]})]   executed: {gates}")
bad += gates != [("rot_x", ids[1])]

if bad:
    print("VIOLATION: the correction derived from pair i's response is not applied to qubit handle i "
          "(it always hits virtual qubit 0 - another pair's qubit, or an unrelated data qubit)")
    sys.exit(1)
print("ok")
