"""C10: NV - recv_keep(number=1, min_fidelity_all_at_end=..., max_tries=...) with another live qubit aborts on the
first retry: the relocation of the other qubit (decided once, at build time) is emitted INSIDE the retry loop.

Receiver-only run on netqasm's own Executor / QNodeController.  Attempt 1 is too slow (duration 50000 > 28000),
attempt 2 is fast.  Expected: attempt 2 is kept (and corrected to Phi+).  Got: run-time error in iteration 2.
"""
import logging
import sys

from netqasm.backend.executor import Executor
from netqasm.backend.messages import deserialize_host_msg
from netqasm.backend.network_stack import BaseNetworkStack
from netqasm.backend.qnodeos import QNodeController
from netqasm.lang.instr.flavour import NVFlavour
from netqasm.qlink_compat import BellState, LinkLayerOKTypeK, ReturnType
from netqasm.sdk.build_types import NVHardwareConfig
from netqasm.sdk.connection import BaseNetQASMConnection, DebugConnection, DebugNetworkInfo
from netqasm.sdk.epr_socket import EPRSocket
from netqasm.sdk.qubit import Qubit
from netqasm.sdk.shared_memory import SharedMemoryManager
from netqasm.sdk.transpile import NVSubroutineTranspiler

logging.getLogger().setLevel(logging.ERROR)


class Stack(BaseNetworkStack):
    def put(self, request):
        pass

    def setup_epr_socket(self, *a, **k):
        return None

    def get_purpose_id(self, remote_node_id, epr_socket_id):
        return epr_socket_id


class Ex(Executor):
    def __init__(self, name=None, instr_log_dir=None, **kw):
        super().__init__(name=name, instr_log_dir=instr_log_dir)
        self.network_stack = Stack()
        self.durations = [50000, 100]
        self.attempts = 0
        self.corrections = []

    node_id = property(lambda self: 0)

    def _reserve_physical_qubit(self, physical_address):
        return None

    def _clear_phys_qubit_in_memory(self, physical_address):
        return None

    def _do_single_qubit_rotation(self, instr, subroutine_id, address, angle):
        phys = self._get_position_in_unit_module(self._get_app_id(subroutine_id), address)
        if phys >= 100:  # a qubit that came from the link
            self.corrections.append((instr.mnemonic, f"pair of attempt {phys - 100}"))

    def _wait_to_handle_epr_responses(self):
        return None

    def _do_wait(self):
        self.attempts += 1
        self._handle_epr_response(LinkLayerOKTypeK(
            type=ReturnType.OK_K, create_id=0, logical_qubit_id=100 + self.attempts, directionality_flag=1,
            sequence_number=self.attempts, purpose_id=0, remote_node_id=1,
            goodness=self.durations[self.attempts - 1], goodness_time=0, bell_state=BellState.PSI_PLUS))


class Ctrl(QNodeController):
    @classmethod
    def _get_executor_class(cls, flavour=None):
        return Ex

    def stop(self):
        pass

    def _mark_message_finished(self, msg_id, msg):
        pass


class Conn(BaseNetQASMConnection):
    def __init__(self, *a, ctrl, **k):
        self.ctrl = ctrl
        super().__init__(*a, **k)

    def _commit_serialized_message(self, raw_msg, block=True, callback=None):
        list(self.ctrl.handle_netqasm_message(0, deserialize_host_msg(raw_msg)))

    def _get_network_info(self):
        return DebugNetworkInfo


def run(other_qubits):
    DebugConnection.node_ids = {"bob": 0, "alice": 1}
    SharedMemoryManager.reset_memories()
    BaseNetQASMConnection._app_ids = {}
    ctrl = Ctrl(name="bob", flavour=NVFlavour())
    ex = ctrl._executor
    sock = EPRSocket("alice")
    conn = Conn("bob", node_name="bob", epr_sockets=[sock], max_qubits=5, ctrl=ctrl,
                hardware_config=NVHardwareConfig(5), compiler=NVSubroutineTranspiler)
    others = [Qubit(conn) for _ in range(other_qubits)]
    q = sock.recv_keep(number=1, min_fidelity_all_at_end=80, max_tries=3)[0]
    try:
        conn.flush()
        phys = ex._qubit_unit_modules[conn.app_id][q.qubit_id]
        print(f"  {other_qubits} other live qubit(s): ok - {ex.attempts} attempts, kept physical qubit {phys} "
              f"(attempt {phys - 100}), corrections {ex.corrections}")
        return phys == 102 and ex.corrections[-1] == ("rot_x", "pair of attempt 2")
    except Exception as e:
        print(f"  {other_qubits} other live qubit(s): after {ex.attempts} attempt(s) "
              f"{type(e).__name__}: {str(e).splitlines()[0]}")
        return False


print("NV recv_keep(number=1, min_fidelity_all_at_end=80, max_tries=3); link: attempt 1 too slow, attempt 2 fast, both Psi+")
print("expected in both cases: 2 attempts, the pair of attempt 2 is kept and gets one rot_x")
results = [run(0), run(1)]
sys.exit(0 if all(results) else 1)
