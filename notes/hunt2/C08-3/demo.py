"""Q-register values are tracked in text order, not in execution order: a `set` at the bottom of a loop body is
invisible to the gate at the top of the body, which is expanded for the value of the first iteration only."""
import copy
import sys

import numpy as np

from netqasm.backend.executor import Executor
from netqasm.lang.parsing import parse_text_subroutine
from netqasm.sdk.transpile import NVSubroutineTranspiler

N = 3  # qubits; virtual address == position in the state vector (0 = electron)

TEXT = """# NETQASM 1.0
# APPID 0
set R0 0
set Q0 1        // control: carbon 1
set Q1 2        // first target: carbon 2
LOOP:
beq R0 2 END
cnot Q0 Q1      // iteration 1: carbon 1 -> carbon 2, iteration 2: carbon 1 -> electron
set Q1 0        // next target: the electron
add R0 R0 1
jmp LOOP
END:
"""


class StateVector(Executor):
    """netqasm's own Executor with a 3-qubit state vector behind it."""

    def __init__(self, name):
        super().__init__(name=name)
        self.psi = np.zeros(2**N, dtype=complex)
        self.psi[0b010] = 1  # |electron carbon1 carbon2> = |0 1 0>

    def _apply(self, instr, qubits):
        if len(set(qubits)) != len(qubits):
            raise ValueError(f"{instr}: control and target are both qubit {qubits[0]}")
        k = len(qubits)
        psi = self.psi.reshape([2] * N)
        m = np.asarray(instr.to_matrix(), dtype=complex).reshape([2] * (2 * k))
        psi = np.tensordot(m, psi, axes=(list(range(k, 2 * k)), qubits))
        self.psi = np.moveaxis(psi, list(range(k)), qubits).reshape(2**N)

    def _do_single_qubit_instr(self, instr, subroutine_id, address):
        self._apply(instr, [address])

    def _do_single_qubit_rotation(self, instr, subroutine_id, address, angle):
        self._apply(instr, [address])

    def _do_controlled_qubit_rotation(self, instr, subroutine_id, address1, address2, angle):
        self._apply(instr, [address1, address2])

    def _do_two_qubit_instr(self, instr, subroutine_id, address1, address2):
        self._apply(instr, [address1, address2])


def run(subroutine, name):
    ex = StateVector(name)
    ex.init_new_application(app_id=0, max_qubits=N)
    ex.consume_execute_subroutine(subroutine)
    probs = np.abs(ex.psi) ** 2
    return format(int(np.argmax(probs)), f"0{N}b"), round(float(probs.max()), 6)


vanilla = parse_text_subroutine(TEXT)
expected = run(copy.deepcopy(vanilla), "vanilla")
print(f"expected (vanilla): final state |e c1 c2> = |{expected[0]}> (p={expected[1]})")

nv = NVSubroutineTranspiler(copy.deepcopy(vanilla), debug=False).transpile()
try:
    got = run(nv, "nv")
except Exception as exc:
    print(f"got      (NV)     : execution FAILED in iteration 2: {type(exc).__name__}: {str(exc).splitlines()[0]}")
    print("the cnot was expanded once, as carbon-carbon (Q1 = 2 from the text above it); with Q1 = 0 the "
          "expansion swaps carbon 1 into the electron and then applies crot_x electron -> Q1 = electron")
    sys.exit(1)
print(f"got      (NV)     : final state |e c1 c2> = |{got[0]}> (p={got[1]})")
sys.exit(0 if got == expected else 1)
