"""C13 demo 2: a keep-response whose bookkeeping fails *after* the qubit was mapped stays
queued and is applied a second time to the next request: two virtual qubits, one physical."""
import sys

from netqasm.backend.executor import Executor
from netqasm.backend.network_stack import CREATE_FIELDS, BaseNetworkStack
from netqasm.lang.parsing import parse_text_subroutine
from netqasm.qlink_compat import LinkLayerOKTypeK
from netqasm.sdk.shared_memory import SharedMemoryManager


class Stack(BaseNetworkStack):
    def put(self, request):
        pass

    def setup_epr_socket(self, epr_socket_id, remote_node_id, remote_epr_socket_id, timeout=1.0):
        pass

    def get_purpose_id(self, remote_node_id, epr_socket_id):
        return epr_socket_id


class Ex(Executor):
    node_id = 0

    def _wait_to_handle_epr_responses(self):  # base version recurses forever
        pass

    def _do_wait(self):  # let a waiting subroutine suspend
        yield "wait"


def create_sub(vids, ent_len, base):
    """create_epr (keep) of len(vids) pairs with node 1 on socket 0.
    arrays: @base = virtual ids, @base+1 = ent info (ent_len entries), @base+2 = request args"""
    q, e, a = base, base + 1, base + 2
    text = f"# NETQASM 0.0\n# APPID 0\nset R5 {len(vids)}\narray R5 @{q}\n"
    for i, v in enumerate(vids):
        text += f"set R6 {v}\nstore R6 @{q}[{i}]\n"
    text += f"set R5 {ent_len}\narray R5 @{e}\n"
    text += f"set R5 {CREATE_FIELDS}\narray R5 @{a}\nset R6 0\nstore R6 @{a}[0]\n"
    text += f"set R6 {len(vids)}\nstore R6 @{a}[1]\n"
    text += f"set R0 1\nset R1 0\nset R2 {q}\nset R3 {a}\nset R4 {e}\n"
    text += f"create_epr R0 R1 R2 R3 R4\nwait_all @{e}[0:{ent_len}]\n"
    return parse_text_subroutine(text)


def deliver(ex):
    """Link layer: reserve a position through the executor, then hand over the pair."""
    phys = ex._get_unused_physical_qubit()
    resp = LinkLayerOKTypeK(
        logical_qubit_id=phys, directionality_flag=0, purpose_id=0, remote_node_id=1
    )
    try:
        ex._handle_epr_response(resp)
        return f"physical {phys}: ok"
    except Exception as exc:  # noqa
        return f"physical {phys}: {type(exc).__name__}: {str(exc).splitlines()[0]}"


SharedMemoryManager.reset_memories()
ex = Ex(name="n")
ex.network_stack = Stack()
ex.init_new_application(app_id=0, max_qubits=3)

# Two pairs for virtual qubits 0 and 1, but the ent-info array only has room for one pair.
gen = ex.execute_subroutine(create_sub([0, 1], ent_len=10, base=0))
assert next(gen) == "wait"
print("pair 1:", deliver(ex))
print("pair 2:", deliver(ex), " <- loud, after virtual qubit 1 was already mapped")
list(gen)  # first subroutine finishes (its ent-info slice is filled)
print("unit module:", ex._qubit_unit_modules[0], " pending responses:", len(ex._pending_epr_responses))

# The application goes on: a correct request for one more pair, for virtual qubit 2.
gen2 = ex.execute_subroutine(create_sub([2], ent_len=10, base=3))
assert next(gen2) == "wait"
print("pair 3:", deliver(ex))

um = ex._qubit_unit_modules[0]
mapped = [p for p in um if p is not None]
print("unit module:", um, " marked in use:", sorted(ex._used_physical_qubit_addresses))
print("\nexpected: no two allocated virtual qubits map to the same physical qubit,")
print("          and marked-in-use == mapped")
ok = True
if len(mapped) != len(set(mapped)):
    print(f"got     : virtual qubits {[v for v, p in enumerate(um) if mapped.count(p) > 1]} "
          f"share one physical qubit: {um}")
    ok = False
if set(mapped) != ex._used_physical_qubit_addresses:
    print(f"got     : in use {sorted(ex._used_physical_qubit_addresses)}, mapped {sorted(set(mapped))}")
    ok = False
sys.exit(0 if ok else 1)
