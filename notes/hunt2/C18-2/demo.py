"""C18 / finding 2: a preemption between the two registrations in _SocketHub.connect leaves a stale entry
behind, and in the next session the endpoint that starts first "connects" to nobody.

    connect():  self._open_sockets.add(socket.key)      # <- A is preempted after this statement
                self._remote_sockets.add(socket.key)

While A is preempted, B connects (sees A open), sends, closes.  B's close removes A's key from
_remote_sockets - which is not there yet.  A then adds it, receives B's message, closes: nobody will ever
remove A's key from _remote_sockets again.  Session 2 on the same names: B starts first, finds A's stale
key, returns from the constructor at once ("connected but closed again") and its first send fails.
"""
import sys
import threading
import time

from netqasm.sdk.classical_communication import ThreadSocket
from netqasm.sdk.classical_communication.thread_socket import socket_hub as hubmod

hub = hubmod._socket_hub
SRC = open(hubmod.__file__).readlines()
at_gap, go_on = threading.Event(), threading.Event()


def tracer(frame, event, arg):  # pauses the calling thread in connect(), just before `_remote_sockets.add`
    if frame.f_code.co_filename == hubmod.__file__ and frame.f_code.co_name == "connect":
        def local(frame, event, arg):
            if event == "line" and "_remote_sockets.add" in SRC[frame.f_lineno - 1]:
                at_gap.set()
                go_on.wait()
            return local
        return local


got = []


def alice_1():
    sys.settrace(tracer)
    s = ThreadSocket("A", "B")
    sys.settrace(None)
    got.append(s.recv(timeout=2))
    del s  # regular close


ta = threading.Thread(target=alice_1)
ta.start()
at_gap.wait()
b = ThreadSocket("B", "A")
b.send("hello")
del b  # B: connect, send, close - all while A sits between the two statements
go_on.set()
ta.join()
print("session 1: A received", got, "| both sockets closed | hub: open =", hub._open_sockets,
      " remote =", hub._remote_sockets)

res = {}


def bob_2():
    t0 = time.time()
    s = ThreadSocket("B", "A")
    res["ctor"] = time.time() - t0
    try:
        s.send("m")
        res["send"] = "ok"
    except Exception as exc:
        res["send"] = repr(exc)
    time.sleep(0.6)


tb = threading.Thread(target=bob_2)
tb.start()
time.sleep(0.4)  # A starts second
a2 = ThreadSocket("A", "B")
tb.join()
print("expected: session 2, B first: constructor waits ~0.4 s for A, then send succeeds")
print(f"observed: constructor returned after {res['ctor']:.2f} s, send -> {res['send']}")
sys.exit(0 if res["send"] == "ok" else 1)
