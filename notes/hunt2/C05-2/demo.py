"""C05 demo 2: a resolved Future / RegFuture is an `int` whose C-level value is always 0.
`int(m)`, `m + 0`, `m == 1` give the controller's value, but everything that goes through
`__index__` (range(m), seq[m], '%d' % m, ctypes = the binary encoding of an immediate) gives 0.
So a value read back after one flush and used as a plain integer in the next subroutine
(loop count, initial array value) is silently compiled as 0.

Run: cd /tmp/hunt2/C05/wt && PYTHONPATH=/tmp/hunt2/C05/wt /venv/bin/python /tmp/hunt2/C05/out/2/demo.py
"""
import operator
import sys

from netqasm.backend.executor import Executor
from netqasm.backend.messages import deserialize_host_msg
from netqasm.backend.qnodeos import QNodeController
from netqasm.sdk.connection import BaseNetQASMConnection, DebugNetworkInfo
from netqasm.sdk.qubit import Qubit


class OneExecutor(Executor):
    def _do_meas(self, subroutine_id, q_address):
        return 1  # every measurement yields 1


class Ctrl(QNodeController):
    @classmethod
    def _get_executor_class(cls, flavour=None):
        return OneExecutor

    def stop(self):
        pass

    def _mark_message_finished(self, msg_id, msg):
        pass


class Conn(BaseNetQASMConnection):
    """Hands every serialized host message to an in-process controller."""

    def __init__(self):
        self.ctrl = Ctrl("demo2")
        super().__init__(app_name="demo2", node_name="demo2")

    def _get_network_info(self):
        return DebugNetworkInfo

    def _commit_serialized_message(self, raw_msg, block=True, callback=None):
        list(self.ctrl.handle_netqasm_message(0, deserialize_host_msg(raw_msg)))

    def ctrl_array(self, arr):
        return list(self.ctrl._executor._app_arrays[self.app_id]._get_array(arr.address))


failures = []


def check(what, got, expected):
    ok = got == expected
    print(f"{'ok      ' if ok else 'MISMATCH'} {what}: expected {expected!r}, got {got!r}")
    if not ok:
        failures.append(what)


conn = Conn()
m = Qubit(conn).measure()  # Future (array entry)
r = Qubit(conn).measure(store_array=False)  # RegFuture
r2 = Qubit(conn).measure(store_array=False)  # another RegFuture
sel = conn.new_array(init_values=[10, 20])
sel.get_future_index(r).add(5)  # controller: sel[r] += 5, i.e. sel[1] = 25
by_reg = sel.get_future_index(r)
conn.flush()

print("controller: sel =", conn.ctrl_array(sel), "; the outcomes m, r and r2 are all 1")
check("int(m)", int(m), 1)
check("int(r)", int(r), 1)
# -- host reads that go through __index__
check("operator.index(m)", operator.index(m), 1)
check("operator.index(r)", operator.index(r), 1)
check("len(range(m))", len(range(m)), 1)
check("['Z', 'X'][m]", ["Z", "X"][m], "X")
check("'%d' % m", "%d" % m, "1")
check("r + r2 (second operand is taken at C level)", r + r2, 2)
check("r == r2", r == r2, True)
check("sel.get_future_index(r).value (controller entry sel[1])", by_reg.value, conn.ctrl_array(sel)[1])

# -- second subroutine: the value read back is used as an ordinary integer
count = conn.new_array(init_values=[0])
with conn.loop(m):  # direct execution: range(1) -> one iteration
    count.get_future_index(0).add(1)
copy = conn.new_array(init_values=[m, 7])  # direct execution: [1, 7]
conn.flush()
check("iterations of `with conn.loop(m)` on the controller", conn.ctrl_array(count)[0], 1)
check("controller contents of new_array(init_values=[m, 7])", conn.ctrl_array(copy), [1, 7])
check("host view of that array", copy[:], [1, 7])

print(f"\n{len(failures)} mismatches" if failures else "\nno mismatch")
sys.exit(1 if failures else 0)
