"""An error response (e.g. the time limit of request A expired) is never taken out of the executor's list of
pending responses: it is handled again whenever any later response arrives.  With the base class handler (which
raises) no later request on this node can ever get its responses."""
import itertools
import logging
import sys

from netqasm.backend.executor import Executor
from netqasm.backend.messages import deserialize_host_msg
from netqasm.backend.network_stack import BaseNetworkStack
from netqasm.backend.qnodeos import QNodeController
from netqasm.qlink_compat import (
    Basis, BellState, ErrorCode, LinkLayerErr, LinkLayerOKTypeM, ReturnType, TimeUnit,
)
from netqasm.sdk.connection import BaseNetQASMConnection
from netqasm.sdk.epr_socket import EPRSocket
from netqasm.sdk.network import NetworkInfo
from netqasm.sdk.shared_memory import SharedMemoryManager

logging.disable(logging.WARNING)
NODES = {"alice": 0, "bob": 1}


class Info(NetworkInfo):
    _get_node_id = classmethod(lambda cls, node_name: NODES[node_name])
    _get_node_name = classmethod(lambda cls, node_id: {v: k for k, v in NODES.items()}[node_id])
    get_node_id_for_app = classmethod(lambda cls, app_name: NODES[app_name])
    get_node_name_for_app = classmethod(lambda cls, app_name: app_name)


class Stack(BaseNetworkStack):
    def __init__(self):
        self.requests, self.answered = [], 0

    def put(self, request):
        self.requests.append(request)

    def setup_epr_socket(self, epr_socket_id, remote_node_id, remote_epr_socket_id, timeout=1.0):
        pass

    def get_purpose_id(self, remote_node_id, epr_socket_id):
        return epr_socket_id


class Exec(Executor):
    node_id = NODES["alice"]

    def _do_wait(self):
        yield  # hand control to the driver, which plays the link layer

    def _wait_to_handle_epr_responses(self):
        pass  # (the base class would recurse without end)


class RecoveringExec(Exec):
    """A controller that deals with link-layer errors itself instead of raising."""
    seen = []

    def _handle_epr_err_response(self, response):
        self.seen.append(response)


def make_controller(executor_class):
    class Controller(QNodeController):
        _get_executor_class = classmethod(lambda cls, flavour=None: executor_class)

        def stop(self):
            pass

        def _mark_message_finished(self, msg_id, msg):
            pass

    return Controller(name="alice")


class Conn(BaseNetQASMConnection):
    """Hands every serialized Host message to the controller; `link_layer` runs at each wait."""

    def __init__(self, app_name, controller, link_layer, **kwargs):
        self._ctrl, self._link_layer, self._ids = controller, link_layer, itertools.count()
        super().__init__(app_name=app_name, **kwargs)

    def _get_network_info(self):
        return Info

    def _commit_serialized_message(self, raw_msg, block=True, callback=None):
        for n, _ in enumerate(self._ctrl.handle_netqasm_message(next(self._ids), deserialize_host_msg(raw_msg))):
            if n >= 3:
                raise TimeoutError("subroutine is still waiting for its responses")
            self._link_layer(self._ctrl._executor)


def scenario(executor_class):
    stack = Stack()

    def link_layer(executor):
        """A request with max_time == 1 times out (ERR/TIMEOUT); every other request succeeds with duration 42."""
        while stack.answered < len(stack.requests):
            req = stack.requests[stack.answered]
            stack.answered += 1
            if req.max_time == 1:
                rsp = LinkLayerErr(type=ReturnType.ERR, create_id=stack.answered, error_code=ErrorCode.TIMEOUT,
                                   origin_node_id=NODES["alice"])
            else:
                rsp = LinkLayerOKTypeM(type=ReturnType.OK_M, create_id=stack.answered, measurement_outcome=1,
                                       measurement_basis=Basis.Z, directionality_flag=0, sequence_number=0,
                                       purpose_id=req.purpose_id, remote_node_id=req.remote_node_id, goodness=42,
                                       bell_state=BellState.PHI_PLUS)
            executor._handle_epr_response(rsp)

    SharedMemoryManager.reset_memories()
    BaseNetQASMConnection._app_ids = {}
    ctrl = make_controller(executor_class)
    ctrl.network_stack = stack
    sock_a, sock_b = EPRSocket("bob", epr_socket_id=0), EPRSocket("bob", epr_socket_id=1)
    conn = Conn("alice", ctrl, link_layer, epr_sockets=[sock_a, sock_b])
    outcome = []
    sock_a.create_measure(number=1, max_time=1, time_unit=TimeUnit.MICRO_SECONDS)  # request A: will time out
    try:
        conn.flush()
    except Exception as exc:
        outcome.append(f"A: {type(exc).__name__}: {str(exc).splitlines()[0][:125]}")
    for k in (1, 2):  # requests B1, B2 on the *other* socket: the link layer answers them properly
        res = sock_b.create_measure(number=1)
        try:
            conn.flush()
            outcome.append(f"B{k}: duration={int(res[0].generation_duration)}")
        except Exception as exc:
            outcome.append(f"B{k}: {type(exc).__name__}: {str(exc).splitlines()[0][:125]}")
    pending = list(ctrl._executor._pending_epr_responses)
    return outcome, pending


bad = 0
print("1) base Executor (its error handler raises):")
outcome, pending = scenario(Exec)
for line in outcome:
    print("   ", line)
print("    expected after A's (loud) error: B1: duration=42, B2: duration=42, nothing pending; pending now:",
      [type(p).__name__ for p in pending])
bad += outcome[1:] != ["B1: duration=42", "B2: duration=42"] or bool(pending)

print("2) subclass whose _handle_epr_err_response recovers instead of raising:")
outcome, pending = scenario(RecoveringExec)
for line in outcome:
    print("   ", line)
print(f"    error handler invoked {len(RecoveringExec.seen)} times for the one error (expected 1); still pending:",
      [type(p).__name__ for p in pending])
bad += len(RecoveringExec.seen) != 1 or bool(pending)

if bad:
    print("VIOLATION: the ERR response of request A stays in Executor._pending_epr_responses for ever; with the base "
          "class the responses of later requests never reach their result handles")
    sys.exit(1)
print("ok")
