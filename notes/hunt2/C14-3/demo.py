"""C14: a flush that fails (here through the *known* assembler-scratch limitation) skips
Builder._reset(), so the measurement-outcome registers M0.. of the failed segment stay
"used" for ever.  Later segments that are well inside the documented budget of 16
register outcomes per flush segment no longer compile: the number of registers needed
depends on what the connection did before, not on what is open / pending now.
"""
import logging
import sys
from contextlib import ExitStack

from netqasm.sdk.connection import DebugConnection
from netqasm.sdk.epr_socket import EPRSocket
from netqasm.sdk.qubit import Qubit

logging.disable(logging.CRITICAL)
DebugConnection.node_ids = {"Alice": 0, "Bob": 1}


def used_m(conn):
    return sum(conn.builder._mem_mgr._used_meas_registers.values())


def ten_register_outcomes(conn):
    for _ in range(10):
        Qubit(conn).measure(store_array=False)


def main():
    sock = EPRSocket("Bob")
    conn = DebugConnection("Alice", epr_sockets=[sock])

    # control: two consecutive segments of 10 register outcomes each are fine
    ten_register_outcomes(conn)
    conn.flush()
    ten_register_outcomes(conn)
    conn.flush()
    print(f"control: 2 segments x 10 register outcomes compile; M registers in use after flush = {used_m(conn)}")

    # segment A: 10 register outcomes + the known failing combination
    # (a finished 12-register construct + create_keep in one flush segment)
    ten_register_outcomes(conn)
    with ExitStack() as stack:
        for _ in range(12):
            stack.enter_context(conn.loop(1))
        Qubit(conn).measure()
    sock.create_keep(1)[0].measure()
    try:
        conn.flush()
        print("segment A compiled (known limitation not triggered?)")
        return 0
    except RuntimeError as e:
        print(f"segment A: flush fails as documented: RuntimeError: {e}")
    print(f"nothing pending ({len(conn.builder._pending_commands)} commands), "
          f"but M registers still in use = {used_m(conn)}, "
          f"registers still queued for ret_reg = {len(conn.builder._mem_mgr.get_registers_to_return())}")

    # segment B: 10 register outcomes, well inside the budget of 16 per segment
    try:
        ten_register_outcomes(conn)
        conn.flush()
    except RuntimeError as e:
        print(f"VIOLATION: segment B (10 register outcomes, expected to compile): RuntimeError: {e}")
        return 1
    print("segment B compiled")
    return 0


if __name__ == "__main__":
    rc = main()
    sys.stdout.flush()
    import os
    os._exit(rc)
