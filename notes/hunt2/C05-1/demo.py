"""C05 demo 1: every measurement into a RegFuture re-binds the handle to a fresh M register
(Builder._build_cmds_measure: `future.reg = outcome_reg`), and an if-condition resolves its
RegFuture operand to a register only when the block is left. So a condition on a RegFuture that
is measured again in the if body (A) or later in a loop body (B) tests the wrong register.

Run: cd /tmp/hunt2/C05/wt && PYTHONPATH=/tmp/hunt2/C05/wt /venv/bin/python /tmp/hunt2/C05/out/1/demo.py
"""
import sys

from netqasm.backend.executor import Executor
from netqasm.backend.messages import deserialize_host_msg
from netqasm.backend.qnodeos import QNodeController
from netqasm.sdk.connection import BaseNetQASMConnection, DebugNetworkInfo
from netqasm.sdk.futures import RegFuture
from netqasm.sdk.qubit import Qubit


class RecExecutor(Executor):
    """Base executor + a log of gate applications and scripted measurement outcomes."""

    events, outcomes = None, None

    def _do_single_qubit_instr(self, instr, subroutine_id, address):
        self.events.append((instr.mnemonic, address))

    def _do_meas(self, subroutine_id, q_address):
        out = self.outcomes.pop(0)
        self.events.append(("meas", q_address, out))
        return out


class Ctrl(QNodeController):
    @classmethod
    def _get_executor_class(cls, flavour=None):
        return RecExecutor

    def stop(self):
        pass

    def _mark_message_finished(self, msg_id, msg):
        pass


class Conn(BaseNetQASMConnection):
    """Hands every serialized host message to an in-process controller."""

    def __init__(self, outcomes):
        self.ctrl = Ctrl("demo1")
        self.ctrl._executor.events = []
        self.ctrl._executor.outcomes = list(outcomes)
        self.text = []
        super().__init__(app_name="demo1", node_name="demo1")

    def _get_network_info(self):
        return DebugNetworkInfo

    def _commit_serialized_message(self, raw_msg, block=True, callback=None):
        list(self.ctrl.handle_netqasm_message(0, deserialize_host_msg(raw_msg)))

    def commit_subroutine(self, subroutine, block=True, callback=None):
        self.text.append(str(subroutine))
        super().commit_subroutine(subroutine, block, callback)


def scenario_a(conn):
    """m := measure(q); if m != 1: { X(q); m := measure(q) }          outcomes 1, (0)"""
    q = Qubit(conn)
    m = RegFuture(conn)
    q.measure(future=m, inplace=True)
    with m.if_ne(1):  # same result with the callback form conn.if_ne(m, 1, body)
        q.X()
        q.measure(future=m, inplace=True)
    conn.flush()
    return m


def scenario_b(conn):
    """m := measure(q); repeat 2: { if m == 0: X(q); m := measure(q) }   outcomes 0, 1, 1"""
    q = Qubit(conn)
    m = RegFuture(conn)
    q.measure(future=m, inplace=True)
    with conn.loop(2):
        with m.if_eq(0):
            q.X()
        q.measure(future=m, inplace=True)
    conn.flush()
    return m


CASES = [
    # direct execution: m == 1, so the body is skipped
    ("A: measurement into m inside the if body", scenario_a, [1, 0], [("init", 0), ("meas", 0, 1)], 1),
    # direct execution: X only in the first iteration (afterwards m == 1)
    (
        "B: measurement into m later in a loop body",
        scenario_b,
        [0, 1, 1],
        [("init", 0), ("meas", 0, 0), ("x", 0), ("meas", 0, 1), ("meas", 0, 1)],
        1,
    ),
]

failed = False
for title, scenario, outcomes, expected_events, expected_m in CASES:
    conn = Conn(outcomes=outcomes)
    m = scenario(conn)
    events = conn.ctrl._executor.events
    print(f"--- {title}: {scenario.__doc__}")
    print(conn.text[-1])
    print("expected gate/measure log:", expected_events, " m =", expected_m)
    print("actual   gate/measure log:", events, " m =", m.value)
    if events != expected_events or m.value != expected_m:
        failed = True
        print("VIOLATION: the condition is evaluated on another register than the one holding m\n")

sys.exit(1 if failed else 0)
