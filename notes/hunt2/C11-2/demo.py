"""create_rsp(min_fidelity_all_at_end=..., max_tries=n): the request is fired n times back to back.

Expected (as create_keep with the same keywords does): one request at a time; a new attempt only after the
responses of the previous one were read; afterwards no request is left over in the controller and the handles
read the responses of the attempt that ended the loop.
"""
import itertools
import logging
import sys

from netqasm.backend.executor import Executor
from netqasm.backend.messages import deserialize_host_msg
from netqasm.backend.network_stack import BaseNetworkStack
from netqasm.backend.qnodeos import QNodeController
from netqasm.qlink_compat import Basis, BellState, LinkLayerOKTypeM, ReturnType
from netqasm.sdk.build_nv import NVEprCompiler
from netqasm.sdk.connection import BaseNetQASMConnection
from netqasm.sdk.epr_socket import EPRSocket
from netqasm.sdk.network import NetworkInfo
from netqasm.sdk.shared_memory import SharedMemoryManager

logging.disable(logging.WARNING)
NODES = {"alice": 0, "bob": 1}


class Info(NetworkInfo):
    _get_node_id = classmethod(lambda cls, node_name: NODES[node_name])
    _get_node_name = classmethod(lambda cls, node_id: {v: k for k, v in NODES.items()}[node_id])
    get_node_id_for_app = classmethod(lambda cls, app_name: NODES[app_name])
    get_node_name_for_app = classmethod(lambda cls, app_name: app_name)


class Stack(BaseNetworkStack):
    def __init__(self):
        self.requests, self.answered = [], 0

    def put(self, request):
        self.requests.append(request)

    def setup_epr_socket(self, epr_socket_id, remote_node_id, remote_epr_socket_id, timeout=1.0):
        pass

    def get_purpose_id(self, remote_node_id, epr_socket_id):
        return epr_socket_id


class Exec(Executor):
    node_id = NODES["alice"]

    def _do_wait(self):
        yield  # hand control to the driver, which plays the link layer


class Controller(QNodeController):
    _get_executor_class = classmethod(lambda cls, flavour=None: Exec)

    def stop(self):
        pass

    def _mark_message_finished(self, msg_id, msg):
        pass


class Conn(BaseNetQASMConnection):
    """Hands every serialized Host message to the controller; `link_layer` runs at each wait."""

    def __init__(self, app_name, controller, link_layer, **kwargs):
        self._ctrl, self._link_layer, self._ids = controller, link_layer, itertools.count()
        super().__init__(app_name=app_name, **kwargs)

    def _get_network_info(self):
        return Info

    def _commit_serialized_message(self, raw_msg, block=True, callback=None):
        for n, _ in enumerate(self._ctrl.handle_netqasm_message(next(self._ids), deserialize_host_msg(raw_msg))):
            assert n < 100, "deadlock"
            self._link_layer(self._ctrl._executor)


TOO_SLOW = NVEprCompiler.get_max_time_for_fidelity(80) + 1000  # a duration that fails the constraint
stack = Stack()


def link_layer(executor):
    """Answers every request the stack has got so far; attempt k (1, 2, ...) takes TOO_SLOW + k, the 3rd is fast."""
    while stack.answered < len(stack.requests):
        req = stack.requests[stack.answered]
        stack.answered += 1
        duration = TOO_SLOW + stack.answered if stack.answered < 3 else 7
        # (R-type creates are answered with the M-type tuple, see Builder._alloc_ent_results_array)
        executor._handle_epr_response(LinkLayerOKTypeM(
            type=ReturnType.OK_M, create_id=stack.answered, measurement_outcome=1, measurement_basis=Basis.Z,
            directionality_flag=0, sequence_number=0, purpose_id=req.purpose_id, remote_node_id=req.remote_node_id,
            goodness=duration, bell_state=BellState.PHI_PLUS))


SharedMemoryManager.reset_memories()
ctrl = Controller(name="alice")
ctrl.network_stack = stack
sock = EPRSocket("bob")
problems = []
with Conn("alice", ctrl, link_layer, epr_sockets=[sock]) as alice:
    results = sock.create_rsp(number=1, min_fidelity_all_at_end=80, max_tries=5)
    alice.flush()
    left = sum(len(v) for v in ctrl._executor._epr_create_requests.values())
    print(f"requests the stack received: {len(stack.requests)}, of which answered before the subroutine ended: "
          f"{stack.answered}  (expected 3 and 3: two slow attempts, then a fast one)")
    print(f"duration read by the handle: {int(results[0].generation_duration)}  (expected 7, the attempt that "
          f"satisfies the constraint)")
    print(f"create requests still registered in the controller: {left}  (expected 0)")
    if (len(stack.requests), stack.answered) != (3, 3):
        problems.append("requests were issued without waiting for the previous attempt")
    if int(results[0].generation_duration) != 7:
        problems.append("the handle reads a stale attempt")
    if left:
        problems.append("dead requests left behind")

    # The left-overs now swallow the response of the next, perfectly ordinary request on this socket.
    nxt = sock.create_measure(number=1)
    try:
        alice.flush()
        print("next create_measure: duration =", int(nxt[0].generation_duration))
    except Exception as exc:
        print(f"next create_measure(number=1) on the same socket fails: {type(exc).__name__}: "
              f"{str(exc).splitlines()[0]}")
        problems.append("the following request never gets its response")
        alice._clear_app_on_exit = False  # the controller is wedged; do not talk to it again on exit
        alice.builder._reset()

if problems:
    print("VIOLATION:", "; ".join(problems))
    sys.exit(1)
print("ok")
