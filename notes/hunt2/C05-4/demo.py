"""C05 demo 4: an array is returned to the host (`ret_arr`) only by the subroutine in which it was
allocated. A later subroutine that writes into it (add on a future, measurement into a future)
carries no `ret_arr`, so a controller that *sends* returned values - the model described in the
SharedMemory docstring - leaves the host with stale array contents after that flush.
The base Executor hides this only because `_instr_ret_arr` puts the controller's own list object
into the SharedMemory (host and controller then alias the same list).

Run: cd /tmp/hunt2/C05/wt && PYTHONPATH=/tmp/hunt2/C05/wt /venv/bin/python /tmp/hunt2/C05/out/4/demo.py
"""
import sys

from netqasm.backend.executor import Executor
from netqasm.backend.messages import deserialize_host_msg
from netqasm.backend.qnodeos import QNodeController
from netqasm.sdk.connection import BaseNetQASMConnection, DebugNetworkInfo
from netqasm.sdk.qubit import Qubit


class AliasingExecutor(Executor):  # the base behaviour
    def _do_meas(self, subroutine_id, q_address):
        return 1


class SendingExecutor(AliasingExecutor):
    """Returns the *values* of an array to the host instead of the controller's list object."""

    def _update_shared_memory(self, app_id, entry, value):
        if isinstance(value, list):
            value = list(value)
        super()._update_shared_memory(app_id, entry, value)


def make_conn(executor_class, name):
    class Ctrl(QNodeController):
        @classmethod
        def _get_executor_class(cls, flavour=None):
            return executor_class

        def stop(self):
            pass

        def _mark_message_finished(self, msg_id, msg):
            pass

    class Conn(BaseNetQASMConnection):
        def __init__(self):
            self.ctrl = Ctrl(name)
            self.text = []
            super().__init__(app_name=name, node_name=name)

        def _get_network_info(self):
            return DebugNetworkInfo

        def _commit_serialized_message(self, raw_msg, block=True, callback=None):
            list(self.ctrl.handle_netqasm_message(0, deserialize_host_msg(raw_msg)))

        def commit_subroutine(self, subroutine, block=True, callback=None):
            self.text.append(str(subroutine))
            super().commit_subroutine(subroutine, block, callback)

        def ctrl_array(self, arr):
            return self.ctrl._executor._app_arrays[self.app_id]._get_array(arr.address)

    return Conn()


def program(conn):
    counter = conn.new_array(init_values=[1, 2])
    outcomes = conn.new_array(2)
    conn.flush()  # ------------------------------------------- flush point
    counter.get_future_index(0).add(5)
    Qubit(conn).measure(future=outcomes.get_future_index(1))
    conn.flush()
    return counter, outcomes


failed = False
for executor_class in (AliasingExecutor, SendingExecutor):
    conn = make_conn(executor_class, "demo4" + executor_class.__name__)
    counter, outcomes = program(conn)
    print(f"--- {executor_class.__name__}")
    if executor_class is AliasingExecutor:
        print("second subroutine (no ret_arr):")
        print(conn.text[-1])
        same = conn.shared_memory._get_array(counter.address) is conn.ctrl_array(counter)
        print("host SharedMemory list IS the controller's list object:", same)
    for name, arr in (("counter", counter), ("outcomes", outcomes)):
        host, ctrl = arr[:], list(conn.ctrl_array(arr))
        print(f"{name}: controller {ctrl}  host {host}")
        if host != ctrl:
            failed = True
            print("VIOLATION: after the flush the Array handle on the host differs from the controller")
    print("fresh Future outcomes[1] on the host:", outcomes.get_future_index(1).value, "(controller: 1)")

sys.exit(1 if failed else 0)
