"""C06: with a completion callback that queues the next operations, compile -> instantiate -> commit
does NOT leave the connection in the state a flush leaves it in.

flush()/commit_protosubroutine() reset the builder bookkeeping *after* the message was handed to the
backend, compile() resets it *before*.  A callback that runs while the message is being committed
(in-process backend: as soon as the subroutine has run) and allocates an array (every q.measure() does)
keeps that array after compile/commit, but loses it after flush: the next flush then never declares it.
"""
import sys

from netqasm.backend.executor import Executor
from netqasm.backend.messages import SubroutineMessage, deserialize_host_msg
from netqasm.lang.operand import Template
from netqasm.lang.parsing import deserialize
from netqasm.sdk.connection import BaseNetQASMConnection, DebugNetworkInfo
from netqasm.sdk.qubit import Qubit
from netqasm.sdk.shared_memory import SharedMemoryManager

VALUES = {"a": 16}


class InProcessConnection(BaseNetQASMConnection):
    """Hands every message to an Executor in the same process; results are there when it returns."""

    def __init__(self, name):
        SharedMemoryManager.reset_memories()
        BaseNetQASMConnection._app_ids.clear()
        self.executor = Executor(name=name)
        self.declared = []  # array addresses declared by each subroutine that was sent
        super().__init__(app_name=name, node_name=name)

    def _get_network_info(self):
        return DebugNetworkInfo

    def _commit_serialized_message(self, raw_msg, block=True, callback=None):
        msg = deserialize_host_msg(raw_msg)
        if isinstance(msg, SubroutineMessage):
            subroutine = deserialize(msg.subroutine)
            self.declared.append(
                [i.address.address for i in subroutine.instructions if i.mnemonic == "array"]
            )
            self.executor.consume_execute_subroutine(subroutine)
        elif hasattr(msg, "max_qubits"):
            self.executor.init_new_application(msg.app_id, msg.max_qubits)
        if callback is not None:
            callback()  # "called when the quantum node controller sends the subroutine results"


def scenario(use_template):
    conn = InProcessConnection("alice")
    later = {}

    def next_round():  # the completion callback queues the next round on the same connection
        q = Qubit(conn)
        q.X()
        later["m"] = q.measure()  # allocates array @1

    q = Qubit(conn)
    q.rot_X(n=Template("a") if use_template else VALUES["a"], d=4)
    q.measure()  # allocates array @0

    if use_template:
        subroutine = conn.compile()
        subroutine.instantiate(conn.app_id, VALUES)
        conn.commit_subroutine(subroutine, block=False, callback=next_round)
    else:
        conn.flush(block=False, callback=next_round)

    to_return = [a.address for a in conn.builder._mem_mgr.get_arrays_to_return()]
    try:
        conn.flush()  # sends what the callback queued
        error = None
    except Exception as exc:
        error = f"{type(exc).__name__}: {str(exc).splitlines()[0]}"
    return to_return, conn.declared, error


flush_state = scenario(use_template=False)
compile_state = scenario(use_template=True)
print("                       arrays still to declare | arrays declared per subroutine | 2nd flush")
print("flush with values    :", flush_state)
print("compile/fill/commit  :", compile_state)
if flush_state != compile_state:
    print("expected: both flows leave the connection in the same state and have the same effect")
    print("got     : they differ (after flush() array @1, allocated in the callback, is never declared)")
    sys.exit(1)
print("OK")
