"""C12: wait_single / wait_any re-read their register operands on every poll.

Two subroutines of the same application are in progress (two outstanding requests).
Subroutine A waits with `wait_single @0[R0]` (R0 = 19: last field of pair 1 of its request).
While A is waiting, subroutine B makes progress and uses R0 for its own purposes.
Then only pair 0 of A's request arrives.  A's wait must not resume (entry 19 is undefined).
"""
import sys

from netqasm.backend.executor import Executor
from netqasm.backend.network_stack import BaseNetworkStack
from netqasm.lang.parsing import parse_text_subroutine
from netqasm.qlink_compat import LinkLayerOKTypeK
from netqasm.sdk.shared_memory import SharedMemoryManager


class Stack(BaseNetworkStack):
    def put(self, request):
        pass

    def setup_epr_socket(self, *args, **kwargs):
        pass

    def get_purpose_id(self, remote_node_id, epr_socket_id):
        return epr_socket_id


class Exe(Executor):
    node_id = 0

    def _wait_to_handle_epr_responses(self):  # retried by the driver below
        pass

    def _do_wait(self):  # one scheduling point per poll of a wait instruction
        yield "wait"


def wait_variant(wait_lines):
    sub_a = f"""
# NETQASM 1.0
# APPID 0
set R0 20
array R0 @0
set R0 2
array R0 @1
set R0 0
set R1 0
store R0 @1[R1]
set R0 1
set R1 1
store R0 @1[R1]
set R0 20
array R0 @2
set R0 0
set R1 0
store R0 @2[R1]
set R0 2
set R1 1
store R0 @2[R1]
set R0 1
set R1 0
set R2 1
set R3 2
set R4 0
create_epr R0 R1 R2 R3 R4
{wait_lines}
"""
    sub_b = """
# NETQASM 1.0
# APPID 0
set R0 10
array R0 @3
set R0 1
array R0 @4
set R0 5
set R1 0
store R0 @4[R1]
set R0 2
set R1 0
set R2 4
set R3 3
recv_epr R0 R1 R2 R3
set R0 0
set R1 10
wait_all @3[R0:R1]
"""
    SharedMemoryManager.reset_memories()
    exe = Exe(name="node")
    exe.network_stack = Stack()
    exe.init_new_application(app_id=0, max_qubits=8)
    gen_a = exe.execute_subroutine(parse_text_subroutine(sub_a))
    gen_b = exe.execute_subroutine(parse_text_subroutine(sub_b))

    assert next(gen_a) == "wait"  # A: request issued (2 pairs), now waiting
    assert next(gen_b) == "wait"  # B: request issued, now waiting on its own array
    # pair 0 of A's request arrives (create role: directionality_flag 0)
    exe._handle_epr_response(
        LinkLayerOKTypeK(logical_qubit_id=3, directionality_flag=0, sequence_number=1,
                         purpose_id=0, remote_node_id=1)
    )
    exe._handle_pending_epr_responses()
    results = exe._app_arrays[0]._arrays[0]
    assert results[0:10] == [0, 0, 3, 0, 1, 0, 1, 0, 0, 0] and results[10:20] == [None] * 10
    # A polls again
    try:
        state = next(gen_a)
    except StopIteration:
        state = "resumed and finished"
    return state, results[19]


status = 0
for name, lines in [
    ("wait_all    @0[10:20]", "set R0 10\nset R1 20\nwait_all @0[R0:R1]"),
    ("wait_single @0[19]   ", "set R0 19\nwait_single @0[R0]"),
    ("wait_any    @0[10:20]", "set R0 10\nset R1 20\nwait_any @0[R0:R1]"),
]:
    state, entry19 = wait_variant(lines)
    ok = state == "wait"
    print(f"{name}: awaited entry @0[19] = {entry19!r}; expected: still waiting; got: {state}"
          f"{'' if ok else '   <-- VIOLATION'}")
    if not ok:
        status = 1
sys.exit(status)
