"""C14: an operation that fails half-way (here: legitimately, because it is nested one level
too deep for the 16 registers) does not give back the registers it had already taken.

Only the context-manager forms (conn.loop, foreach, if) release in a `finally`.  The callback
form loop_body, the EPR post-processing (create_keep / recv_keep / *_context / *_rsp) and
loop_until take several registers one after the other and release them only at the very end
of the straight-line path.  After such a failure no operation is open, but the registers stay
reserved for the rest of the connection, so programs that compiled before stop compiling.
"""
import logging
import sys
from contextlib import ExitStack

from netqasm.sdk.connection import DebugConnection
from netqasm.sdk.epr_socket import EPRSocket
from netqasm.sdk.qubit import Qubit

logging.disable(logging.CRITICAL)
DebugConnection.node_ids = {"Alice": 0, "Bob": 1}


def active(conn):
    return sorted((str(r) for r in conn.builder._mem_mgr._active_registers), key=lambda s: int(s[1:]))


def keep_at_depth(conn, sock, depth):
    """sequential create_keep with a post routine inside `depth` nested counted loops (context form)."""
    outcomes = conn.new_array(3)

    def post(c, q, pair):
        q.measure(future=outcomes.get_future_index(pair))

    with ExitStack() as stack:
        for _ in range(depth):
            stack.enter_context(conn.loop(2))
        sock.create_keep(3, post_routine=post, sequential=True)
    conn.flush()


def attempt(conn, sock, depth):
    try:
        keep_at_depth(conn, sock, depth)
        return "compiles"
    except RuntimeError as e:
        conn.builder.subrt_pop_all_pending_commands()  # drop the half-built program
        for q in list(conn.active_qubits):
            q.active = False
        return f"RuntimeError: {e}"


def main():
    sock = EPRSocket("Bob")
    conn = DebugConnection("Alice", epr_sockets=[sock])

    r = attempt(conn, sock, 6)
    print(f"fresh connection, create_keep at depth 6 : {r}; active afterwards = {active(conn)}")
    assert r == "compiles"

    # too deep: 10 loop counters + 7 registers of the EPR post-processing > 16
    r = attempt(conn, sock, 10)
    print(f"create_keep at depth 10 (too deep)       : {r}; active afterwards = {active(conn)}")
    leaked = active(conn)

    r = attempt(conn, sock, 6)
    print(f"same connection, create_keep at depth 6  : {r}; active afterwards = {active(conn)}")
    r0 = attempt(conn, sock, 0)
    print(f"same connection, create_keep at depth 0  : {r0}; active afterwards = {active(conn)}")
    print("expected: 'compiles' at depth 6 and 0, and no active register while no operation is open")

    # the smallest instance of the same mechanism: callback form vs context form
    conn2 = DebugConnection("Alice", epr_sockets=[EPRSocket("Bob")])

    def body(c, i):
        raise KeyError("application error inside the loop body")

    try:
        with conn2.loop(3):
            raise KeyError("application error inside the loop body")
    except KeyError:
        pass
    ctx_form = active(conn2)
    try:
        conn2.loop_body(body, 3)
    except KeyError:
        pass
    cb_form = active(conn2)
    print(f"exception in the body: `with conn.loop(3)` leaves {ctx_form}, `conn.loop_body(body, 3)` leaves {cb_form}")

    if leaked or r != "compiles" or cb_form:
        print("VIOLATION: registers stay reserved although no operation is open")
        return 1
    return 0


if __name__ == "__main__":
    rc = main()
    sys.stdout.flush()
    import os
    os._exit(rc)  # skip connection finalisers
