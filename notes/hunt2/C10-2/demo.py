"""C10: on NV hardware recv_keep(number >= 2) cannot be built as soon as one other qubit is alive.

Expected: the request is compiled (the other qubit is moved out of the way, as it is for number=1) and
every kept qubit ends up in Phi+.  Got: AssertionError inside Builder._create_ent_qubits.
"""
import logging
import sys

from netqasm.sdk.build_types import NVHardwareConfig
from netqasm.sdk.connection import DebugConnection
from netqasm.sdk.epr_socket import EPRSocket
from netqasm.sdk.qubit import Qubit
from netqasm.sdk.transpile import NVSubroutineTranspiler

logging.getLogger().setLevel(logging.ERROR)
DebugConnection.node_ids = {"bob": 0, "alice": 1}


def build(number, other_qubits, consume_first=False):
    sock = EPRSocket("alice")
    conn = DebugConnection("bob", epr_sockets=[sock], max_qubits=8,
                           hardware_config=NVHardwareConfig(8), compiler=NVSubroutineTranspiler)
    others = [Qubit(conn) for _ in range(other_qubits)]
    if consume_first:
        others[0].measure()  # leaves virtual ID 0 free, the remaining live qubit sits at ID 1
    ids = [q.qubit_id for q in others if q.active]
    try:
        qubits = sock.recv_keep(number=number)
        conn.flush()
        return f"live qubit IDs before {ids}: built, EPR qubits at {[q.qubit_id for q in qubits]}", True
    except AssertionError as e:
        return f"live qubit IDs before {ids}: AssertionError {e!r}", False


failed = False
for number, others, consume in [(1, 1, False), (2, 0, False), (2, 1, False), (3, 1, False), (4, 1, False), (2, 2, True)]:
    msg, ok = build(number, others, consume)
    print(f"NV recv_keep(number={number}), {msg}")
    failed |= not ok
print("expected: every request above is compiled; got: see the AssertionError lines" if failed else "all built")
sys.exit(1 if failed else 0)
