"""C10: NV - after recv_keep(..., sequential=True, post_routine=...) the next receive on the connection aborts.

The Qubit handles that the sequential request returns stay registered as live qubits at virtual ID 0 although the
post routine consumed the pairs (through its FutureQubit).  The next request wants ID 0 for the communication qubit
and "moves" these non-existing qubits: qalloc/init/mov/qfree on an unallocated address -> the subroutine aborts.

Receiver-only run on netqasm's own Executor / QNodeController (no quantum state needed: the failure is loud).
"""
import logging
import sys

from netqasm.backend.executor import Executor
from netqasm.backend.messages import deserialize_host_msg
from netqasm.backend.network_stack import BaseNetworkStack
from netqasm.backend.qnodeos import QNodeController
from netqasm.lang.instr.flavour import NVFlavour
from netqasm.qlink_compat import BellState, LinkLayerOKTypeK, ReturnType
from netqasm.sdk.build_types import NVHardwareConfig
from netqasm.sdk.connection import BaseNetQASMConnection, DebugConnection, DebugNetworkInfo
from netqasm.sdk.epr_socket import EPRSocket
from netqasm.sdk.shared_memory import SharedMemoryManager
from netqasm.sdk.transpile import NVSubroutineTranspiler

logging.getLogger().setLevel(logging.ERROR)


class Stack(BaseNetworkStack):
    def put(self, request):
        pass

    def setup_epr_socket(self, *a, **k):
        return None

    def get_purpose_id(self, remote_node_id, epr_socket_id):
        return epr_socket_id


class Ex(Executor):
    """Delivers the next pair (always Phi+) whenever the subroutine waits."""

    def __init__(self, name=None, instr_log_dir=None, **kw):
        super().__init__(name=name, instr_log_dir=instr_log_dir)
        self.network_stack = Stack()
        self.delivered = 0
        self.measured = 0

    node_id = property(lambda self: 0)

    def _reserve_physical_qubit(self, physical_address):
        return None

    def _clear_phys_qubit_in_memory(self, physical_address):
        return None

    def _do_meas(self, subroutine_id, q_address):
        self._get_position_in_unit_module(self._get_app_id(subroutine_id), q_address)  # must exist
        self.measured += 1
        return 0

    def _wait_to_handle_epr_responses(self):
        return None

    def _do_wait(self):
        if self._pending_epr_responses:
            n = len(self._pending_epr_responses)
            self._handle_pending_epr_responses()
            if len(self._pending_epr_responses) == n:
                raise RuntimeError("deadlock")
            return
        self.delivered += 1
        self._handle_epr_response(LinkLayerOKTypeK(
            type=ReturnType.OK_K, create_id=0, logical_qubit_id=100 + self.delivered, directionality_flag=1,
            sequence_number=self.delivered, purpose_id=0, remote_node_id=1, goodness=1, goodness_time=0,
            bell_state=BellState.PHI_PLUS))


class Ctrl(QNodeController):
    @classmethod
    def _get_executor_class(cls, flavour=None):
        return Ex

    def stop(self):
        pass

    def _mark_message_finished(self, msg_id, msg):
        pass


class Conn(BaseNetQASMConnection):
    def __init__(self, *a, ctrl, **k):
        self.ctrl = ctrl
        super().__init__(*a, **k)

    def _commit_serialized_message(self, raw_msg, block=True, callback=None):
        list(self.ctrl.handle_netqasm_message(0, deserialize_host_msg(raw_msg)))

    def _get_network_info(self):
        return DebugNetworkInfo


def run(second):
    DebugConnection.node_ids = {"bob": 0, "alice": 1}
    SharedMemoryManager.reset_memories()
    BaseNetQASMConnection._app_ids = {}
    ctrl = Ctrl(name="bob", flavour=NVFlavour())
    sock = EPRSocket("alice")
    conn = Conn("bob", node_name="bob", epr_sockets=[sock], max_qubits=5, ctrl=ctrl,
                hardware_config=NVHardwareConfig(5), compiler=NVSubroutineTranspiler)
    outcomes = conn.new_array(4)

    def post(_, q, pair):
        q.measure(future=outcomes.get_future_index(pair))

    handles = sock.recv_keep(number=2, sequential=True, post_routine=post)
    conn.flush()
    ex = ctrl._executor
    print(f"  first request: {ex.delivered} pairs delivered, {ex.measured} measured, "
          f"unit module now {ex._qubit_unit_modules[conn.app_id]}")
    print(f"  but the SDK still lists live qubits at IDs {[q.qubit_id for q in conn.active_qubits]} "
          f"(returned handles active: {[h.active for h in handles]})")
    try:
        if second == "recv_keep(1)":
            sock.recv_keep(number=1)
        else:
            sock.recv_keep(number=2, sequential=True, post_routine=post)
        conn.flush()
        print(f"  second request {second}: ok, {ex.delivered} pairs delivered in total")
        return True
    except Exception as e:
        print(f"  second request {second}: {type(e).__name__}: {str(e).splitlines()[0]}")
        return False


ok = True
for second in ("recv_keep(1)", "recv_keep(2, sequential=True, post_routine=...)"):
    print(f"NV, recv_keep(2, sequential=True, post_routine=measure) followed by {second}")
    ok &= run(second)
print("expected: the second request runs and its pairs end up in Phi+ like those of the first; got: see above")
sys.exit(0 if ok else 1)
