"""C10: recv_rsp(min_fidelity_all_at_end=..., max_tries=2) applies the Pauli correction of pair 0 twice.

Receiver-only simulation on netqasm's own Executor / QNodeController.  The fake link layer
delivers a pair as soon as the RECV_EPR instruction is executed:
  attempt 1: Bell state PSI_PLUS, generation duration 50000 (> 28000 = limit for min fidelity 80)
  attempt 2: Bell state PHI_PLUS, generation duration 100
Each local half is tracked together with its remote partner as a 4-vector |local, remote>.
"""
import logging
import sys

import numpy as np

from netqasm.backend.executor import Executor
from netqasm.backend.messages import deserialize_host_msg
from netqasm.backend.network_stack import BaseNetworkStack
from netqasm.backend.qnodeos import QNodeController
from netqasm.qlink_compat import BellState, LinkLayerOKTypeK, ReturnType
from netqasm.sdk.connection import BaseNetQASMConnection, DebugConnection, DebugNetworkInfo
from netqasm.sdk.epr_socket import EPRSocket
from netqasm.sdk.shared_memory import SharedMemoryManager

logging.getLogger().setLevel(logging.ERROR)
S = 1 / np.sqrt(2)
BELL = {  # |local, remote>
    BellState.PHI_PLUS: np.array([S, 0, 0, S], dtype=complex),
    BellState.PHI_MINUS: np.array([S, 0, 0, -S], dtype=complex),
    BellState.PSI_PLUS: np.array([0, S, S, 0], dtype=complex),
    BellState.PSI_MINUS: np.array([0, S, -S, 0], dtype=complex),
}


class Stack(BaseNetworkStack):
    def put(self, request):
        pass

    def setup_epr_socket(self, *a, **k):
        return None

    def get_purpose_id(self, remote_node_id, epr_socket_id):
        return epr_socket_id


class Ex(Executor):
    def __init__(self, name=None, instr_log_dir=None, **kw):
        super().__init__(name=name, instr_log_dir=instr_log_dir)
        self.network_stack = Stack()
        self.to_deliver = []  # (bell state, duration)
        self.pairs = {}  # physical id -> (attempt, 4-vector)
        self.log = []

    node_id = property(lambda self: 0)

    def _reserve_physical_qubit(self, physical_address):
        return None

    def _clear_phys_qubit_in_memory(self, physical_address):
        self.log.append(("qfree physical", physical_address))
        self.pairs.pop(physical_address, None)
        return None

    def _do_single_qubit_rotation(self, instr, subroutine_id, address, angle):
        phys = self._get_position_in_unit_module(self._get_app_id(subroutine_id), address)
        attempt, vec = self.pairs[phys]
        self.pairs[phys] = (attempt, np.kron(instr.to_matrix(), np.eye(2)) @ vec)
        self.log.append((instr.mnemonic, "virtual", address, "= pair of attempt", attempt))

    def _do_recv_epr(self, subroutine_id, remote_node_id, epr_socket_id, q_array_address, ent_results_array_address):
        super()._do_recv_epr(subroutine_id, remote_node_id, epr_socket_id, q_array_address, ent_results_array_address)
        attempt = sum(1 for e in self.log if e[0] == "recv_epr") + 1
        self.log.append(("recv_epr", "attempt", attempt))
        bs, duration = self.to_deliver.pop(0)
        phys = 100 + attempt
        self.pairs[phys] = (attempt, BELL[bs].copy())
        self._handle_epr_response(LinkLayerOKTypeK(
            type=ReturnType.OK_K, create_id=0, logical_qubit_id=phys, directionality_flag=1,
            sequence_number=attempt, purpose_id=epr_socket_id, remote_node_id=remote_node_id,
            goodness=duration, goodness_time=0, bell_state=bs))

    def _wait_to_handle_epr_responses(self):
        return None  # a response that cannot be placed yet stays pending

    def _do_wait(self):
        n = len(self._pending_epr_responses)
        self._handle_pending_epr_responses()
        if len(self._pending_epr_responses) == n:
            raise RuntimeError("deadlock: waiting for a pair that cannot be placed")


class Ctrl(QNodeController):
    @classmethod
    def _get_executor_class(cls, flavour=None):
        return Ex

    def stop(self):
        pass

    def _mark_message_finished(self, msg_id, msg):
        pass


class Conn(BaseNetQASMConnection):
    def __init__(self, *a, ctrl, **k):
        self.ctrl = ctrl
        super().__init__(*a, **k)

    def _commit_serialized_message(self, raw_msg, block=True, callback=None):
        list(self.ctrl.handle_netqasm_message(0, deserialize_host_msg(raw_msg)))

    def _get_network_info(self):
        return DebugNetworkInfo


def run(api):
    DebugConnection.node_ids = {"bob": 0, "alice": 1}
    SharedMemoryManager.reset_memories()
    BaseNetQASMConnection._app_ids = {}
    ctrl = Ctrl(name="bob")
    ex = ctrl._executor
    ex.to_deliver = [(BellState.PSI_PLUS, 50000), (BellState.PHI_PLUS, 100)]
    sock = EPRSocket("alice")
    conn = Conn("bob", node_name="bob", epr_sockets=[sock], ctrl=ctrl)
    with conn:
        q = getattr(sock, api)(number=1, min_fidelity_all_at_end=80, max_tries=2)[0]
        conn.flush()
        phys = ex._qubit_unit_modules[conn.app_id][q.qubit_id]
        attempt, vec = ex.pairs[phys]
        fid = abs(np.vdot(BELL[BellState.PHI_PLUS], vec)) ** 2
        pending = len(ex._pending_epr_responses)
        ex._pending_epr_responses.clear()
        log = list(ex.log)  # without the clean-up at application stop
    return attempt, fid, pending, log


bad = False
for api in ("recv_keep", "recv_rsp"):
    attempt, fid, pending, log = run(api)
    print(f"--- {api}(number=1, min_fidelity_all_at_end=80, max_tries=2), attempt 1 too slow")
    for e in log:
        print("    ", e)
    print(f"  expected: kept qubit = local half of attempt 2, Phi+ fidelity 1.0, no pending link-layer response")
    print(f"  got     : kept qubit = local half of attempt {attempt}, Phi+ fidelity {fid:.3f}, "
          f"{pending} response(s) that could never be mapped to a qubit")
    if not (attempt == 2 and fid > 0.999 and pending == 0):
        print("  VIOLATION")
        bad = True
sys.exit(1 if bad else 0)
