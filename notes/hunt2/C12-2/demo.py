"""C12: the virtual qubit of a keep-pair is looked up in the qubit-ID array when the
response is handled, not when create_epr ran.

One subroutine issues two create-and-keep requests (1 pair each, sockets 0 and 1) and
re-uses its scratch arrays: the argument array @3 and the qubit-ID array @2.
Request 1 is issued with @2 = [0], request 2 with @2 = [1].
Expected: the pair of request 1 is mapped to virtual qubit 0, the pair of request 2 to virtual qubit 1.
"""
import sys

from netqasm.backend.executor import Executor
from netqasm.backend.network_stack import BaseNetworkStack
from netqasm.lang.parsing import parse_text_subroutine
from netqasm.qlink_compat import LinkLayerOKTypeK
from netqasm.sdk.shared_memory import SharedMemoryManager


class Stack(BaseNetworkStack):
    def put(self, request):
        print(f"  stack got create request: purpose {request.purpose_id}, type {request.type.name}, "
              f"number {request.number}")

    def setup_epr_socket(self, *args, **kwargs):
        pass

    def get_purpose_id(self, remote_node_id, epr_socket_id):
        return epr_socket_id


class Exe(Executor):
    node_id = 0

    def _wait_to_handle_epr_responses(self):  # retried by the driver below
        pass

    def _do_wait(self):
        yield "wait"


SUB = """
# NETQASM 1.0
# APPID 0
set R0 10
array R0 @0
array R0 @1
set R0 1
array R0 @2
set R0 20
array R0 @3
set R0 0
set R1 0
store R0 @3[R1]
set R0 1
set R1 1
store R0 @3[R1]

set R0 0
set R1 0
store R0 @2[R1]
set R0 1
set R1 0
set R2 2
set R3 3
set R4 0
create_epr R0 R1 R2 R3 R4

set R0 1
set R1 0
store R0 @2[R1]
set R0 1
set R1 1
set R2 2
set R3 3
set R4 1
create_epr R0 R1 R2 R3 R4

set R0 0
set R1 10
wait_all @0[R0:R1]
wait_all @1[R0:R1]
"""

SharedMemoryManager.reset_memories()
exe = Exe(name="node")
exe.network_stack = Stack()
exe.init_new_application(app_id=0, max_qubits=4)
gen = exe.execute_subroutine(parse_text_subroutine(SUB))
assert next(gen) == "wait"  # both requests issued, waiting for request 1

# pair of request 1 (socket/purpose 0) in physical qubit 7, pair of request 2 (purpose 1) in physical qubit 8
for purpose, phys in [(0, 7), (1, 8)]:
    exe._handle_epr_response(
        LinkLayerOKTypeK(logical_qubit_id=phys, directionality_flag=0, sequence_number=purpose,
                         purpose_id=purpose, remote_node_id=1)
    )
    exe._handle_pending_epr_responses()

finished = False
for _ in range(5):  # let the subroutine poll, driver retries pending responses
    try:
        next(gen)
    except StopIteration:
        finished = True
        break
    exe._handle_pending_epr_responses()

unit_module = exe._qubit_unit_modules[0]
arrays = exe._app_arrays[0]._arrays
print("expected: virtual qubits [7, 8, None, None], no pending responses, subroutine finished")
print(f"got     : virtual qubits {unit_module}, {len(exe._pending_epr_responses)} pending response(s), "
      f"subroutine finished: {finished}")
print(f"          results request 1: {arrays[0]}")
print(f"          results request 2: {arrays[1]}")
ok = unit_module == [7, 8, None, None] and not exe._pending_epr_responses and finished
sys.exit(0 if ok else 1)
