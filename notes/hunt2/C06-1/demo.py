"""C06: filling the template operands at the ProtoSubroutine level (ProtoSubroutine.instantiate) and
committing with commit_protosubroutine is NOT equal to flushing the same operations written with the
values: ProtoSubroutine.instantiate throws every branch label away, so any program with a loop / if
can no longer be assembled."""
import sys

from netqasm.lang.operand import Template
from netqasm.lang.ir import BranchLabel
from netqasm.sdk.connection import DebugConnection
from netqasm.sdk.qubit import Qubit

VALUES = {"a": 16}


def program(conn, n):
    outcomes = conn.new_array(3)
    with conn.loop(3) as i:
        q = Qubit(conn)
        q.rot_X(n=n, d=4)
        q.measure(future=outcomes.get_future_index(i))


def new_conn():
    DebugConnection._app_ids.clear()
    return DebugConnection("alice")


# (1) reference: the operations written with the value, flushed
ref = new_conn()
program(ref, VALUES["a"])
ref.flush()
expected = ref.storage[-1]

# (2) same operations with a template, filled in on the ProtoSubroutine, committed
conn = new_conn()
program(conn, Template("a"))
proto = conn.builder.subrt_pop_pending_subroutine()
labels_before = [c.name for c in proto.commands if isinstance(c, BranchLabel)]
proto.instantiate(conn.app_id, VALUES)
labels_after = [c.name for c in proto.commands if isinstance(c, BranchLabel)]
print("branch labels before instantiate:", labels_before)
print("branch labels after  instantiate:", labels_after)

try:
    conn.commit_protosubroutine(proto)
except BaseException as exc:  # noqa
    print("expected: the same subroutine message as the flush of the written-out program")
    print(f"got     : commit_protosubroutine raised {type(exc).__name__}: {exc}")
    sys.exit(1)

got = conn.storage[-1]
if got != expected:
    print("expected message:", expected.hex())
    print("got message     :", got.hex())
    sys.exit(1)
print("OK: identical subroutine was sent")
