"""C04 demo 2: an array slice that reaches past the end of the array does not fault.

`wait_all @0[R2:R3]` with R2=0, R3=10 on an array of length 3 names the entries 3..9, which do
not exist. An entry index past the end (load/store/undef @0[5]) faults with the line number,
the slice is silently clamped by Python slicing and execution goes on."""
import sys

from netqasm.backend.executor import Executor
from netqasm.lang.encoding import RegisterName
from netqasm.lang.operand import Register
from netqasm.lang.parsing import parse_text_subroutine
from netqasm.sdk.shared_memory import SharedMemoryManager

PROGRAM = """
# NETQASM 1.0
# APPID 0
set R0 3
array R0 @0
set R1 1
set R4 0
store R1 @0[R4]
set R4 1
store R1 @0[R4]
set R4 2
store R1 @0[R4]
set R2 0
set R3 10
wait_all @0[R2:R3]
set R5 77
set R2 5
wait_all @0[R2:R3]
set R6 78
"""

SharedMemoryManager.reset_memories()
executor = Executor(name="node")
executor.init_new_application(app_id=0, max_qubits=1)
error = None
try:
    executor.consume_execute_subroutine(parse_text_subroutine(PROGRAM))
except Exception as exc:  # noqa
    error = f"{type(exc).__name__}: {str(exc).splitlines()[0]}"
r5 = executor._get_register(0, Register(RegisterName.R, 5))
r6 = executor._get_register(0, Register(RegisterName.R, 6))
print("array @0 has length 3; line 11 waits on @0[0:10], line 14 waits on @0[5:10]")
print("expected: execution stops with an error starting 'At line 11' (index past the end of the array); R5, R6 undefined")
print(f"happened: error={error!r}, R5={r5}, R6={r6}")
if error is None or not error.split(": ", 1)[1].startswith("At line 11"):
    print("VIOLATION: the slice past the end of the array did not fault")
    sys.exit(1)
print("no violation")
