"""C04 demo 1: with an instruction logger attached (Executor(instr_log_dir=...)), a correct
`load R0 @0[R0]` is reported as a fault and the subroutine is aborted after it.

The logger is called inside the fetch/execute `try` AFTER the instruction has run and
re-evaluates the operands against the already-updated registers."""
import sys
import tempfile

from netqasm.backend.executor import Executor
from netqasm.lang.parsing import parse_text_subroutine
from netqasm.logging.output import InstrLogger
from netqasm.sdk.shared_memory import SharedMemoryManager


class Logger(InstrLogger):
    """Only the three hooks that InstrLogger documents as 'should be subclassed'."""

    def _get_node_name(self):
        return "node"

    @classmethod
    def _get_qubit_groups(cls):
        return None

    @classmethod
    def _get_qubit_states(cls, subroutine_id, qubit_ids):
        return None


class LoggedExecutor(Executor):
    instr_logger_class = Logger


PROGRAM = """
# NETQASM 1.0
# APPID 0
set R0 1
array R0 @0
set R0 0
set R1 5
store R1 @0[R0]
load R0 @0[R0]
set R2 99
"""


def run(executor):
    executor.init_new_application(app_id=0, max_qubits=1)
    error = None
    try:
        executor.consume_execute_subroutine(parse_text_subroutine(PROGRAM))
    except Exception as exc:  # noqa
        error = f"{type(exc).__name__}: {str(exc).splitlines()[0]}"
    regs = {
        f"{name.name}{i}": v
        for name, group in executor._registers[0].items()
        for i, v in group._register.items()
    }
    return regs, error


SharedMemoryManager.reset_memories()
expected = ({"R0": 5, "R1": 5, "R2": 99}, None)
plain = run(Executor(name="plain"))
logged = run(LoggedExecutor(name="logged", instr_log_dir=tempfile.mkdtemp()))
print("expected (registers, error):", expected)
print("without instr logger       :", plain)
print("with instr logger          :", logged)
assert plain == expected, "plain executor is wrong?!"
if logged != expected:
    print("VIOLATION: a non-faulting `load R0 @0[R0]` (line 5) was reported as a fault; `set R2 99` never ran")
    sys.exit(1)
print("no violation")
