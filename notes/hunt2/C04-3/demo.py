"""C04 demo 3: the second Executor that is created under the same name with an instruction
logger cannot execute anything: every subroutine 'faults' at its first instruction.

Executor.get_instr_logger caches the logger per node name in the class attribute
Executor._INSTR_LOGGERS; the cached logger keeps pointing at the FIRST executor."""
import sys
import tempfile

from netqasm.backend.executor import Executor
from netqasm.lang.parsing import parse_text_subroutine
from netqasm.logging.output import InstrLogger
from netqasm.sdk.shared_memory import SharedMemoryManager


class Logger(InstrLogger):
    """Only the three hooks that InstrLogger documents as 'should be subclassed'."""

    def _get_node_name(self):
        return "node"

    @classmethod
    def _get_qubit_groups(cls):
        return None

    @classmethod
    def _get_qubit_states(cls, subroutine_id, qubit_ids):
        return None


class LoggedExecutor(Executor):
    instr_logger_class = Logger


PROGRAM = """
# NETQASM 1.0
# APPID 0
set R0 7
set R2 99
"""


def run(executor):
    executor.init_new_application(app_id=0, max_qubits=1)
    error = None
    try:
        executor.consume_execute_subroutine(parse_text_subroutine(PROGRAM))
    except Exception as exc:  # noqa
        error = f"{type(exc).__name__}: {str(exc).splitlines()[0]}"
    regs = {
        f"{name.name}{i}": v
        for name, group in executor._registers[0].items()
        for i, v in group._register.items()
    }
    return regs, error


log_dir = tempfile.mkdtemp()
expected = ({"R0": 7, "R2": 99}, None)
results = []
for run_no in range(2):  # e.g. two simulation runs in one process
    SharedMemoryManager.reset_memories()
    results.append(run(LoggedExecutor(name="alice", instr_log_dir=log_dir)))
    print(f"run {run_no}: expected {expected}, got {results[-1]}")
if results != [expected, expected]:
    print("VIOLATION: the same two `set` instructions fault on the second executor named 'alice'")
    sys.exit(1)
print("no violation")
