"""C12: wait_all silently clamps a slice that reaches past the end of the array.

A create-and-measure request for 2 pairs (result array @0 with 20 entries) is outstanding and
NO response has arrived.  The program waits for entries @0[20:30] (a third pair, off by one).
The awaited entries are not defined, so the wait must not resume (an IndexError, as
`wait_single @0[29]` gives, would be acceptable as well).
"""
import sys

from netqasm.backend.executor import Executor
from netqasm.backend.network_stack import BaseNetworkStack
from netqasm.lang.parsing import parse_text_subroutine
from netqasm.qlink_compat import LinkLayerOKTypeM
from netqasm.sdk.shared_memory import SharedMemoryManager


class Stack(BaseNetworkStack):
    def put(self, request):
        pass

    def setup_epr_socket(self, *args, **kwargs):
        pass

    def get_purpose_id(self, remote_node_id, epr_socket_id):
        return epr_socket_id


class Exe(Executor):
    node_id = 0

    def _wait_to_handle_epr_responses(self):
        pass

    def _do_wait(self):
        yield "wait"


def run(wait_line, deliver):
    sub = f"""
# NETQASM 1.0
# APPID 0
set R0 20
array R0 @0
array R0 @1
set R0 1
set R1 0
store R0 @1[R1]
set R0 2
set R1 1
store R0 @1[R1]
set R0 1
set R1 0
set R3 1
set R4 0
create_epr R0 R1 C0 R3 R4
{wait_line}
"""
    SharedMemoryManager.reset_memories()
    exe = Exe(name="node")
    exe.network_stack = Stack()
    exe.init_new_application(app_id=0, max_qubits=2)
    gen = exe.execute_subroutine(parse_text_subroutine(sub))
    try:
        state = next(gen)
        for seq in range(deliver):
            exe._handle_epr_response(
                LinkLayerOKTypeM(directionality_flag=0, sequence_number=seq, purpose_id=0, remote_node_id=1)
            )
            state = next(gen)
    except StopIteration:
        state = "resumed and finished"
    except Exception as exc:
        state = f"error ({type(exc).__name__})"
    defined = sum(x is not None for x in exe._app_arrays[0]._arrays[0])
    return state, defined


status = 0
for line, deliver in [
    ("set R0 10\nset R1 20\nwait_all @0[R0:R1]", 1),   # control: in range, pair 1 missing
    ("set R0 20\nset R1 30\nwait_all @0[R0:R1]", 0),
    ("set R0 29\nwait_single @0[R0]", 0),               # control: loud
]:
    state, defined = run(line, deliver)
    ok = state == "wait" or state.startswith("error")
    print(f"{line.splitlines()[-1]:24} (R0,R1 = {line.split()[2]},{line.split()[5] if 'R1' in line else '-'}) "
          f"with {defined}/20 result entries defined -> {state}"
          f"{'' if ok else '   <-- VIOLATION: resumed, awaited entries are not defined'}")
    if not ok:
        status = 1
sys.exit(status)
