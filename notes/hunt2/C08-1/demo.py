"""debug=True: the NV subroutine cannot be executed, nor pass Subroutine.instantiate() (the step every
commit performs), because the "begin/end SWAP" DebugInstruction placeholders stay in the instruction list."""
import copy
import sys

from netqasm.backend.executor import Executor
from netqasm.lang.instr.flavour import NVFlavour
from netqasm.lang.parsing import deserialize, parse_text_subroutine
from netqasm.sdk.transpile import NVSubroutineTranspiler

TEXT = """# NETQASM 1.0
# APPID 0
set R0 0
LOOP:
beq R0 2 END
set Q0 1
set Q1 2
cnot Q0 Q1
add R0 R0 1
jmp LOOP
END:
"""


def registers_after(subroutine, label):
    """Run on netqasm's own (classical-only) Executor and return R0."""
    ex = Executor(name=label)
    ex.init_new_application(app_id=0, max_qubits=3)
    ex.consume_execute_subroutine(subroutine)
    return ex._registers[0][subroutine.instructions[0].reg.name][0]


vanilla = parse_text_subroutine(TEXT)
expected = registers_after(copy.deepcopy(vanilla), "vanilla")
print(f"vanilla subroutine: runs, R0 = {expected}")

failures = 0
for debug in (False, True):
    # (a) execute the transpiled Subroutine object
    nv = NVSubroutineTranspiler(copy.deepcopy(vanilla), debug=debug).transpile()
    try:
        got = registers_after(nv, f"nv-exec-{debug}")
        print(f"debug={debug}: executed, R0 = {got} (expected {expected})")
        failures += got != expected
    except Exception as exc:
        failures += 1
        print(f"debug={debug}: expected R0 = {expected}, but execution FAILED: "
              f"{type(exc).__name__}: {str(exc).splitlines()[0]}")

    # (b) what BaseNetQASMConnection.commit_protosubroutine does: instantiate, then serialize
    nv = NVSubroutineTranspiler(copy.deepcopy(vanilla), debug=debug).transpile()
    try:
        nv.instantiate(app_id=0)
        back = deserialize(bytes(nv), flavour=NVFlavour())
        got = registers_after(back, f"nv-wire-{debug}")
        print(f"debug={debug}: instantiate+serialize ok, R0 = {got} (expected {expected})")
        failures += got != expected
    except Exception as exc:
        failures += 1
        print(f"debug={debug}: expected instantiate()+bytes() to work as for debug=False, but FAILED: "
              f"{type(exc).__name__}: {exc}")

sys.exit(1 if failures else 0)
