"""recv_measure(): the receiver's result handle mis-reports the outcome of an M pair.

The creator asks for X-basis measurements on both nodes (create_measure(basis_local=X,
basis_remote=X)); the link layer delivers pairs in all four Bell states.  The receiver calls
recv_measure() (default expect_phi_plus=True) and reads `measurement_outcome`, which is
documented to look "as if the Phi+ state was produced and measured".
"""
import itertools
import logging
import sys

import numpy as np

from netqasm.backend.executor import Executor
from netqasm.backend.messages import deserialize_host_msg
from netqasm.backend.network_stack import BaseNetworkStack
from netqasm.backend.qnodeos import QNodeController
from netqasm.qlink_compat import Basis, BellState, LinkLayerOKTypeM, ReturnType
from netqasm.sdk.build_epr import rotation_to_basis
from netqasm.sdk.connection import BaseNetQASMConnection
from netqasm.sdk.epr_socket import EPRSocket
from netqasm.sdk.network import NetworkInfo
from netqasm.sdk.shared_memory import SharedMemoryManager

logging.disable(logging.WARNING)
NODES = {"alice": 0, "bob": 1}


class Info(NetworkInfo):
    _get_node_id = classmethod(lambda cls, node_name: NODES[node_name])
    _get_node_name = classmethod(lambda cls, node_id: {v: k for k, v in NODES.items()}[node_id])
    get_node_id_for_app = classmethod(lambda cls, app_name: NODES[app_name])
    get_node_name_for_app = classmethod(lambda cls, app_name: app_name)


class Stack(BaseNetworkStack):
    def put(self, request):
        pass

    def setup_epr_socket(self, epr_socket_id, remote_node_id, remote_epr_socket_id, timeout=1.0):
        pass

    def get_purpose_id(self, remote_node_id, epr_socket_id):
        return epr_socket_id


class Exec(Executor):
    node_id = NODES["bob"]

    def _do_wait(self):
        yield  # hand control to the driver, which plays the link layer


class Controller(QNodeController):
    _get_executor_class = classmethod(lambda cls, flavour=None: Exec)

    def stop(self):
        pass

    def _mark_message_finished(self, msg_id, msg):
        pass


class Conn(BaseNetQASMConnection):
    """Hands every serialized Host message to the controller; `link_layer` runs at each wait."""

    def __init__(self, app_name, controller, link_layer, **kwargs):
        self._ctrl, self._link_layer, self._ids = controller, link_layer, itertools.count()
        super().__init__(app_name=app_name, **kwargs)

    def _get_network_info(self):
        return Info

    def _commit_serialized_message(self, raw_msg, block=True, callback=None):
        for n, _ in enumerate(self._ctrl.handle_netqasm_message(next(self._ids), deserialize_host_msg(raw_msg))):
            assert n < 100, "deadlock"
            self._link_layer(self._ctrl._executor)


# ---- what quantum mechanics says: X (x) X outcomes (a, b) of each Bell state -------------------
ket = {"0": np.array([1, 0]), "1": np.array([0, 1])}
plus, minus = (ket["0"] + ket["1"]) / np.sqrt(2), (ket["0"] - ket["1"]) / np.sqrt(2)
states = {
    BellState.PHI_PLUS: np.kron(ket["0"], ket["0"]) + np.kron(ket["1"], ket["1"]),
    BellState.PHI_MINUS: np.kron(ket["0"], ket["0"]) - np.kron(ket["1"], ket["1"]),
    BellState.PSI_PLUS: np.kron(ket["0"], ket["1"]) + np.kron(ket["1"], ket["0"]),
    BellState.PSI_MINUS: np.kron(ket["0"], ket["1"]) - np.kron(ket["1"], ket["0"]),
}
xb = [plus, minus]


def outcomes_differ(bell):  # True if a != b with certainty, False if a == b with certainty
    p_diff = sum(abs(np.kron(xb[a], xb[1 - a]) @ states[bell] / np.sqrt(2)) ** 2 for a in (0, 1))
    assert min(abs(p_diff), abs(p_diff - 1)) < 1e-9
    return p_diff > 0.5


assert not outcomes_differ(BellState.PHI_PLUS)  # for Phi+ both nodes always get the same X outcome

# ---- run the receiver (bob) through SDK -> serialized subroutine -> QNodeController -> Executor ---
bells = list(BellState)
creator_outcome = 0  # what alice's handle (never post-processed) reports for every pair
sent = []


def link_layer(executor):
    if sent:
        return
    for i, bell in enumerate(bells):
        b = creator_outcome ^ int(outcomes_differ(bell))  # bob's physical outcome
        sent.append(LinkLayerOKTypeM(type=ReturnType.OK_M, create_id=0, measurement_outcome=b,
                                     measurement_basis=Basis.X, directionality_flag=1, sequence_number=i,
                                     purpose_id=0, remote_node_id=NODES["alice"], goodness=1, bell_state=bell))
        executor._handle_epr_response(sent[-1])


SharedMemoryManager.reset_memories()
ctrl = Controller(name="bob")
ctrl.network_stack = Stack()
sock = EPRSocket("alice")
with Conn("bob", ctrl, link_layer, epr_sockets=[sock]) as bob:
    results = sock.recv_measure(number=len(bells))
    bob.flush()
    bad = 0
    for i, (r, rsp) in enumerate(zip(results, sent)):
        got = r.measurement_outcome
        print(f"pair {i}: response(outcome={rsp.measurement_outcome}, basis={rsp.measurement_basis.name}, "
              f"bell={rsp.bell_state.name}); handle: raw={int(r.raw_measurement_outcome)}, "
              f"measurement_basis_local={rotation_to_basis(r.measurement_basis_local).name}, "
              f"measurement_outcome={got}; expected {creator_outcome} (= creator's outcome, as for Phi+)")
        bad += got != creator_outcome

if bad:
    print(f"VIOLATION: {bad} of {len(bells)} receiver handles report an outcome that is neither the response's "
          f"field corrected for the basis in the response (X) nor equal to the creator's outcome; "
          f"the handle claims basis Z although the response says X")
    sys.exit(1)
print("ok")
