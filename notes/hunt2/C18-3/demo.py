"""C18 / finding 3: closing a socket erases the rendezvous mark of the remote's NEXT socket, so that one is
missed: its peer waits for ever although it connected, sent a message and closed.

_SocketHub.disconnect(A) removes A's *remote* key (B,A,id) from _remote_sockets unconditionally.  The entry
it removes may belong to a newer B socket than the one A was talking to.

Round 1: A1 <-> B1, B1 closes first.  Round 2: B2 opens (registers itself, has not polled yet) - only now A1
closes and wipes B2's mark.  A2 opens; B2 sees it, sends "round2", closes - before A2's first poll.
A2 now finds B neither open nor marked: it waits for ever, with "round2" sitting in its queue.
"""
import sys
import threading

from netqasm.sdk.classical_communication import ThreadSocket
from netqasm.sdk.classical_communication.thread_socket import socket_hub as hubmod

hub = hubmod._socket_hub


class Gate:
    """Pauses the calling thread on entry of _wait_for_remote: registered in both sets, first poll not done."""

    def __init__(self):
        self.reached, self.release = threading.Event(), threading.Event()

    def tracer(self, frame, event, arg):
        if event == "call" and frame.f_code.co_filename == hubmod.__file__ \
                and frame.f_code.co_name == "_wait_for_remote":
            self.reached.set()
            self.release.wait()


def state(tag):
    print(f"  {tag:26s} open={sorted(hub._open_sockets)} remote={sorted(hub._remote_sockets)}")


# round 1
box = {}
t = threading.Thread(target=lambda: box.__setitem__("a1", ThreadSocket("A", "B")))
t.start()
b1 = ThreadSocket("B", "A")
t.join()
del b1
state("B1 closed, A1 still open")

# round 2
res = {}
gate_b, gate_a = Gate(), Gate()


def bob_2():
    sys.settrace(gate_b.tracer)
    s = ThreadSocket("B", "A")
    sys.settrace(None)
    s.send("round2")
    res["b"] = "connected, sent 'round2', closed"
    del s


def alice_2():
    sys.settrace(gate_a.tracer)
    try:
        s = ThreadSocket("A", "B", timeout=2)  # the timeout only keeps the demo finite
        res["a"] = "connected, received " + repr(s.recv(timeout=1))
    except TimeoutError as exc:
        res["a"] = repr(exc)


tb = threading.Thread(target=bob_2)
tb.start()
gate_b.reached.wait()
state("B2 registered")
del box["a1"]
state("A1 closed")
gate_b.release.set()
ta = threading.Thread(target=alice_2)
ta.start()
gate_a.reached.wait()
state("A2 registered")
tb.join()
state("B2 sent and closed")
gate_a.release.set()
ta.join()
print("B2:", res["b"])
print("expected A2: connected, received 'round2'")
print("observed A2:", res["a"], "| still queued for A:", hub._messages[("A", "B", 0)])
sys.exit(0 if res["a"].startswith("connected") else 1)
