"""C05 demo 3: `new_array(init_values=lst)` keeps a reference to the caller's list and reads it
only when the subroutine is assembled at flush time, so the array is initialised with whatever
the list contains *then*, not with the values it had when the array was created.

Run: cd /tmp/hunt2/C05/wt && PYTHONPATH=/tmp/hunt2/C05/wt /venv/bin/python /tmp/hunt2/C05/out/3/demo.py
"""
import sys

from netqasm.backend.executor import Executor
from netqasm.backend.messages import deserialize_host_msg
from netqasm.backend.qnodeos import QNodeController
from netqasm.sdk.connection import BaseNetQASMConnection, DebugNetworkInfo


class Ctrl(QNodeController):
    @classmethod
    def _get_executor_class(cls, flavour=None):
        return Executor

    def stop(self):
        pass

    def _mark_message_finished(self, msg_id, msg):
        pass


class Conn(BaseNetQASMConnection):
    """Hands every serialized host message to an in-process controller."""

    def __init__(self):
        self.ctrl = Ctrl("demo3")
        super().__init__(app_name="demo3", node_name="demo3")

    def _get_network_info(self):
        return DebugNetworkInfo

    def _commit_serialized_message(self, raw_msg, block=True, callback=None):
        list(self.ctrl.handle_netqasm_message(0, deserialize_host_msg(raw_msg)))

    def ctrl_array(self, arr):
        return list(self.ctrl._executor._app_arrays[self.app_id]._get_array(arr.address))


conn = Conn()
row = [0, 0]  # a buffer that the host program re-uses
arrays, expected = [], []
for k in (1, 2, 3):
    row[0], row[1] = k, 10 * k
    expected.append(list(row))  # what the array is created with
    arrays.append(conn.new_array(init_values=row))
total = conn.new_array(init_values=[0])
for a in arrays:  # sum of the first entries, computed on the controller
    total.get_future_index(0).add(a.get_future_index(0))
conn.flush()

actual = [conn.ctrl_array(a) for a in arrays]
print("expected arrays on the controller:", expected, " sum of first entries:", 6)
print("actual   arrays on the controller:", actual, " sum of first entries:", conn.ctrl_array(total)[0])
print("host view                        :", [a[:] for a in arrays])
if actual != expected:
    print("VIOLATION: all three arrays were initialised with the last contents of the list")
    sys.exit(1)
sys.exit(0)
