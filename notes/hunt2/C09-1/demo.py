"""C09 demo 1: a fidelity-retry keep whose tries are all rejected leaves the SDK handle
active while the controller has freed the qubit.

Run: cd /tmp/hunt2/C09/wt && PYTHONPATH=/tmp/hunt2/C09/wt /venv/bin/python /tmp/hunt2/C09/out/1/demo.py
"""
import logging
import sys

from netqasm.backend.executor import Executor
from netqasm.backend.messages import deserialize_host_msg
from netqasm.backend.network_stack import BaseNetworkStack
from netqasm.backend.qnodeos import QNodeController
from netqasm.lang.instr.flavour import VanillaFlavour
from netqasm.qlink_compat import LinkLayerOKTypeK
from netqasm.sdk.build_types import GenericHardwareConfig
from netqasm.sdk.connection import BaseNetQASMConnection
from netqasm.sdk.epr_socket import EPRSocket
from netqasm.sdk.network import NetworkInfo

logging.getLogger().setLevel(logging.ERROR)
SLOW = 99_000  # generation duration (us) reported for every pair; min fidelity 80 allows 28_000


class Stack(BaseNetworkStack):
    """Fake link layer: every requested pair is delivered, one per controller wait."""

    def __init__(self, executor):
        self.ex, self.todo = executor, []

    def put(self, request):
        self.todo += [request] * request.number

    def setup_epr_socket(self, epr_socket_id, remote_node_id, remote_epr_socket_id, timeout=1.0):
        return None

    def get_purpose_id(self, remote_node_id, epr_socket_id):
        return epr_socket_id

    def deliver_one(self):
        req = self.todo.pop(0)
        phys = self.ex._get_unused_physical_qubit()
        self.ex._handle_epr_response(LinkLayerOKTypeK(
            logical_qubit_id=phys, directionality_flag=0, purpose_id=req.purpose_id,
            remote_node_id=req.remote_node_id, goodness=SLOW))  # SDK reads the duration from `goodness`


class CheckingExecutor(Executor):
    """Base executor; gates fault when they address an unallocated virtual qubit."""

    node_id = 0

    def _do_single_qubit_instr(self, instr, subroutine_id, address):
        self._get_position(subroutine_id=subroutine_id, address=address)

    def _do_wait(self):
        if self.network_stack.todo:
            self.network_stack.deliver_one()

    def _wait_to_handle_epr_responses(self):
        pass


class Controller(QNodeController):
    @classmethod
    def _get_executor_class(cls, flavour=None):
        return CheckingExecutor

    def stop(self):
        pass

    def _mark_message_finished(self, msg_id, msg):
        pass


class Info(NetworkInfo):
    ids = {"alice": 0, "bob": 1}
    _get_node_id = classmethod(lambda cls, node_name: cls.ids[node_name])
    _get_node_name = classmethod(lambda cls, node_id: ["alice", "bob"][node_id])
    get_node_id_for_app = classmethod(lambda cls, app_name: cls.ids[app_name])
    get_node_name_for_app = classmethod(lambda cls, app_name: app_name)


class Conn(BaseNetQASMConnection):
    def __init__(self, controller, **kwargs):
        self.controller = controller
        super().__init__(**kwargs)

    def _get_network_info(self):
        return Info

    def _commit_serialized_message(self, raw_msg, block=True, callback=None):
        for _ in self.controller.handle_netqasm_message(0, deserialize_host_msg(raw_msg)):
            pass


ctrl = Controller(name="alice", flavour=VanillaFlavour())
ex = ctrl._executor
ex.network_stack = Stack(ex)
sock = EPRSocket("bob")
conn = Conn(ctrl, app_name="alice", max_qubits=2, hardware_config=GenericHardwareConfig(2), epr_sockets=[sock])

# Host program: one kept pair, at most 2 tries to reach fidelity 80. Budget 2, one qubit alive.
(q,) = sock.create_keep(number=1, min_fidelity_all_at_end=80, max_tries=2)
conn.flush()

sdk = sorted(h.qubit_id for h in conn.active_qubits)
ctl = sorted(i for i, p in enumerate(ex._qubit_unit_modules[conn.app_id]) if p is not None)
print("expected: after the flush, SDK active qubit ids == controller allocated virtual ids")
print(f"happened: SDK active ids {sdk}, controller allocated ids {ctl}")

fault = None
q.H()  # the handle is active, so the SDK happily emits a gate on it
try:
    conn.flush()
except Exception as exc:  # controller-side allocation fault
    fault = f"{type(exc).__name__}: {str(exc).splitlines()[0]}"
print("expected: q.H() on the returned handle executes without allocation fault")
print(f"happened: {fault or 'no fault'}")

sys.exit(1 if (sdk != ctl or fault) else 0)
