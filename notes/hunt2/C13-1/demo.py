"""C13 demo 1: a recv_epr whose subroutine has already returned makes every later
keep-response on this controller fail -- also those of other applications."""
import sys

from netqasm.backend.executor import Executor
from netqasm.backend.network_stack import BaseNetworkStack
from netqasm.lang.parsing import parse_text_subroutine
from netqasm.qlink_compat import LinkLayerOKTypeK
from netqasm.sdk.shared_memory import SharedMemoryManager


class Stack(BaseNetworkStack):
    def put(self, request):
        pass

    def setup_epr_socket(self, epr_socket_id, remote_node_id, remote_epr_socket_id, timeout=1.0):
        pass

    def get_purpose_id(self, remote_node_id, epr_socket_id):
        return epr_socket_id


class Ex(Executor):
    node_id = 0

    def _wait_to_handle_epr_responses(self):  # base version recurses forever
        pass

    def _do_wait(self):  # let a waiting subroutine suspend
        yield "wait"


def recv_sub(app_id, socket, wait):
    # q-array @0 = [0], ent-info array @1 (10 entries), recv one pair from node 1
    text = f"""# NETQASM 0.0
# APPID {app_id}
set R5 1
array R5 @0
set R6 0
store R6 @0[0]
set R5 10
array R5 @1
set R0 1
set R1 {socket}
set R2 0
set R3 1
recv_epr R0 R1 R2 R3
"""
    if wait:
        text += "wait_all @1[0:10]\n"
    return parse_text_subroutine(text)


def deliver(ex, socket):
    """Link layer: reserve a position through the executor, then hand over the pair."""
    phys = ex._get_unused_physical_qubit()
    resp = LinkLayerOKTypeK(
        logical_qubit_id=phys, directionality_flag=1, purpose_id=socket, remote_node_id=1
    )
    try:
        ex._handle_epr_response(resp)
        return phys, None
    except Exception as exc:  # noqa
        return phys, f"{type(exc).__name__}: {str(exc).splitlines()[0]}"


SharedMemoryManager.reset_memories()
ex = Ex(name="n")
ex.network_stack = Stack()
ex.init_new_application(app_id=0, max_qubits=1)
ex.init_new_application(app_id=1, max_qubits=1)

# app 0: post the receive and return (the pair is to be picked up by a later subroutine)
list(ex.execute_subroutine(recv_sub(0, socket=0, wait=False)))
# app 1: post a receive on its own socket and wait for the pair
gen1 = ex.execute_subroutine(recv_sub(1, socket=1, wait=True))
assert next(gen1) == "wait"

p0, err0 = deliver(ex, socket=0)  # pair for app 0
p1, err1 = deliver(ex, socket=1)  # pair for app 1
p2, err2 = deliver(ex, socket=1)  # link layer tries once more for app 1

print("delivery for app 0 :", err0)
print("delivery for app 1 :", err1)
print("2nd try for app 1  :", err2)
print("unit modules       :", ex._qubit_unit_modules)
print("marked in use      :", sorted(ex._used_physical_qubit_addresses))
print("pending responses  :", len(ex._pending_epr_responses))

mapped = {p for um in ex._qubit_unit_modules.values() for p in um if p is not None}
ok = True
print("\nexpected: app 1's pair is mapped to its virtual qubit 0 whatever app 0's subroutine did")
if ex._qubit_unit_modules[1][0] is None or err1 is not None:
    print(f"got     : app 1 never receives its qubit; its delivery fails with: {err1}")
    ok = False
print("expected: physical qubits marked in use == physical qubits mapped")
if mapped != ex._used_physical_qubit_addresses:
    print(f"got     : in use {sorted(ex._used_physical_qubit_addresses)} but mapped {sorted(mapped)}")
    ok = False
sys.exit(0 if ok else 1)
