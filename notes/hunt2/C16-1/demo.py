"""C16: a rotation numerator that the range check sees as 1 is encoded as 0.

A measurement outcome (a `Future`, which is an `int` subclass) that has come back
from the controller is used as rotation numerator, as the SDK docs invite
("when the value is there, the Future behaves like an int").
Every check (SDK lower bound, encoding.assert_fits) and the printed subroutine see
its value 1; ctypes stores the raw int of the object, which is always 0.
"""
import sys

from netqasm.lang.parsing import deserialize
from netqasm.sdk.connection import DebugConnection
from netqasm.sdk.qubit import Qubit
from netqasm.sdk.shared_memory import SharedMemory


class Conn(DebugConnection):
    """DebugConnection with one persistent shared memory (as a real connection has)."""

    _mem = SharedMemory()

    @property
    def shared_memory(self):
        return Conn._mem


DebugConnection.node_ids = {"alice": 0}
conn = Conn("alice")

outcomes = conn.new_array(1)
m = outcomes.get_future_index(0)
Qubit(conn).measure(future=m)
conn.flush()
# the controller reports outcome 1 for that measurement
Conn._mem.init_new_array(outcomes.address, 1)
Conn._mem.set_array_part(outcomes.address, 0, 1)
assert m == 1 and int(m) == 1

q = Qubit(conn)
q.rot_X(n=m, d=1)  # rotate by m * pi/2, i.e. pi/2 since m == 1
subroutine = conn.compile()
subroutine.instantiate(conn.app_id)

rot = [i for i in subroutine.instructions if i.mnemonic == "rot_x"][0]
raw = bytes(subroutine)  # no error
decoded = [i for i in deserialize(raw).instructions if i.mnemonic == "rot_x"][0]

print("instruction that was encoded :", rot)
print("instruction that is decoded  :", decoded)
print("expected: an error, or bytes that decode to the same 'rot_x Q0 1 1'")
if str(rot) != str(decoded):
    print("VIOLATION: the encoded bytes are a different, valid-looking program")
    sys.exit(1)
print("ok")
