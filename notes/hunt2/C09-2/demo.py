"""C09 demo 2: gate methods accept a handle that was measured destructively or freed, so the SDK
emits instructions on an unallocated virtual qubit (or on whichever qubit re-used the ID).

Run: cd /tmp/hunt2/C09/wt && PYTHONPATH=/tmp/hunt2/C09/wt /venv/bin/python /tmp/hunt2/C09/out/2/demo.py
"""
import logging
import sys

from netqasm.backend.executor import Executor
from netqasm.backend.messages import deserialize_host_msg
from netqasm.backend.qnodeos import QNodeController
from netqasm.lang.instr.flavour import VanillaFlavour
from netqasm.sdk.build_types import GenericHardwareConfig
from netqasm.sdk.connection import BaseNetQASMConnection
from netqasm.sdk.network import NetworkInfo
from netqasm.sdk.qubit import Qubit, QubitNotActiveError

logging.getLogger().setLevel(logging.ERROR)


class CheckingExecutor(Executor):
    """Base executor; gates fault when they address an unallocated virtual qubit."""

    gates = []

    def _do_single_qubit_instr(self, instr, subroutine_id, address):
        self._get_position(subroutine_id=subroutine_id, address=address)
        self.gates.append((instr.mnemonic, address))


class Controller(QNodeController):
    @classmethod
    def _get_executor_class(cls, flavour=None):
        return CheckingExecutor

    def stop(self):
        pass

    def _mark_message_finished(self, msg_id, msg):
        pass


class Info(NetworkInfo):
    get_node_name_for_app = classmethod(lambda cls, app_name: app_name)


class Conn(BaseNetQASMConnection):
    def __init__(self, controller, **kwargs):
        self.controller = controller
        super().__init__(**kwargs)

    def _get_network_info(self):
        return Info

    def _commit_serialized_message(self, raw_msg, block=True, callback=None):
        for _ in self.controller.handle_netqasm_message(0, deserialize_host_msg(raw_msg)):
            pass


ctrl = Controller(name="alice", flavour=VanillaFlavour())
conn = Conn(ctrl, app_name="alice", max_qubits=1, hardware_config=GenericHardwareConfig(1))
bad = 0

# (a) gate after a destructive measurement: budget 1, never more than one qubit alive
q = Qubit(conn)
q.measure()
print("(a) q = Qubit(conn); q.measure(); q.H(); conn.flush()")
print("    expected: QubitNotActiveError from q.H() (as q.measure()/q.free() raise), nothing emitted")
try:
    q.H()
    conn.flush()
    print("    happened: accepted and executed")
except QubitNotActiveError:
    print("    happened: QubitNotActiveError")
except Exception as exc:
    bad += 1
    print(f"    happened: SDK emitted the gate; controller fault {type(exc).__name__}: {str(exc).splitlines()[0]}")

# (b) gate through a freed handle after the ID was re-used: silently hits the other qubit
ctrl = Controller(name="alice2", flavour=VanillaFlavour())
conn = Conn(ctrl, app_name="alice2", max_qubits=1, hardware_config=GenericHardwareConfig(1))
old = Qubit(conn)
old.free()
new = Qubit(conn)  # re-uses virtual id 0
print("(b) old = Qubit(conn); old.free(); new = Qubit(conn); old.X(); conn.flush()")
print("    expected: QubitNotActiveError from old.X(); the qubit behind `new` is untouched")
try:
    old.X()
    conn.flush()
    hit = [g for g in CheckingExecutor.gates if g[0] == "x"]
    bad += 1
    print(f"    happened: no error; controller executed {hit} on the qubit now owned by `new` (id {new.qubit_id})")
except QubitNotActiveError:
    print("    happened: QubitNotActiveError")

sys.exit(1 if bad else 0)
