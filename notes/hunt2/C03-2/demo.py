"""C03: a literal in the branch-target position stays as it is while the `set` instructions inserted for
other literals move the instruction it pointed at, so the branch lands on a different source instruction."""
import logging
import sys

from netqasm.backend.executor import Executor
from netqasm.lang.encoding import RegisterName
from netqasm.lang.operand import Register
from netqasm.lang.parsing import parse_text_subroutine
from netqasm.logging.glob import set_log_level
from netqasm.sdk.shared_memory import SharedMemoryManager

set_log_level(logging.CRITICAL)

# Two source programs that differ only in how the value 1 is handed to `add`:
# through register R1, or as a literal.  `jmp 5` skips `set R0 7` (source instruction 4).
TEMPLATE = """
# NETQASM 1.0
# APPID 0
set R0 0
set R1 1
add R0 R0 {one}
jmp 5
set R0 7
ret_reg R0
"""


def run(text):
    subroutine = parse_text_subroutine(text)
    for i, instr in enumerate(subroutine.instructions):
        print(f"    {i} {instr}")
    SharedMemoryManager.reset_memories()
    executor = Executor()
    executor.init_new_application(app_id=0, max_qubits=1)
    executor.consume_execute_subroutine(subroutine)
    return executor._get_register(0, Register(RegisterName.R, 0))


print("operand in a register (add R0 R0 R1):")
with_register = run(TEMPLATE.format(one="R1"))
print(f"  R0 = {with_register}")
print("same operand as a literal (add R0 R0 1):")
with_literal = run(TEMPLATE.format(one="1"))
print(f"  R0 = {with_literal}")

print("expected: R0 == 1 in both runs (jmp 5 lands on `ret_reg R0`, `set R0 7` is skipped)")
if (with_register, with_literal) != (1, 1):
    print(
        "VIOLATION: writing the operand as a literal inserted a `set` in front of `add`; `jmp 5` was left "
        "untouched and now lands on `set R0 7`"
    )
    sys.exit(1)
print("ok")
