"""C14: an SDK call that is *rejected* (nothing is emitted, no operation is open) keeps a register.

Future.add / RegFuture.add and the binary / unary conditions take their temporary register
from the pool *before* they validate the remaining arguments.  When the validation then raises,
the temporary is never handed back.  16 rejected calls -> nothing that needs a register compiles
any more on this connection, although no operation is open and nothing is pending.
"""
import logging
import sys

from netqasm.sdk.connection import DebugConnection
from netqasm.lang.parsing.text import parse_register
from netqasm.sdk.futures import RegFuture
from netqasm.sdk.qubit import Qubit

logging.disable(logging.CRITICAL)


def active(conn):
    return sorted(str(r) for r in conn.builder._mem_mgr._active_registers)


def rejected_calls(conn, arr):
    """Four different rejected calls; each one is refused by the SDK itself."""
    f = arr.get_future_index(0)
    g = arr.get_future_index(1)
    r = RegFuture(conn, parse_register("M0"))
    return [
        ("Future.add(1.5)", NotImplementedError, lambda: f.add(1.5)),
        ("Future.add(g, mod=2.0)", NotImplementedError, lambda: f.add(g, mod=2.0)),
        ("conn.if_eq(f, 1.5, body)", TypeError,
         lambda: conn.if_eq(f, 1.5, lambda c: Qubit(c).measure())),
        ("RegFuture.add(g, mod=2.0)", NotImplementedError, lambda: r.add(g, mod=2.0)),
    ]


def main():
    with DebugConnection("Alice") as conn:
        arr = conn.new_array(3, init_values=[0, 1, 2])
        conn.flush()

        n_rejected = 0
        while len(active(conn)) < 16 and n_rejected < 100:
            for name, exc, call in rejected_calls(conn, arr):
                before = len(active(conn))
                try:
                    call()
                except exc:
                    pass
                else:
                    print(f"unexpected: {name} was accepted")
                    return 0
                n_rejected += 1
                if n_rejected <= 4:
                    print(f"rejected call {name:28s}: active registers {before} -> {len(active(conn))}")
                if len(active(conn)) == 16:
                    break
            conn.builder.subrt_pop_all_pending_commands()  # nothing useful is pending
            conn.flush()

        print(f"after {n_rejected} rejected calls and a flush, no operation open: active = {active(conn)}")
        print("expected: [] (register need depends only on the operations currently open)")

        # A perfectly ordinary, complete operation on the same connection:
        try:
            arr.get_future_index(0).add(1)
            conn.flush()
        except RuntimeError as e:
            print(f"VIOLATION: a plain Future.add(1) at nesting depth 0 no longer compiles: RuntimeError: {e}")
            return 1
        print("ok: add compiled")
        return 0


if __name__ == "__main__":
    sys.exit(main())
