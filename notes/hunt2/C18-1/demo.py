"""C18 / finding 1: a garbage-collected ThreadSocket dead-locks the whole socket hub.

ThreadSocket.__del__ -> _SocketHub.disconnect takes the hub's non-reentrant Lock.  The cyclic garbage
collector runs finalizers in whatever thread happens to allocate, at any statement - also at a statement
*inside* `with self._lock:` of _SocketHub.recv/send/disconnect (`socket.key` builds a tuple there).
Then the thread that already holds the lock tries to take it again: it hangs for ever, and so does every
other send / recv / close of every socket in the process.

The demo only picks the schedule: socket (A,B,id=k) sits in a reference cycle and is dropped, and the gc
threshold is chosen so that the collection happens k allocations later (k = 0, 1, 2, ...).  Then an
unrelated, connected socket (A,B,id=0) does a NON-BLOCKING receive on its empty channel.
"""
import faulthandler
import gc
import os
import sys
import threading

from netqasm.sdk.classical_communication import ThreadSocket

K = 40


def pair(sid):
    out = {}

    def mk(name, remote):
        out[name] = ThreadSocket(name, remote, socket_id=sid)

    ts = [threading.Thread(target=mk, args=p) for p in (("A", "B"), ("B", "A"))]
    [t.start() for t in ts]
    [t.join() for t in ts]
    return out["A"], out["B"]


class Protocol:
    """Some application object that references itself and owns a socket."""


a0, b0 = pair(0)
old = [pair(i) for i in range(1, K + 1)]
progress = []


def worker():
    for k in range(K):
        gc.collect()
        gc.disable()
        p = Protocol()
        p.me = p
        p.sock, keep_remote_side = old[k]
        old[k] = None
        del p  # the old socket is now cyclic garbage, to be finalized by the next collection
        gc.set_threshold(gc.get_count()[0] + k)
        gc.enable()
        try:
            a0.recv(block=False)
        except RuntimeError:
            pass  # expected: "No message to receive"
        gc.set_threshold(700)
        progress.append(k)


t = threading.Thread(target=worker, daemon=True)
t.start()
t.join(5)
print("expected: recv(block=False) on an empty channel raises RuntimeError at once, in every one of the", K, "runs")
if t.is_alive():
    print(f"observed: run k={len(progress)} never returned - the receiving thread hangs here:")
    sys.stdout.flush()
    faulthandler.dump_traceback(all_threads=True)
    os._exit(1)
print("observed: all runs returned")
