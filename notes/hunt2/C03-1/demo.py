"""C03: ProtoSubroutine.instantiate() drops every BranchLabel, so the IR can no longer be assembled
(the branch that named the label has nowhere to land)."""
import sys

from netqasm.lang.parsing.text import assemble_subroutine, parse_text_protosubroutine

SRC = """
# NETQASM 1.0
# APPID 0
set R0 0
LOOP:
add R0 R0 1
blt R0 3 LOOP
"""


def listing(subroutine):
    return [str(instr) for instr in subroutine.instructions]


# Reference: the same text assembled directly.
expected = listing(assemble_subroutine(parse_text_protosubroutine(SRC)))
print("expected (assembled directly):")
for i, line in enumerate(expected):
    print(f"  {i} {line}")

# Same IR, but given its app ID through the IR's own instantiate() first (no templates at all).
proto = parse_text_protosubroutine(SRC)
n_before = len(proto.commands)
proto.instantiate(app_id=0, arguments={})
print(f"commands before instantiate: {n_before}, after: {len(proto.commands)}")
print("IR after instantiate:", [str(c) for c in proto.commands])

try:
    got = listing(assemble_subroutine(proto))
except BaseException as exc:  # AssertionError without a message
    print(f"got: assembling the instantiated IR raised {type(exc).__name__}({exc})")
    print("VIOLATION: the label line 'LOOP:' was dropped by ProtoSubroutine.instantiate")
    sys.exit(1)

print("got:", got)
if got != expected:
    print("VIOLATION: instantiated IR assembles to a different program")
    sys.exit(1)
print("ok")
