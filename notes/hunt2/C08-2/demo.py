"""The scratch electron register of a carbon-carbon gate is "the first Q register not seen in the text so far".
In a loop a register that is first mentioned *below* the gate can be live at the gate: it gets overwritten with 0."""
import copy
import sys

import numpy as np

from netqasm.backend.executor import Executor
from netqasm.lang.parsing import parse_text_subroutine
from netqasm.sdk.transpile import NVSubroutineTranspiler

N = 3  # qubits; virtual address == position in the state vector

TEXT = """# NETQASM 1.0
# APPID 0
set R0 0
LOOP:
beq R0 2 END
set Q0 1
set Q1 2
cnot Q0 Q1      // carbon 1 -> carbon 2; the transpiler borrows Q2 for the electron
bez R0 FIRST
x Q2            // 2nd iteration: Q2 still holds 1 (set at the bottom of the 1st iteration)
FIRST:
set Q2 1
add R0 R0 1
jmp LOOP
END:
"""


class StateVector(Executor):
    """netqasm's own Executor with a 3-qubit state vector behind it."""

    def __init__(self, name):
        super().__init__(name=name)
        self.psi = np.zeros(2**N, dtype=complex)
        self.psi[0b010] = 1  # carbon 1 starts in |1>, electron and carbon 2 in |0>

    def _apply(self, matrix, qubits):
        k = len(qubits)
        psi = self.psi.reshape([2] * N)
        m = np.asarray(matrix, dtype=complex).reshape([2] * (2 * k))
        psi = np.tensordot(m, psi, axes=(list(range(k, 2 * k)), qubits))
        self.psi = np.moveaxis(psi, list(range(k)), qubits).reshape(2**N)

    def _do_single_qubit_instr(self, instr, subroutine_id, address):
        self._apply(instr.to_matrix(), [address])

    def _do_single_qubit_rotation(self, instr, subroutine_id, address, angle):
        self._apply(instr.to_matrix(), [address])

    def _do_controlled_qubit_rotation(self, instr, subroutine_id, address1, address2, angle):
        self._apply(instr.to_matrix(), [address1, address2])

    def _do_two_qubit_instr(self, instr, subroutine_id, address1, address2):
        self._apply(instr.to_matrix(), [address1, address2])


def run(subroutine, name):
    ex = StateVector(name)
    ex.init_new_application(app_id=0, max_qubits=N)
    ex.consume_execute_subroutine(subroutine)
    probs = np.abs(ex.psi) ** 2
    ket = format(int(np.argmax(probs)), f"0{N}b")  # order: electron, carbon 1, carbon 2
    q2 = ex._registers[0][subroutine.instructions[3].reg.name][2]
    return ket, round(float(probs.max()), 6), q2


vanilla = parse_text_subroutine(TEXT)
expected = run(copy.deepcopy(vanilla), "vanilla")
nv = NVSubroutineTranspiler(copy.deepcopy(vanilla), debug=False).transpile()
scratch = [str(i) for i in nv.instructions if str(i).startswith("set Q") and str(i).endswith(" 0")]
got = run(nv, "nv")
print(f"scratch instruction inserted by the transpiler: {scratch[0]!r}")
print(f"expected (vanilla): final state |e c1 c2> = |{expected[0]}> (p={expected[1]})")
print(f"got      (NV)     : final state |e c1 c2> = |{got[0]}> (p={got[1]})")
if got[:2] != expected[:2]:
    print("MISMATCH: `x Q2` of the second iteration hit the electron (Q2 was overwritten with 0) "
          "instead of carbon 1")
    sys.exit(1)
