"""C18 / finding 4: callback delivery on a broadcast channel loses every message, silently.

BroadcastChannel documents `use_callbacks` ("whether to use the `recv_callback` and `conn_lost_callback`
callback methods") and `recv_callback(remote_app_name, msg)` ("This method gets called when a message is
received").  BroadcastChannelBySockets passes use_callbacks=True on to its ThreadSockets, whose own
recv_callback is the empty base-class method: the hub hands each message to that no-op and forgets it.
"""
import sys
import threading
import time

from netqasm.sdk.classical_communication import ThreadBroadcastChannel

got = []


class Listener(ThreadBroadcastChannel):
    def recv_callback(self, remote_app_name, msg):
        got.append((remote_app_name, msg))


polled = []


def bob():
    ch = Listener("B", ["A"], use_callbacks=True)
    time.sleep(0.5)
    while True:  # whatever was not delivered to the callback should at least still be receivable
        try:
            polled.append(ch.recv(block=False))
        except RuntimeError:
            break


tb = threading.Thread(target=bob)
tb.start()
cha = ThreadBroadcastChannel("A", ["B"])
for m in ["m1", "m2", "m3"]:
    cha.send(m)  # no error
tb.join()
print("expected: B gets m1, m2, m3 from A exactly once, in order (callback, or else recv)")
print("observed: recv_callback got", got, "| recv(block=False) got", polled)
sys.exit(0 if [m for _, m in got + polled] == ["m1", "m2", "m3"] else 1)
