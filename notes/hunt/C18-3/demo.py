"""C18 finding 3: three broadcast endpoints never find each other when their remote lists are rotated.

A lists [B, C], B lists [C, A], C lists [A, B].  Every endpoint is started, each one is present for the whole time, yet
every constructor waits for a peer socket that its peer will only open after *its* first wait has ended: a cycle.
With timeout=None all three hang for ever; a timeout is used here so that the demo terminates.
"""
import sys
import threading

from netqasm.sdk.classical_communication.thread_socket.broadcast_channel import (
    ThreadBroadcastChannel,
)

result = {}


def make(name, remotes):
    try:
        result[name] = ThreadBroadcastChannel(name, remotes, timeout=2)
    except Exception as exc:
        result[name] = exc


plan = [("A", ["B", "C"]), ("B", ["C", "A"]), ("C", ["A", "B"])]
threads = [threading.Thread(target=make, args=p) for p in plan]
[t.start() for t in threads]
[t.join() for t in threads]

print("expected: all three channels are built (all endpoints are started within microseconds of each other)")
for name, _ in plan:
    print(f"happened: {name} -> {result[name]!r}")
sys.exit(0 if all(isinstance(v, ThreadBroadcastChannel) for v in result.values()) else 1)
