"""C17: an immediate whose value is a Python bool prints as 'True'/'False', which is not NetQASM source."""
import sys

from netqasm.lang.encoding import RegisterName
from netqasm.lang.instr import core
from netqasm.lang.instr.flavour import VanillaFlavour
from netqasm.lang.operand import Immediate, Register
from netqasm.lang.parsing import deserialize
from netqasm.lang.parsing.text import parse_text_subroutine
from netqasm.lang.subroutine import Subroutine

flavour = VanillaFlavour()

# This is what the SDK emits for e.g. `with m.if_eq(True):` or
# `conn.new_array(init_values=[True])`; bool is an int (value 1, in range) and the
# binary encoder accepts it.
instr = core.SetInstruction(reg=Register(RegisterName.R, 1), imm=Immediate(True))
printed = str(instr)
raw = bytes(Subroutine(instructions=[instr], app_id=0))
after_binary = str(deserialize(raw, flavour=flavour).instructions[0])

print(f"printed text            : {printed!r}")
print(f"text after binary trip  : {after_binary!r}")
print("expected                : printed text parses back to an equal instruction, "
      "and text -> binary -> text is stable")

failed = False
if after_binary != printed:
    print("happened                : text is not stable across serialisation")
    failed = True

try:
    back = parse_text_subroutine(printed, flavour=flavour).instructions
    if len(back) != 1 or back[0] != instr:
        print(f"happened                : parsed back to a different instruction: {back!r}")
        failed = True
except BaseException as exc:  # AssertionError from RegImmInstruction.from_operands
    print(f"happened                : parser raised {type(exc).__name__} on {printed!r}")
    failed = True

sys.exit(1 if failed else 0)
