"""C18 finding 1: ThreadBroadcastChannel.recv(block=False) never delivers a pending message."""
import sys
import threading

from netqasm.sdk.classical_communication.thread_socket.broadcast_channel import (
    ThreadBroadcastChannel,
)

chan = {}


def make(name, remotes):
    chan[name] = ThreadBroadcastChannel(name, remotes, timeout=5)


threads = [
    threading.Thread(target=make, args=("A", ["B"])),
    threading.Thread(target=make, args=("B", ["A"])),
]
[t.start() for t in threads]
[t.join() for t in threads]

chan["A"].send("hello")  # queued for B before B looks

print("expected: B.recv(block=False) -> ('A', 'hello')   (channel is NOT empty)")
try:
    got = chan["B"].recv(block=False)
    print(f"happened: {got!r}")
    ok = got == ("A", "hello")
except RuntimeError as exc:
    print(f"happened: RuntimeError({exc})  -- emptiness reported although a message is queued")
    # the message is really there: a blocking receive gets it at once
    print(f"          blocking receive afterwards returns {chan['B'].recv(block=True, timeout=1)!r}")
    ok = False

sys.exit(0 if ok else 1)
