"""C13 finding 3: a keep-response marks its physical qubit "in use" before the mapping is
validated; when the mapping is refused the physical qubit is leaked for good.

App 0 has a unit module of ONE qubit and asks for an EPR pair into virtual qubit 1
(qubit-address array [1]).  `qalloc` of virtual 1 is refused without side effects, but the
keep-response path first adds the physical qubit to the used set and only then fails.
The leaked physical qubit survives stop_application and re-registration.
"""
import sys

from netqasm.backend.executor import Executor
from netqasm.backend.network_stack import BaseNetworkStack
from netqasm.lang.parsing import parse_text_subroutine
from netqasm.qlink_compat import LinkLayerOKTypeK
from netqasm.sdk.shared_memory import SharedMemoryManager


class Stack(BaseNetworkStack):
    def put(self, request):
        pass

    def setup_epr_socket(self, epr_socket_id, remote_node_id, remote_epr_socket_id, timeout=1.0):
        pass

    def get_purpose_id(self, remote_node_id, epr_socket_id):
        return epr_socket_id


class Ex(Executor):
    node_id = 0

    def _do_wait(self):  # yield to the scheduler instead of spinning
        yield None

    def _wait_to_handle_epr_responses(self):  # retry later
        pass


def sub(app_id, body):
    return parse_text_subroutine(f"# NETQASM 1.0\n# APPID {app_id}\n{body}")


def state(ex):
    mapped = sorted(p for um in ex._qubit_unit_modules.values() for p in um if p is not None)
    return sorted(ex._used_physical_qubit_addresses), mapped


SharedMemoryManager.reset_memories()
ex = Ex(name="ctrl")
ex.network_stack = Stack()
ex.init_new_application(app_id=0, max_qubits=1)

# reference: qalloc of the same out-of-range virtual qubit is refused cleanly
try:
    ex.consume_execute_subroutine(sub(0, "set Q0 1\nqalloc Q0\n"))
except ValueError as exc:
    print("qalloc of virtual 1 refused:", str(exc).splitlines()[0])
print("(used, mapped) after refused qalloc:", state(ex))

recv = ex.execute_subroutine(
    sub(
        0,
        """
set R0 1
array R0 @0
set R1 0
store R0 @0[R1]
set R0 10
array R0 @1
set R5 1
set R6 0
set R7 0
set R8 1
recv_epr R5 R6 R7 R8
set R0 0
set R1 10
wait_all @1[R0:R1]
""",
    )
)
next(recv)  # app 0 waits for its pair; @0 == [1] names virtual qubit 1

try:
    ex._handle_epr_response(
        LinkLayerOKTypeK(logical_qubit_id=0, directionality_flag=1, purpose_id=0, remote_node_id=1)
    )
except ValueError as exc:
    print("keep-response refused:", str(exc).splitlines()[0])
print("(used, mapped) after refused keep-response:", state(ex))

list(ex.stop_application(0))
print("(used, mapped) after stop_application(0):", state(ex))
ex.init_new_application(app_id=0, max_qubits=1)
ex.consume_execute_subroutine(sub(0, "set Q0 0\nqalloc Q0\n"))
used, mapped = state(ex)
print("(used, mapped) after re-registration and one qalloc:", (used, mapped))
print("expected: used == mapped at every step (== [0] at the end)")
if used != mapped:
    print("VIOLATION: physical qubit(s)", sorted(set(used) - set(mapped)), "marked in use but mapped by nobody")
    sys.exit(1)
print("ok")
