"""C05 finding 3: a Future that was read once never follows the controller again.

Program:
    a = conn.new_array(init_values=[1]); f = a.get_future_index(0)
    flush                                    # read f and a[0]  -> 1
    f.add(5)
    flush                                    # read f and a[0]  -> should be 6
"After each flush every Future, RegFuture and Array handle read on the host equals the controller's value."
"""
import logging
import sys

from netqasm.backend.executor import Executor
from netqasm.backend.messages import deserialize_host_msg
from netqasm.backend.qnodeos import QNodeController
from netqasm.sdk.connection import BaseNetQASMConnection, DebugNetworkInfo

logging.disable(logging.CRITICAL)


class Controller(QNodeController):
    @classmethod
    def _get_executor_class(cls, flavour=None):
        return Executor

    def stop(self):
        pass

    def _mark_message_finished(self, msg_id, msg):
        pass


class Conn(BaseNetQASMConnection):
    """Hands every serialized message to an in-process controller."""

    def __init__(self, ctrl):
        self._ctrl = ctrl
        super().__init__(app_name=ctrl.name, node_name=ctrl.name)

    def _commit_serialized_message(self, raw_msg, block=True, callback=None):
        list(self._ctrl.handle_netqasm_message(0, deserialize_host_msg(raw_msg)))

    def _get_network_info(self):
        return DebugNetworkInfo


def run(read_after_first_flush):
    ctrl = Controller(name=f"node_{read_after_first_flush}")
    conn = Conn(ctrl)
    a = conn.new_array(init_values=[1])
    f = a.get_future_index(0)
    conn.flush()
    if read_after_first_flush:
        assert int(f) == 1 and a[0] == 1
    f.add(5)
    conn.flush()
    controller = ctrl._executor._app_arrays[conn.app_id]._get_array(a.address)[0]
    return {"controller": controller, "Array handle a[0]": a[0], "Future handle int(f)": int(f)}


expected = {"controller": 6, "Array handle a[0]": 6, "Future handle int(f)": 6}
bad = False
for read in (False, True):
    got = run(read)
    ok = got == expected
    bad |= not ok
    print(f"handles read after the first flush: {read}")
    print(f"   expected after the second flush: {expected}")
    print(f"   observed after the second flush: {got}")
    print("   ->", "ok" if ok else "VIOLATION: the Future still reports the value it had after the first flush")
sys.exit(1 if bad else 0)
