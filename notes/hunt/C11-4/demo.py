"""C11 / finding 4: an R-type (remote state preparation) request cannot cross into qlink-interface 1.0.

The request that create_rsp() produces reaches the network stack, but qlink_compat.request_to_qlink_1_0 - the
conversion a qlink-interface-1.0 stack has to apply - rejects it, although qlink_interface.ReqRemoteStatePrep
exists.  K and M requests built the same way convert fine.
"""
import logging
import sys

import qlink_interface as ql

from netqasm.backend.executor import Executor
from netqasm.backend.messages import deserialize_host_msg
from netqasm.backend.network_stack import BaseNetworkStack
from netqasm.backend.qnodeos import QNodeController
from netqasm.qlink_compat import RandomBasis, TimeUnit, request_to_qlink_1_0
from netqasm.sdk.connection import BaseNetQASMConnection, DebugConnection, DebugNetworkInfo
from netqasm.sdk.epr_socket import EPRSocket

logging.disable(logging.ERROR)
DebugConnection.node_ids = {"alice": 0, "bob": 1}


class Stack(BaseNetworkStack):
    """A stack that forwards requests to a qlink-interface 1.0 link layer."""

    def __init__(self):
        self.converted = []

    def put(self, request):
        try:
            self.converted.append((request.type.name, request_to_qlink_1_0(request)))
        except Exception as exc:
            self.converted.append((request.type.name, exc))

    def setup_epr_socket(self, epr_socket_id, remote_node_id, remote_epr_socket_id, timeout=1.0):
        pass

    def get_purpose_id(self, remote_node_id, epr_socket_id):
        return epr_socket_id


class Controller(QNodeController):
    @classmethod
    def _get_executor_class(cls, flavour=None):
        return Executor

    def stop(self):
        pass

    def _mark_message_finished(self, msg_id, msg):
        pass


class Conn(BaseNetQASMConnection):
    def __init__(self, app_name, controller, **kwargs):
        self._controller = controller
        super().__init__(app_name, node_name=controller.name, **kwargs)

    def _commit_serialized_message(self, raw_msg, block=True, callback=None):
        list(self._controller.handle_netqasm_message(0, deserialize_host_msg(raw_msg)))

    def _get_network_info(self):
        return DebugNetworkInfo


controller = Controller("alice")
stack = Stack()
controller.network_stack = stack
sock = EPRSocket("bob")
conn = Conn("alice", controller, epr_sockets=[sock])
common = dict(number=1, time_unit=TimeUnit.MILLI_SECONDS, max_time=5)
# Build the three requests with the SDK, strip the trailing wait, and execute only the create_epr part.
sock.create_measure(rotations_local=(1, 2, 3), random_basis_local=RandomBasis.XZ, **common)
sock.create_rsp(rotations_local=(1, 2, 3), random_basis_local=RandomBasis.XZ, **common)
proto = conn.builder.subrt_pop_pending_subroutine()
proto.commands = [c for c in proto.commands if getattr(getattr(c, "instruction", None), "name", "") != "WAIT_ALL"]
conn.commit_protosubroutine(proto)

failed = False
for type_name, result in stack.converted:
    if isinstance(result, Exception):
        failed = True
        print(f"type {type_name}: conversion to qlink-interface 1.0 FAILED: {type(result).__name__}: {str(result)[:90]}...")
    else:
        print(f"type {type_name}: accepted as {type(result).__name__}")
print("(the interface does define", ql.ReqRemoteStatePrep.__name__, "for this request type)")
if failed:
    print("FAIL: a request type of the API does not reach the link layer in a form its interface accepts")
    sys.exit(1)
print("PASS")
