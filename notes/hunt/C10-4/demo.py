"""C10 / finding 4: a link layer that reports through qlink-interface 1.0 gets its Bell states
renumbered: Phi- is corrected with X, Psi+ with X and Z, Psi- with Z.

Executor._handle_epr_response() explicitly accepts qlink_interface.ResCreateAndKeep and converts it with
netqasm.qlink_compat.response_from_qlink_1_0().  One pair, generic hardware, recv_keep() with the
default expect_phi_plus=True; all four Bell states are tried.
"""
import sys

import qlink_interface as qlink_1_0

from netqasm.backend.executor import Executor
from netqasm.backend.messages import InitNewAppMessage, SubroutineMessage, deserialize_host_msg
from netqasm.backend.network_stack import BaseNetworkStack
from netqasm.lang.parsing import deserialize
from netqasm.sdk.connection import BaseNetQASMConnection, DebugConnection, DebugNetworkInfo
from netqasm.sdk.epr_socket import EPRSocket


class Stack(BaseNetworkStack):
    def put(self, request): pass
    def setup_epr_socket(self, *a, **k): pass
    def get_purpose_id(self, remote_node_id, epr_socket_id): return epr_socket_id


class Backend(Executor):
    """netqasm's own Executor; records corrections, link layer answers are scripted."""
    node_id = 0

    def __init__(self, name, responses):
        super().__init__(name=name)
        self.network_stack, self.responses, self.log = Stack(), list(responses), []

    def _do_wait(self):  # the subroutine waits for the link layer: deliver the next pair
        self._handle_epr_response(self.responses.pop(0))

    def _do_single_qubit_rotation(self, instr, subroutine_id, address, angle):
        self.log.append((instr.mnemonic, address))  # (gate, virtual qubit ID)


class Conn(BaseNetQASMConnection):
    def __init__(self, name, backend, **kw):
        self.backend = backend
        super().__init__(name, **kw)

    def _get_network_info(self): return DebugNetworkInfo

    def _commit_serialized_message(self, raw_msg, block=True, callback=None):
        msg = deserialize_host_msg(raw_msg)
        if isinstance(msg, InitNewAppMessage):
            self.backend.init_new_application(msg.app_id, msg.max_qubits)
        elif isinstance(msg, SubroutineMessage):
            self.backend.consume_execute_subroutine(deserialize(msg.subroutine))


PAULIS = {"PHI_PLUS": [], "PHI_MINUS": ["rot_z"], "PSI_PLUS": ["rot_x"], "PSI_MINUS": ["rot_x", "rot_z"]}
bad = 0
for bell in qlink_1_0.BellState:
    name = f"bob{bell.value}"  # a fresh receiver node (ID 0) per Bell state
    DebugConnection.node_ids = {name: 0, "alice": 1}
    backend = Backend(name, [qlink_1_0.ResCreateAndKeep(
        create_id=0, logical_qubit_id=10, directionality_flag=1, sequence_number=0, purpose_id=0,
        remote_node_id=1, goodness=1.0, time_of_goodness=0, bell_state=bell)])
    sock = EPRSocket("alice")
    with Conn(name, backend, epr_sockets=[sock]) as conn:
        q = sock.recv_keep(number=1)[0]
        conn.flush()
    expected = [(g, q.qubit_id) for g in PAULIS[bell.name]]
    verdict = "ok" if sorted(backend.log) == sorted(expected) else "WRONG"
    bad += verdict == "WRONG"
    print(f"link layer reports {bell.name:9} (= {bell.value}): expected {expected}, observed {backend.log}  {verdict}")
if bad:
    print("VIOLATION: the correction applied is not the one determined by the pair's Bell state "
          "(qlink-interface 1.0 numbers Phi-,Psi+,Psi- as 1,2,3; netqasm.qlink_compat.BellState as 3,1,2)")
    sys.exit(1)
print("ok")
