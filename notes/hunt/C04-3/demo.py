"""qalloc / qfree with a negative virtual address wrap around the unit module."""
import sys

from netqasm.backend.executor import Executor
from netqasm.lang.parsing import parse_text_subroutine
from netqasm.sdk.shared_memory import SharedMemoryManager

HDR = "# NETQASM 1.0\n# APPID 0\n"
# unit module has 3 virtual addresses 0,1,2.  Q0 = -1.
SUB1 = HDR + """
set R1 0
set R2 1
sub Q0 R1 R2
qalloc Q0
"""
# qubit 2 was never allocated by the program, so this must succeed ...
SUB2 = HDR + """
set Q1 2
qalloc Q1
"""
# ... and "qfree -1" must fault (nothing allocated at a valid address)
SUB3 = HDR + """
set Q1 2
qalloc Q1
set R1 0
set R2 1
sub Q0 R1 R2
qfree Q0
"""


def fresh():
    SharedMemoryManager.reset_memories()
    ex = Executor(name="node")
    ex.init_new_application(app_id=0, max_qubits=3)
    return ex


def run(ex, txt):
    try:
        list(ex.execute_subroutine(parse_text_subroutine(txt)))
        return None
    except Exception as exc:  # noqa
        return str(exc).splitlines()[0]


ok = True
ex = fresh()
e1 = run(ex, SUB1)
print("qalloc of address -1: expected fault 'At line 3', got", e1, "; unit module =", ex._qubit_unit_modules[0])
ok &= e1 is not None and e1.startswith("At line 3")
e2 = run(ex, SUB2)
print("then qalloc of address 2: expected success, got", e2)
ok &= e2 is None

ex = fresh()
e3 = run(ex, SUB3)
print("qalloc 2; qfree -1: expected fault 'At line 5' and qubit 2 still allocated; got", e3,
      "; unit module =", ex._qubit_unit_modules[0])
ok &= e3 is not None and e3.startswith("At line 5") and ex._qubit_unit_modules[0][2] is not None
if not ok:
    print("VIOLATION: negative virtual qubit addresses alias the last unit-module slots")
sys.exit(0 if ok else 1)
