"""C03 #1: an IR operand object used by two commands gets its literal materialised only once.

IR program (no register R0 is named anywhere):
    set R1 5 ; set R2 0 ; array 10 @0
    store R1 @0[3]        <- entry = ArrayEntry(@0, 3), same Python object ...
    add   R2 R2 7
    store R2 @0[3]        <- ... used again here
    load  R3 @0[3]        (a fresh operand object)
Expected: @0[3] == 7, R3 == 7, @0[7] untouched.
"""
import logging
import sys

from netqasm.backend.executor import Executor
from netqasm.lang.encoding import RegisterName
from netqasm.lang.ir import GenericInstr as G
from netqasm.lang.ir import ICmd, ProtoSubroutine
from netqasm.lang.operand import Address, ArrayEntry, Register
from netqasm.lang.parsing.text import assemble_subroutine
from netqasm.sdk.shared_memory import SharedMemoryManager

logging.disable(logging.CRITICAL)


def R(i):
    return Register(RegisterName.R, i)


entry = ArrayEntry(Address(0), 3)  # one operand object, two uses
commands = [
    ICmd(G.SET, operands=[R(1), 5]),
    ICmd(G.SET, operands=[R(2), 0]),
    ICmd(G.ARRAY, operands=[10, Address(0)]),
    ICmd(G.STORE, operands=[R(1), entry]),
    ICmd(G.ADD, operands=[R(2), R(2), 7]),
    ICmd(G.STORE, operands=[R(2), entry]),
    ICmd(G.LOAD, operands=[R(3), ArrayEntry(Address(0), 3)]),
]
subroutine = assemble_subroutine(ProtoSubroutine(commands, app_id=0))
print(subroutine)

SharedMemoryManager.reset_memories()
executor = Executor()
executor.init_new_application(app_id=0, max_qubits=1)
error = None
try:
    executor.consume_execute_subroutine(subroutine)
except Exception as exc:
    error = str(exc).split("\n")[0]
r3 = executor._get_register(0, R(3))
array = executor._app_arrays[0]._arrays[0]
print("expected: R3 == 7, array @0 = [None, None, None, 7, None, None, None, None, None, None]")
print(f"got     : R3 == {r3}, array @0 = {array}, executor error = {error}")
if r3 != 7 or array[7] is not None:
    print("VIOLATION: the second use of @0[3] has no 'set' of its own and reads the scratch register "
          "after it was reloaded with 7 -> it writes @0[7] instead of @0[3]; nothing is reported")
    sys.exit(1)
print("ok")
