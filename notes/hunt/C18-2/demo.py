"""C18 finding 2: emptiness check and pop in _SocketHub.recv are two separate critical sections.

Two threads receive on endpoint B while exactly ONE message is queued.  The schedule (one preemption, at statement
granularity inside the hub) is forced by a lock wrapper: thread R1 is paused after it has evaluated
`len(messages) == 0` (False) and before it enters `with self._lock: msg = messages.pop(0)`; meanwhile R2 runs its
whole recv.
"""
import sys
import threading

from netqasm.sdk.classical_communication.thread_socket.socket import ThreadSocket
from netqasm.sdk.classical_communication.thread_socket.socket_hub import _socket_hub

socks = {}


def make(a, b):
    socks[a] = ThreadSocket(a, b, timeout=5)


ts = [threading.Thread(target=make, args=p) for p in (("A", "B"), ("B", "A"))]
[t.start() for t in ts]
[t.join() for t in ts]
socks["A"].send("only-one")

r2_done = threading.Event()
r1_checked = threading.Event()


class SchedLock:
    """Same lock, plus: R1's 2nd acquisition (the pop) waits until R2 has finished its recv."""

    def __init__(self, lock):
        self.lock, self.count = lock, {}

    def __enter__(self):
        name = threading.current_thread().name
        self.count[name] = self.count.get(name, 0) + 1
        if name == "R1" and self.count[name] == 2:
            r1_checked.set()  # R1 has passed the len() check
            r2_done.wait()  # <- the preemption
        self.lock.acquire()

    def __exit__(self, *exc):
        self.lock.release()


_socket_hub._lock = SchedLock(_socket_hub._lock)
result = {}


def receiver(wait_for=None):
    if wait_for is not None:
        wait_for.wait()
    name = threading.current_thread().name
    try:
        result[name] = ("msg", socks["B"].recv(block=False))
    except RuntimeError as exc:  # the documented "nothing there" answer
        result[name] = ("empty", str(exc))
    except BaseException as exc:  # anything else is a defect
        result[name] = ("CRASH", repr(exc))
    if name == "R2":
        r2_done.set()


r1 = threading.Thread(target=receiver, name="R1")
r2 = threading.Thread(target=receiver, name="R2", args=(r1_checked,))
r1.start(), r2.start()
r1.join(), r2.join()

print("expected: one receiver gets 'only-one', the other gets RuntimeError('No message to receive ...')")
print(f"happened: R1 -> {result['R1']}")
print(f"          R2 -> {result['R2']}")
kinds = sorted(k for k, _ in result.values())
sys.exit(0 if kinds == ["empty", "msg"] else 1)
