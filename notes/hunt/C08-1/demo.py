"""C08 finding 1: a Q register written by `load` keeps its stale `set` value in the transpiler.

Run: cd /tmp/hunt/C08/wt && PYTHONPATH=/tmp/hunt/C08/wt /venv/bin/python /tmp/hunt/C08/out/1/demo.py
"""
import sys
import numpy as np

from netqasm.backend.executor import Executor
from netqasm.lang.instr.flavour import NVFlavour, VanillaFlavour
from netqasm.lang.parsing.binary import deserialize
from netqasm.lang.parsing.text import parse_text_subroutine
from netqasm.sdk.shared_memory import SharedMemoryManager
from netqasm.sdk.transpile import NVSubroutineTranspiler


class SV(Executor):
    """Base Executor + 3-qubit state vector; virtual ID 0 is the electron, 1 and 2 are carbons."""

    def __init__(self, state):
        super().__init__(name="sv")
        self.state = np.array(state, dtype=complex).reshape(2, 2, 2)

    def _apply(self, U, *qs):
        assert len(set(qs)) == len(qs), f"gate on identical qubits {qs}"
        n = len(qs)
        U = np.asarray(U, dtype=complex).reshape([2] * (2 * n))
        s = np.tensordot(U, self.state, axes=(list(range(n, 2 * n)), list(qs)))
        self.state = np.moveaxis(s, list(range(n)), list(qs))

    def _do_single_qubit_instr(self, instr, subroutine_id, address):
        self._apply(instr.to_matrix(), address)

    def _do_single_qubit_rotation(self, instr, subroutine_id, address, angle):
        self._apply(instr.to_matrix(), address)

    def _do_two_qubit_instr(self, instr, subroutine_id, a1, a2):
        self._apply(instr.to_matrix(), a1, a2)

    def _do_controlled_qubit_rotation(self, instr, subroutine_id, a1, a2, angle):
        # NV hardware: a controlled rotation has the electron as control and a carbon as target
        if a1 != 0 or a2 == 0:
            raise RuntimeError(f"'{instr}' executed with control=qubit {a1}, target=qubit {a2}")
        self._apply(instr.to_matrix(), a1, a2)


def run(subroutine, state):
    SharedMemoryManager.reset_memories()
    ex = SV(state)
    ex.init_new_application(app_id=0, max_qubits=3)
    ex.consume_execute_subroutine(subroutine)
    return ex.state.reshape(-1)


HDR = "# NETQASM 1.0\n# APPID 0\narray 1 @0\nstore 0 @0[0]\n"  # @0[0] = 0: ID of the electron
# The shape the SDK emits for `m.X(); q.cnot(m)` where q is a FutureQubit (ID loaded from an array)
PROGRAMS = {
    "A (carbon 1 used just before)": HDR + "set Q0 1\nx Q0\nload Q0 @0[0]\nset Q1 1\ncnot Q0 Q1\n",
    "B (carbon 2 used just before)": HDR + "set Q0 2\nx Q0\nload Q0 @0[0]\nset Q1 1\ncnot Q0 Q1\n",
    "C (Q0 never written by set)": HDR + "load Q0 @0[0]\nset Q1 1\ncphase Q0 Q1\n",
}

rng = np.random.default_rng(7)
psi = rng.normal(size=8) + 1j * rng.normal(size=8)
psi /= np.linalg.norm(psi)

failures = 0
for name, text in PROGRAMS.items():
    print(f"--- program {name}")
    expected = run(parse_text_subroutine(text, flavour=VanillaFlavour()), psi)
    print("expected: NV subroutine that ends in the same state as the vanilla one (electron 0 controls carbon 1)")
    try:
        sub = NVSubroutineTranspiler(parse_text_subroutine(text, flavour=VanillaFlavour())).transpile()
    except Exception as exc:
        print(f"happened: transpile() raised {type(exc).__name__}({exc})")
        failures += 1
        continue
    sub = deserialize(bytes(sub), flavour=NVFlavour())
    try:
        got = run(sub, psi)
    except Exception as exc:
        print("happened: transpiler used the stale value of Q0 and chose the wrong circuit; at run time:")
        print("          " + str(exc).splitlines()[0])
        failures += 1
        continue
    if abs(abs(np.vdot(expected, got)) - 1) > 1e-7:
        print("happened: final quantum state differs, overlap", abs(np.vdot(expected, got)))
        failures += 1
    else:
        print("happened: same state (ok)")

# The same thing straight from the SDK (NV compiler, FutureQubit from an EPR context)
print("--- SDK program: with sock.create_context(number=2, sequential=True) as (q, _): m.X(); q.cnot(m)")
from netqasm.sdk.connection import DebugConnection
from netqasm.sdk.epr_socket import EPRSocket
from netqasm.sdk.qubit import Qubit

DebugConnection.node_ids = {"Alice": 0, "Bob": 1}
sock = EPRSocket("Bob")
conn = DebugConnection("Alice", epr_sockets=[sock], compiler=NVSubroutineTranspiler, max_qubits=3)
m = Qubit(conn)
with sock.create_context(number=2, sequential=True) as (q, pair):
    m.X()
    q.cnot(m)
    q.measure()
m.measure()
print("expected: flush() compiles the subroutine to NV")
try:
    conn.flush()
    print("happened: compiled (ok)")
except AssertionError as exc:
    import traceback
    print("happened: AssertionError in", traceback.extract_tb(exc.__traceback__)[-1].name,
          "line", traceback.extract_tb(exc.__traceback__)[-1].lineno)
    failures += 1

print(f"\n{failures} violation(s)")
sys.exit(1 if failures else 0)
