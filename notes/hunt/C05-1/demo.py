"""C05 finding 1: a flush between two register measurements makes both handles share register M0.

Program (top-level statements, flush point optional between 1 and 2):
    1  m1 = q1.measure(store_array=False)      # outcome 1
    2  m2 = q2.measure(store_array=False)      # outcome 0
    3  with m1.if_eq(1): q3.X()
Direct execution: X is applied to q3, m1 == 1, m2 == 0 - wherever the flush points are.
"""
import logging
import sys

from netqasm.backend.executor import Executor
from netqasm.backend.messages import deserialize_host_msg
from netqasm.backend.qnodeos import QNodeController
from netqasm.sdk.connection import BaseNetQASMConnection, DebugNetworkInfo
from netqasm.sdk.qubit import Qubit

logging.disable(logging.CRITICAL)


class RecExecutor(Executor):
    """Base executor + recording backend with scripted measurement outcomes."""

    outcomes, trace = [], []

    def _do_single_qubit_instr(self, instr, subroutine_id, address):
        if instr.mnemonic != "init":
            self.trace.append((instr.mnemonic, address))

    def _do_meas(self, subroutine_id, q_address):
        outcome = self.outcomes.pop(0)
        self.trace.append(("meas", q_address, outcome))
        return outcome


class Controller(QNodeController):
    @classmethod
    def _get_executor_class(cls, flavour=None):
        return RecExecutor

    def stop(self):
        pass

    def _mark_message_finished(self, msg_id, msg):
        pass


class Conn(BaseNetQASMConnection):
    """Hands every serialized message to an in-process controller."""

    def __init__(self, ctrl):
        self._ctrl = ctrl
        super().__init__(app_name=ctrl.name, node_name=ctrl.name)

    def _commit_serialized_message(self, raw_msg, block=True, callback=None):
        list(self._ctrl.handle_netqasm_message(0, deserialize_host_msg(raw_msg)))

    def _get_network_info(self):
        return DebugNetworkInfo


def run(flush_between):
    ctrl = Controller(name=f"node_{flush_between}")
    ex = ctrl._executor
    ex.outcomes, ex.trace = [1, 0], []
    conn = Conn(ctrl)
    q1, q2, q3 = Qubit(conn), Qubit(conn), Qubit(conn)
    m1 = q1.measure(store_array=False)
    if flush_between:
        conn.flush()
    m2 = q2.measure(store_array=False)
    with m1.if_eq(1):
        q3.X()
    conn.flush()
    regs = ex._registers[conn.app_id]
    return {
        "gates": ex.trace,
        "m1 (host)": m1.value,
        "m2 (host)": m2.value,
        "m1 register": str(m1.reg),
        "m2 register": str(m2.reg),
        "m1 (controller)": regs[m1.reg.name][m1.reg.index],
    }


expected = {"gates": [("meas", 0, 1), ("meas", 1, 0), ("x", 2)], "m1 (host)": 1, "m2 (host)": 0}
bad = False
for flush_between in (False, True):
    got = run(flush_between)
    ok = all(got[k] == v for k, v in expected.items())
    bad |= not ok
    print(f"flush between statements 1 and 2: {flush_between}")
    print(f"   expected: {expected}")
    print(f"   observed: {got}")
    print("   ->", "ok" if ok else "VIOLATION: X on q3 was dropped and m1 now reads m2's outcome")
sys.exit(1 if bad else 0)
