"""C19 #1: steps with denominator exponent >= 32 are silently thrown away, so for
tolerances below ~1.9e-7 the returned steps miss the angle by more than `tol`."""
import sys
from fractions import Fraction

from netqasm.sdk.toolbox.state_prep import get_angle_spec_from_float

PI = Fraction("3.14159265358979323846264338327950288419716939937510582097494459")


def error(angle, nds):
    """|sum_i n_i*pi/2^d_i - angle| modulo 2 pi, in exact rational arithmetic."""
    turns = (sum(Fraction(n, 2**d) for n, d in nds) * PI - Fraction(angle)) / (2 * PI)
    return float(abs(turns - round(turns)) * 2 * PI)


bad = 0
for angle, tol in [(1.0, 1e-9), (1.0, 1e-8), (1e-8, 1e-9), (1.5e-7, 1e-7), (-1.0, 1e-9)]:
    nds = get_angle_spec_from_float(angle, tol=tol)
    err = error(angle, nds)
    ok = err <= tol
    bad += not ok
    print(f"angle={angle!r:8} tol={tol:g}: steps={nds}")
    print(f"    expected error <= {tol:g}, got {err:.3e}  {'ok' if ok else 'VIOLATION'}")
sys.exit(1 if bad else 0)
