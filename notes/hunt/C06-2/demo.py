"""C06 violation 2: a pre-compiled templated subroutine can be filled in only once.
instantiate() overwrites the Template operands in place, so a second
instantiate(new values) + commit silently re-sends the FIRST values."""
import math
import sys

from netqasm.backend.executor import Executor
from netqasm.backend.messages import (
    InitNewAppMessage,
    StopAppMessage,
    SubroutineMessage,
    deserialize_host_msg,
)
from netqasm.lang.operand import Template
from netqasm.lang.parsing import deserialize
from netqasm.logging.glob import set_log_level
from netqasm.sdk.connection import DebugConnection
from netqasm.sdk.qubit import Qubit
from netqasm.sdk.shared_memory import SharedMemoryManager

set_log_level("ERROR")
DebugConnection.node_ids = {"alice": 0}


class RecordingExecutor(Executor):
    """Controller that records which rotations it performs."""

    def __init__(self):
        super().__init__(name="alice")
        self.rotations = []

    def _do_single_qubit_rotation(self, instr, subroutine_id, address, angle):
        self.rotations.append((instr.mnemonic, address, round(angle * 16 / math.pi)))


class LoopbackConnection(DebugConnection):
    """Hands every serialized message to a controller (Executor)."""

    def __init__(self, *args, **kwargs):
        SharedMemoryManager.reset_memories()
        DebugConnection._app_ids = {}
        self.executor = RecordingExecutor()
        super().__init__(*args, **kwargs)

    def _commit_serialized_message(self, raw_msg, block=True, callback=None):
        msg = deserialize_host_msg(raw_msg)
        if isinstance(msg, InitNewAppMessage):
            self.executor.init_new_application(msg.app_id, msg.max_qubits)
        elif isinstance(msg, SubroutineMessage):
            self.executor.consume_execute_subroutine(deserialize(msg.subroutine))
        elif isinstance(msg, StopAppMessage):
            list(self.executor.stop_application(msg.app_id))


VALUES = [1, 3, 7]  # numerators: rotate by 1*pi/16, then 3*pi/16, then 7*pi/16

# Reference: the operations written with the values and flushed.
conn = LoopbackConnection("alice")
q = Qubit(conn)
conn.flush()
for v in VALUES:
    q.rot_X(n=v, d=4)
    conn.flush()
expected = list(conn.executor.rotations)
conn.close()

# Pre-compiled: compile once, then (instantiate, commit) for each value.
conn = LoopbackConnection("alice")
q = Qubit(conn)
conn.flush()
q.rot_X(n=Template("n"), d=4)
subroutine = conn.compile()
for v in VALUES:
    subroutine.instantiate(conn.app_id, {"n": v})
    conn.commit_subroutine(subroutine)
got = list(conn.executor.rotations)
conn.close()

print("rotations done by the controller (mnemonic, qubit, numerator of pi/16)")
print("  flushes with values        :", expected)
print("  compile + instantiate/commit:", got)
if got != expected:
    print("VIOLATION: the second and third instantiate() were silently ignored")
    sys.exit(1)
print("OK: identical")
