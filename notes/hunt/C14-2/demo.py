"""C14: completed measure-to-register operations exhaust the M registers.

Each `q.measure(store_array=False)` (or `q.measure(future=<RegFuture>)`) reserves one of M0..M15 until the next
flush - even when its outcome was consumed at once by a finished `if`, and even when the very same RegFuture
handle is re-used so that at most one outcome can still be referred to. After 16 of them since the last flush
no measurement at all (not even the default one into an array, which needs an M register for an instant)
can be compiled, although no operation is open.
"""
import logging
import sys

logging.disable(logging.WARNING)

from netqasm.sdk.connection import DebugConnection
from netqasm.sdk.futures import RegFuture
from netqasm.sdk.qubit import Qubit

DebugConnection.node_ids = {"alice": 0}
N_OPS = 300
FLUSH_EVERY = 20


def run(label, one_operation):
    conn = DebugConnection("alice")
    state = {}
    for n in range(1, N_OPS + 1):
        try:
            one_operation(conn, state)
            if n % FLUSH_EVERY == 0:
                conn.flush()
        except Exception as exc:  # noqa
            used = [str(r) for r, u in conn.builder._mem_mgr._used_meas_registers.items() if u]
            print(f"{label}: operation {n} FAILS: {type(exc).__name__}: {exc}")
            print(f"    open operations: 0, M registers still reserved: {len(used)}")
            return False
    conn.flush()
    print(f"{label}: {N_OPS} operations, flush every {FLUSH_EVERY}: compiles")
    return True


def correction(conn, state):
    """measure into a register, use the outcome in an if that is finished right away"""
    q, target = Qubit(conn), Qubit(conn)
    m = q.measure(store_array=False)
    with m.if_eq(1):
        target.X()
    target.measure()


def same_handle(conn, state):
    """every outcome goes to the SAME RegFuture: only the last one can still be referred to"""
    m = state.setdefault("m", RegFuture(conn))
    Qubit(conn).measure(future=m)


def to_array(conn, state):
    """reference: the default measure (outcome in an array) releases its M register at once"""
    q, target = Qubit(conn), Qubit(conn)
    m = q.measure()
    with m.if_eq(1):
        target.X()
    target.measure()


ok_ref = run("measure() + if               ", to_array)
ok_1 = run("measure(store_array=False)+if", correction)
ok_2 = run("measure(future=same RegFuture)", same_handle)
print()
print("expected: every sequence of completed measure operations with periodic flushes keeps compiling")
if ok_ref and not (ok_1 and ok_2):
    print("observed: after 16 register measurements since the last flush every further measure runs out of M registers")
    sys.exit(1)
print("observed: no violation")
