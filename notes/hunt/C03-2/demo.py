"""C03 #2: a label line that carries a trailing comment cannot be assembled.

Comments after instructions are fine (the package's own tests use them), comments after a label are not.
"""
import sys

from netqasm.lang.parsing import parse_text_subroutine

SRC = """
set R0 0
LOOP: // loop head
add R0 R0 1
blt R0 3 LOOP // comments after instructions are accepted
"""
SRC_NO_COMMENT = SRC.replace(" // loop head", "")

reference = parse_text_subroutine(SRC_NO_COMMENT)
print("same program without the comment on the label line assembles to:")
print(reference)
print("expected: identical subroutine for the commented version (blt ... -> 1)")
try:
    sub = parse_text_subroutine(SRC)
except Exception as exc:
    print(f"got     : {type(exc).__name__}: {exc}")
    print("VIOLATION: the label line 'LOOP: // loop head' is taken for an instruction")
    sys.exit(1)
print(sub)
if str(sub) != str(reference):
    print("VIOLATION: different subroutine")
    sys.exit(1)
print("ok")
