"""C12: the request bookkeeping remembers the *subroutine id*, which is forgotten as soon as the
subroutine ends.  A response that arrives after the requesting subroutine has returned
(request posted in one subroutine, result awaited in the next one of the same application)
is half-consumed: the request is retired, then storing fails, the response stays in the
pending list and is consumed a second time by the next request of that queue."""
import sys

from netqasm.backend.executor import Executor
from netqasm.backend.network_stack import BaseNetworkStack
from netqasm.lang.parsing import parse_text_subroutine
from netqasm.qlink_compat import BellState, LinkLayerOKTypeM, ReturnType


class Stack(BaseNetworkStack):
    def put(self, request):
        pass

    def setup_epr_socket(self, *a, **k):
        return None

    def get_purpose_id(self, remote_node_id, epr_socket_id):
        return epr_socket_id


class Ex(Executor):
    node_id = 0

    def _do_wait(self):
        yield

    def _wait_to_handle_epr_responses(self):  # keep finding 1 out of the picture
        pass


def sub(body):
    return parse_text_subroutine("# NETQASM 1.0\n# APPID 0\n" + body)


ex = Ex(name="c12-demo-2")
ex.network_stack = Stack()
ex.init_new_application(app_id=0, max_qubits=2)

RECV = "set R0 10\narray R0 @{a}\nset R0 1\nset R1 0\nset R2 {a}\nrecv_epr R0 R1 C0 R2\n"
# subroutine 1: request A (receive 1 measured pair from node 1, socket 0, results in @0); returns
ex.consume_execute_subroutine(sub(RECV.format(a=0)))
# subroutine 2: request B on the same socket (results in @1), then waits for A's and B's results
gen = ex.execute_subroutine(sub(RECV.format(a=1) + "wait_all @0[0:10]\nwait_all @1[0:10]\n"))
for _ in range(8):
    next(gen)  # B is posted, subroutine 2 now sits in wait_all @0


def resp(outcome, seq):  # OK_M from remote creator (directionality 1), node 1, purpose 0
    return LinkLayerOKTypeM(ReturnType.OK_M, 0, outcome, 0, 1, seq, 0, 1, 0, BellState.PHI_PLUS)


rA, rB = resp(1, 11), resp(0, 22)
print("expected: rA (outcome 1, seq 11) -> @0, rB (outcome 0, seq 22) -> @1, no error, nothing left over")
errors = []
for name, r in (("rA", rA), ("rB", rB)):
    try:
        ex._handle_epr_response(r)
    except Exception as e:  # loud part
        errors.append(f"{name}: {type(e).__name__}: {str(e).splitlines()[0]}")
a0, a1 = ex._app_arrays[0][0, :], ex._app_arrays[0][1, :]
print("errors        :", errors)
print("@0 (request A):", a0)
print("@1 (request B):", a1)
print("left pending  :", [(p.measurement_outcome, p.sequence_number) for p in ex._pending_epr_responses])
ok = not errors and a0[2] == 1 and a0[5] == 11 and a1[2] == 0 and a1[5] == 22 and not ex._pending_epr_responses
if not ok:
    print("-> rA was consumed twice (retired A, then filled B's array); rB is never consumed")
sys.exit(0 if ok else 1)
