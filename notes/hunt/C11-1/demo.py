"""C11 / finding 1: the Bell state of a qlink-interface 1.0 response is mis-read by the application.

A network stack that speaks qlink-interface 1.0 answers a create_measure request with
ResMeasureDirectly objects whose bell_state is a qlink_interface.BellState member.  The executor
converts them (qlink_compat.response_from_qlink_1_0) and stores the *integer value*; the SDK handle
decodes that integer with netqasm's own BellState enum, which numbers the states differently.
"""
import logging
import sys

import qlink_interface as ql

from netqasm.backend.executor import Executor
from netqasm.backend.messages import deserialize_host_msg
from netqasm.backend.network_stack import BaseNetworkStack
from netqasm.backend.qnodeos import QNodeController
from netqasm.sdk.connection import BaseNetQASMConnection, DebugConnection, DebugNetworkInfo
from netqasm.sdk.epr_socket import EPRSocket

logging.disable(logging.WARNING)
DebugConnection.node_ids = {"alice": 0, "bob": 1}
SENT = [ql.BellState.PHI_PLUS, ql.BellState.PHI_MINUS, ql.BellState.PSI_PLUS, ql.BellState.PSI_MINUS]


class Stack(BaseNetworkStack):
    """Fake link layer: answers every create request with qlink-interface 1.0 responses."""

    def __init__(self):
        self.outbox = []

    def put(self, request):
        for i in range(request.number):
            self.outbox.append(
                ql.ResMeasureDirectly(
                    create_id=1, directionality_flag=0, sequence_number=i, purpose_id=request.purpose_id,
                    remote_node_id=request.remote_node_id, goodness=50, bell_state=SENT[i],
                    measurement_outcome=0, measurement_basis=ql.MeasurementBasis.Z,
                )
            )

    def setup_epr_socket(self, epr_socket_id, remote_node_id, remote_epr_socket_id, timeout=1.0):
        pass

    def get_purpose_id(self, remote_node_id, epr_socket_id):
        return epr_socket_id


class Exec(Executor):
    node_id = 0

    def _do_wait(self):  # the link layer delivers its next response while the subroutine waits
        self._handle_epr_response(self.network_stack.outbox.pop(0))


class Controller(QNodeController):
    @classmethod
    def _get_executor_class(cls, flavour=None):
        return Exec

    def stop(self):
        pass

    def _mark_message_finished(self, msg_id, msg):
        pass


class Conn(BaseNetQASMConnection):
    def __init__(self, app_name, controller, **kwargs):
        self._controller = controller
        super().__init__(app_name, node_name=controller.name, **kwargs)

    def _commit_serialized_message(self, raw_msg, block=True, callback=None):
        list(self._controller.handle_netqasm_message(0, deserialize_host_msg(raw_msg)))

    def _get_network_info(self):
        return DebugNetworkInfo


controller = Controller("alice")
controller.network_stack = Stack()
sock = EPRSocket("bob")
with Conn("alice", controller, epr_sockets=[sock]) as conn:
    results = sock.create_measure(number=4)
    conn.flush()
    seen = [r.bell_state for r in results]

bad = 0
for i, (sent, got) in enumerate(zip(SENT, seen)):
    ok = sent.name == got.name
    bad += not ok
    print(f"pair {i}: link layer reported {sent.name:9s} application reads {got.name:9s} {'ok' if ok else 'WRONG'}")
if bad:
    print(f"FAIL: {bad} of 4 result handles report a Bell state different from the one in their link-layer response")
    sys.exit(1)
print("PASS")
