"""C19 #2: `angle %= 2 * np.pi` reduces by the *float* 2*pi (off by 2.4e-16 from 2 pi);
for an angle of k turns the reduced angle is off by k*2.4e-16, which exceeds the
tolerance for large finite angles - also at the default tolerance used by the builder."""
import sys
from fractions import Fraction

from netqasm.sdk.connection import DebugConnection
from netqasm.sdk.qubit import Qubit
from netqasm.sdk.toolbox.state_prep import get_angle_spec_from_float

PI = Fraction("3.14159265358979323846264338327950288419716939937510582097494459")


def error(angle, nds):
    turns = (sum(Fraction(n, 2**d) for n, d in nds) * PI - Fraction(angle)) / (2 * PI)
    return float(abs(turns - round(turns)) * 2 * PI)


bad = 0
for angle, tol in [(1e13, 1e-4), (-3e13, 1e-4), (1e11, 1e-6), (1e300, 1e-1)]:
    nds = get_angle_spec_from_float(angle, tol=tol)
    err = error(angle, nds)
    ok = err <= tol and all(0 <= n <= 255 and 0 <= d <= 255 for n, d in nds)
    bad += not ok
    print(f"angle={angle!r} tol={tol:g}: steps={nds}")
    print(f"    expected error mod 2pi <= {tol:g}, got {err:.3e}  {'ok' if ok else 'VIOLATION'}")

# the same through the SDK (builder uses the default tol=1e-4)
DebugConnection.node_ids = {"alice": 0}
with DebugConnection("alice") as conn:
    q = Qubit(conn)
    q.rot_Z(angle=1e13)
    cmds = [c for c in conn.builder.subrt_pop_all_pending_commands() if "rot_z" in str(c).lower()]
    nds = [(c.operands[1], c.operands[2]) for c in cmds]
err = error(1e13, nds)
print(f"builder: q.rot_Z(angle=1e13) -> rot_z steps {nds}; error {err:.3e} (expected <= 1e-4)")
bad += err > 1e-4
sys.exit(1 if bad else 0)
