"""ret_arr hands the executor's own list to the shared memory: later stores/undefs
(without any ret_arr) change what the host sees."""
import sys

from netqasm.backend.executor import Executor
from netqasm.lang.parsing import parse_text_subroutine
from netqasm.sdk.shared_memory import SharedMemoryManager

HDR = "# NETQASM 1.0\n# APPID 0\n"
SUB1 = HDR + """
set R0 2
array R0 @0
set R1 0
set R2 1
set R3 11
set R4 22
store R3 @0[R1]
store R4 @0[R2]
ret_arr @0
"""
# second subroutine: only touches the executor-side array, returns nothing
SUB2 = HDR + """
set R1 0
set R2 1
set R3 99
store R3 @0[R1]
undef @0[R2]
"""

SharedMemoryManager.reset_memories()
ex = Executor(name="node")
ex.init_new_application(app_id=0, max_qubits=1)
shared = SharedMemoryManager.get_shared_memory("node", key=0)

list(ex.execute_subroutine(parse_text_subroutine(SUB1)))
after_1 = list(shared.get_array_part(0, slice(0, 2)))
list(ex.execute_subroutine(parse_text_subroutine(SUB2)))
after_2 = list(shared.get_array_part(0, slice(0, 2)))

print("host-visible @0 after subroutine 1 (ret_arr @0):", after_1)
print("host-visible @0 after subroutine 2 (no ret_arr) :", after_2)
print("expected both                                   : [11, 22]")
ok = after_1 == [11, 22] and after_2 == [11, 22]
if not ok:
    print("VIOLATION: shared memory changed although subroutine 2 executed no ret_arr")
sys.exit(0 if ok else 1)
