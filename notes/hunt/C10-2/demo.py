"""C10 / finding 2: recv_keep with a post routine (sequential): correction hits virtual qubit 0,
which here is another live qubit of the application, not the EPR qubit.

The application already holds a qubit (virtual ID 0), so the sequentially received EPR qubits
get virtual ID 1.  Link layer reports Psi+ for the single pair.  Expected: X on virtual qubit 1.
"""
import sys

from netqasm.backend.executor import Executor
from netqasm.backend.messages import InitNewAppMessage, SubroutineMessage, deserialize_host_msg
from netqasm.backend.network_stack import BaseNetworkStack
from netqasm.lang.parsing import deserialize
from netqasm.qlink_compat import BellState, LinkLayerOKTypeK
from netqasm.sdk.connection import BaseNetQASMConnection, DebugConnection, DebugNetworkInfo
from netqasm.sdk.epr_socket import EPRSocket
from netqasm.sdk.qubit import Qubit


class Stack(BaseNetworkStack):
    def put(self, request): pass
    def setup_epr_socket(self, *a, **k): pass
    def get_purpose_id(self, remote_node_id, epr_socket_id): return epr_socket_id


class Backend(Executor):
    """netqasm's own Executor; records corrections, link layer answers are scripted."""
    node_id = 0

    def __init__(self, name, responses):
        super().__init__(name=name)
        self.network_stack, self.responses, self.log = Stack(), list(responses), []

    def _do_wait(self):  # the subroutine waits for the link layer: deliver the next pair
        self._handle_epr_response(self.responses.pop(0))

    def _do_single_qubit_rotation(self, instr, subroutine_id, address, angle):
        self.log.append((instr.mnemonic, address))  # (gate, virtual qubit ID)


class Conn(BaseNetQASMConnection):
    def __init__(self, name, backend, **kw):
        self.backend = backend
        super().__init__(name, **kw)

    def _get_network_info(self): return DebugNetworkInfo

    def _commit_serialized_message(self, raw_msg, block=True, callback=None):
        msg = deserialize_host_msg(raw_msg)
        if isinstance(msg, InitNewAppMessage):
            self.backend.init_new_application(msg.app_id, msg.max_qubits)
        elif isinstance(msg, SubroutineMessage):
            self.backend.consume_execute_subroutine(deserialize(msg.subroutine))


def ok_k(pair, bell):  # what the link layer reports to the receiver for one kept pair
    return LinkLayerOKTypeK(logical_qubit_id=10 + pair, directionality_flag=1, sequence_number=pair,
                            purpose_id=0, remote_node_id=1, bell_state=bell)


DebugConnection.node_ids = {"bob": 0, "alice": 1}
backend = Backend("bob", [ok_k(0, BellState.PSI_PLUS)])
sock = EPRSocket("alice")
with Conn("bob", backend, epr_sockets=[sock]) as conn:
    other = Qubit(conn)  # another live qubit -> takes virtual ID 0

    def post_routine(conn_, q, pair):
        q.rot_Y(n=0, d=0)  # a no-op gate, only to see in the log which qubit the routine acts on

    sock.recv_keep(number=1, post_routine=post_routine, sequential=True)
    other_id = other.qubit_id
    conn.flush()

epr_id = [a for (g, a) in backend.log if g == "rot_y"][0]
corrections = [(g, a) for (g, a) in backend.log if g != "rot_y"]
expected = [("rot_x", epr_id)]
print("other live qubit has virtual ID:", other_id, "; EPR qubit has virtual ID:", epr_id)
print("link layer Bell state  : PSI_PLUS")
print("expected corrections   :", expected)
print("observed corrections   :", corrections)
if corrections != expected:
    print("VIOLATION: the correction was applied to virtual qubit 0 (the application's other qubit, "
          "which is flipped), the EPR qubit is handed to the post routine still in Psi+")
    sys.exit(1)
print("ok")
