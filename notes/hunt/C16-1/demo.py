"""C16: an out-of-range immediate held in an integer-like object that is not a
numbers.Integral (here a 0-d numpy array, e.g. the result of np.squeeze /
np.asarray) is silently truncated by ctypes instead of being rejected."""
import sys

import numpy as np

from netqasm.lang.encoding import RegisterName
from netqasm.lang.instr import core, vanilla
from netqasm.lang.operand import Immediate, Register
from netqasm.lang.parsing import deserialize
from netqasm.lang.subroutine import Subroutine

R1 = Register(RegisterName.R, 1)
Q0 = Register(RegisterName.Q, 0)

cases = [
    # (description, instruction)
    (
        "rot_x numerator 300 (8-bit immediate)",
        vanilla.RotXInstruction(
            reg=Q0, imm0=Immediate(np.squeeze(np.array([300]))), imm1=Immediate(4)
        ),
    ),
    (
        "set value 2**32+7 (32-bit integer)",
        core.SetInstruction(reg=R1, imm=Immediate(np.asarray(2**32 + 7))),
    ),
    (
        "jmp target 2**32+1 (32-bit integer)",
        core.JmpInstruction(imm=Immediate(np.array(2**32 + 1))),
    ),
]

bad = 0
for descr, instr in cases:
    print(f"{descr}: program text = '{instr}'")
    print("  expected: an error when encoding (as for a plain int / numpy scalar)")
    try:
        raw = bytes(Subroutine(instructions=[instr], app_id=0))
    except Exception as err:
        print(f"  got     : {type(err).__name__}: {err}  (OK)")
        continue
    decoded = deserialize(raw).instructions[0]
    print(f"  got     : no error, bytes decode to '{decoded}'  (VIOLATION)")
    bad += 1

# Reference: same values as plain ints are rejected.
try:
    bytes(
        Subroutine(
            instructions=[core.SetInstruction(reg=R1, imm=Immediate(2**32 + 7))],
            app_id=0,
        )
    )
    print("reference plain int: not rejected?!")
except OverflowError as err:
    print(f"reference (plain int 2**32+7): OverflowError: {err}")

sys.exit(1 if bad else 0)
