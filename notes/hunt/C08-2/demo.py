"""C08 finding 2: with debug=True the branch targets count DebugInstructions that do not exist on the wire.

Run: cd /tmp/hunt/C08/wt && PYTHONPATH=/tmp/hunt/C08/wt /venv/bin/python /tmp/hunt/C08/out/2/demo.py
"""
import sys
import numpy as np

from netqasm.backend.executor import Executor
from netqasm.lang.instr.flavour import NVFlavour, VanillaFlavour
from netqasm.lang.parsing.binary import deserialize
from netqasm.lang.parsing.text import parse_text_subroutine
from netqasm.sdk.shared_memory import SharedMemoryManager
from netqasm.sdk.transpile import NVSubroutineTranspiler


class SV(Executor):
    """Base Executor + 3-qubit state vector (virtual ID 0 = electron, 1 and 2 = carbons)."""

    def __init__(self, state):
        super().__init__(name="sv")
        self.state = np.array(state, dtype=complex).reshape(2, 2, 2)
        self.steps = 0

    def _execute_command(self, subroutine_id, command):
        self.steps += 1
        if self.steps > 2000:
            raise TimeoutError("2000 instructions executed, the loop never exits")
        return super()._execute_command(subroutine_id, command)

    def _apply(self, U, *qs):
        n = len(qs)
        U = np.asarray(U, dtype=complex).reshape([2] * (2 * n))
        s = np.tensordot(U, self.state, axes=(list(range(n, 2 * n)), list(qs)))
        self.state = np.moveaxis(s, list(range(n)), list(qs))

    def _do_single_qubit_instr(self, instr, subroutine_id, address):
        self._apply(instr.to_matrix(), address)

    def _do_single_qubit_rotation(self, instr, subroutine_id, address, angle):
        self._apply(instr.to_matrix(), address)

    def _do_two_qubit_instr(self, instr, subroutine_id, a1, a2):
        self._apply(instr.to_matrix(), a1, a2)

    def _do_controlled_qubit_rotation(self, instr, subroutine_id, a1, a2, angle):
        self._apply(instr.to_matrix(), a1, a2)


def run(subroutine, state):
    SharedMemoryManager.reset_memories()
    ex = SV(state)
    ex.init_new_application(app_id=0, max_qubits=3)
    ex.consume_execute_subroutine(subroutine)
    return ex.state.reshape(-1), ex._registers[0]


# a carbon-carbon gate (the only expansion that contains SWAP debug markers), then a two-round loop
TEXT = """
# NETQASM 1.0
# APPID 0
set Q0 1
set Q1 2
cnot Q0 Q1
set R0 0
LOOP:
beq R0 2 EXIT
set Q0 1
h Q0
add R0 R0 1
jmp LOOP
EXIT:
"""

rng = np.random.default_rng(3)
psi = rng.normal(size=8) + 1j * rng.normal(size=8)
psi /= np.linalg.norm(psi)
expected, _ = run(parse_text_subroutine(TEXT, flavour=VanillaFlavour()), psi)

failures = 0
for debug in (False, True):
    for on_the_wire in (True, False):
        how = "serialized + deserialized" if on_the_wire else "executed in memory"
        print(f"--- debug={debug}, {how}")
        print("expected: same final state as the vanilla subroutine, loop runs twice")
        sub = NVSubroutineTranspiler(parse_text_subroutine(TEXT, flavour=VanillaFlavour()), debug=debug).transpile()
        jumps = [(i, str(c)) for i, c in enumerate(sub.instructions) if c.mnemonic in ("jmp", "beq")]
        if on_the_wire:
            sub = deserialize(bytes(sub), flavour=NVFlavour())
        print(f"          {len(sub.instructions)} instructions, branches: {jumps}")
        try:
            got, _ = run(sub, psi)
        except Exception as exc:
            print(f"happened: {type(exc).__name__}: {str(exc).splitlines()[0]}")
            failures += 1
            continue
        ok = abs(abs(np.vdot(expected, got)) - 1) < 1e-7
        print("happened:", "same state (ok)" if ok else f"different state, overlap {abs(np.vdot(expected, got)):.3f}")
        failures += 0 if ok else 1

print(f"\n{failures} violation(s)")
sys.exit(1 if failures else 0)
