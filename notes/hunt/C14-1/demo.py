"""C14: a FINISHED operation makes a later (or earlier) operation of the same pending subroutine
run out of registers.

A = twelve nested conn.loop() contexts around one gate (finished before B starts)
B = EPRSocket.create_keep(1) at top level (no operation is open)

A alone compiles, B alone compiles, "A, flush, B" compiles - but "A, B, flush" does not:
the assembler needs five scratch registers for the literals of create_epr and refuses every
register that occurs ANYWHERE in the pending subroutine, i.e. also R0..R11 of the finished A.
"""
import logging
import sys
from contextlib import ExitStack

logging.disable(logging.WARNING)

from netqasm.sdk.connection import DebugConnection
from netqasm.sdk.epr_socket import EPRSocket
from netqasm.sdk.qubit import Qubit

DebugConnection.node_ids = {"alice": 0, "bob": 1}
DEPTH = 12


def fresh():
    sock = EPRSocket("bob")
    return DebugConnection("alice", epr_sockets=[sock]), sock


def op_a(conn):
    q = Qubit(conn)
    with ExitStack() as stack:
        for _ in range(DEPTH):
            stack.enter_context(conn.loop(2))
        q.H()
    q.measure()


def op_b(conn, sock):
    for q in sock.create_keep(1):
        q.measure()


def attempt(label, steps):
    conn, sock = fresh()
    try:
        for step in steps:
            {"A": lambda: op_a(conn), "B": lambda: op_b(conn, sock), "flush": conn.flush}[step]()
        active = conn.builder._mem_mgr._active_registers
        print(f"{label:<22} compiles (registers still reserved by the builder: {sorted(map(str, active))})")
        return True
    except Exception as exc:  # noqa
        print(f"{label:<22} FAILS: {type(exc).__name__}: {exc}")
        return False


ok_a = attempt("A, flush", ["A", "flush"])
ok_b = attempt("B, flush", ["B", "flush"])
ok_afb = attempt("A, flush, B, flush", ["A", "flush", "B", "flush"])
ok_ab = attempt("A, B, flush", ["A", "B", "flush"])
ok_ba = attempt("B, A, flush", ["B", "A", "flush"])

print()
print("expected: all five sequences compile - when B is built no operation is open, so the finished")
print("          operation A must not influence the number of registers B needs")
if ok_a and ok_b and ok_afb and not (ok_ab and ok_ba):
    print("observed: A and B compile separately and with a flush in between, but not in one subroutine")
    sys.exit(1)
print("observed: no violation")
sys.exit(0)
