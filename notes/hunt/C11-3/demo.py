"""C11 / finding 3: on NV hardware, recv_rsp(number=2) can never hand pair 0 to its qubit handle.

The builder allocates (qalloc) the memory qubit with virtual ID 1 for handle 0 and then asks recv_epr to put
pair 0 into that very ID.  The executor refuses to map a link-layer response onto a virtual ID that is in use
and defers the response forever, so no result handle ever gets its response.
"""
import logging
import sys

from netqasm.backend.executor import Executor
from netqasm.backend.messages import deserialize_host_msg
from netqasm.backend.network_stack import BaseNetworkStack
from netqasm.backend.qnodeos import QNodeController
from netqasm.qlink_compat import LinkLayerOKTypeK
from netqasm.sdk.build_types import GenericHardwareConfig, NVHardwareConfig
from netqasm.sdk.connection import BaseNetQASMConnection, DebugConnection, DebugNetworkInfo
from netqasm.sdk.epr_socket import EPRSocket
from netqasm.sdk.shared_memory import SharedMemoryManager

logging.disable(logging.ERROR)
DebugConnection.node_ids = {"alice": 0, "bob": 1}


class Stack(BaseNetworkStack):
    def put(self, request):
        pass

    def setup_epr_socket(self, epr_socket_id, remote_node_id, remote_epr_socket_id, timeout=1.0):
        pass

    def get_purpose_id(self, remote_node_id, epr_socket_id):
        return epr_socket_id


class Deadlock(Exception):
    pass


class Exec(Executor):
    node_id = 0
    outbox: list
    spins = 0

    def _wait_to_handle_epr_responses(self):  # a simulator would sleep here; the base class recurses forever
        pass

    def _do_wait(self):
        if self.outbox:
            self._handle_epr_response(self.outbox.pop(0))
        else:
            self._handle_pending_epr_responses()  # retry deferred responses
            self.spins += 1
            if self.spins > 100:
                raise Deadlock(f"{len(self._pending_epr_responses)} response(s) deferred forever")


class Controller(QNodeController):
    @classmethod
    def _get_executor_class(cls, flavour=None):
        return Exec

    def stop(self):
        pass

    def _mark_message_finished(self, msg_id, msg):
        pass


class Conn(BaseNetQASMConnection):
    def __init__(self, app_name, controller, **kwargs):
        self._controller = controller
        super().__init__(app_name, node_name=controller.name, **kwargs)

    def _commit_serialized_message(self, raw_msg, block=True, callback=None):
        list(self._controller.handle_netqasm_message(0, deserialize_host_msg(raw_msg)))

    def _get_network_info(self):
        return DebugNetworkInfo


def run(hardware_config):
    SharedMemoryManager.reset_memories()
    BaseNetQASMConnection._app_ids.clear()
    controller = Controller("alice")
    controller.network_stack = Stack()
    # The remote node (bob, id 1) created two pairs for us; the link layer reports them in order.
    controller._executor.outbox = [
        LinkLayerOKTypeK(logical_qubit_id=0, directionality_flag=1, sequence_number=i, purpose_id=0,
                         remote_node_id=1, goodness=70 + i)
        for i in range(2)
    ]
    sock = EPRSocket("bob")
    conn = Conn("alice", controller, epr_sockets=[sock], hardware_config=hardware_config)
    qubits, infos = sock.recv_rsp_with_info(number=2)
    print("   virtual IDs of the returned qubit handles:", [q.qubit_id for q in qubits])
    try:
        conn.flush()
    except Exception as exc:  # the executor wraps errors with line information
        if "deferred forever" not in str(exc):
            raise
        return "DEADLOCK: " + str(exc).splitlines()[0]
    return [int(info.generation_duration) for info in infos]


expected = [70, 71]
print("generic hardware, recv_rsp(number=2):")
generic = run(GenericHardwareConfig(3))
print("   goodness read through the handles:", generic)
print("NV hardware, recv_rsp(number=2):")
nv = run(NVHardwareConfig(3))
print("   goodness read through the handles:", nv)
if generic != expected or nv != expected:
    print(f"FAIL: expected {expected} on both hardware configurations")
    sys.exit(1)
print("PASS")
