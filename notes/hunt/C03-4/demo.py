"""C03 #4: a program that names all 16 R registers cannot contain a single literal, although the 48 registers
C0..C15, Q0..Q15, M0..M15 are free to hold it."""
import sys

from netqasm.lang.parsing import parse_text_subroutine

lines = [f"set R{i} {i}" for i in range(16)]  # 'set' keeps its immediate: fine
lines.append("add R0 R1 1")  # one literal that needs a scratch register
SRC = "\n".join(lines) + "\n"
print(SRC)
print("expected: 18 instructions, the literal 1 loaded into a register the program does not name (e.g. C0)")
try:
    sub = parse_text_subroutine(SRC)
except Exception as exc:
    print(f"got     : {type(exc).__name__}: {exc}")
    print("VIOLATION: only R registers are considered as scratch registers")
    sys.exit(1)
print(sub)
named = {f"R{i}" for i in range(16)}
scratch = [str(i.operands[0]) for i in sub.instructions if i.mnemonic == "set"][16:]
if len(sub.instructions) != 18 or any(s in named for s in scratch):
    print("VIOLATION: wrong materialisation", scratch)
    sys.exit(1)
print("ok")
