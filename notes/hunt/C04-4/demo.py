"""A jump to a negative line executes the LAST instruction and then restarts at line 0."""
import sys

from netqasm.backend.executor import Executor
from netqasm.lang.parsing import deserialize, parse_text_subroutine
from netqasm.sdk.shared_memory import SharedMemoryManager

SUB = """# NETQASM 1.0
# APPID 0
set R1 1
add R0 R0 R1
bge R0 R2 5
jmp -1
set R7 1
add R3 R3 R1
"""
# R0 counts how often line 1 runs, R3 how often line 5 runs.  R2 = 3 bounds the run.
# Intended control flow: lines 0,1,2,3 and then the jump leaves the subroutine
# (or faults at line 3): R0 == 1 and R3 == 0.  Line 5 is only reachable through line 2.

SharedMemoryManager.reset_memories()
ex = Executor(name="node")
ex.init_new_application(app_id=0, max_qubits=1)
init = parse_text_subroutine("# NETQASM 1.0\n# APPID 0\nset R0 0\nset R2 3\nset R3 0\n")
list(ex.execute_subroutine(init))
sub = deserialize(bytes(parse_text_subroutine(SUB)))  # the target -1 survives the binary format
assert sub.instructions[3].line.value == -1
err = None
try:
    list(ex.execute_subroutine(sub))
except Exception as exc:  # noqa
    err = str(exc).splitlines()[0]
regs = ex._registers[0][sub.instructions[0].reg.name]
print("expected: R0 == 1 (line 1 ran once), R3 == 0, R7 undefined; or a fault at line 3")
print(f"got     : error={err} R0={regs[0]} R3={regs[3]} R7={regs[7]}")
ok = (err is not None and err.startswith("At line 3")) or (regs[0] == 1 and regs[3] == 0 and regs[7] is None)
if not ok:
    print("VIOLATION: 'jmp -1' executed commands[-1] and wrapped to line 0 (program re-ran)")
sys.exit(0 if ok else 1)
