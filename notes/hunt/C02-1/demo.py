"""C02: an instruction that encodes to 0 bytes (DebugInstruction, emitted by the NV transpiler with debug=True).

The binary silently loses those instructions while the branch targets still count them."""
import sys

from netqasm.lang.encoding import COMMAND_BYTES, METADATA_BYTES
from netqasm.lang.instr import DebugInstruction, NVFlavour
from netqasm.lang.parsing.binary import deserialize
from netqasm.lang.parsing.text import parse_text_subroutine
from netqasm.sdk.transpile import NVSubroutineTranspiler

TEXT = """# NETQASM 0.10
# APPID 0
set Q0 1
set Q1 2
cnot Q0 Q1      // carbon-carbon: the transpiler wraps it in two SWAPs
jmp END
x Q0
END:
ret_reg M0
"""

sub = NVSubroutineTranspiler(parse_text_subroutine(TEXT), debug=True).transpile()
raw = bytes(sub)

fail = False
for instr in sub.instructions:
    n = len(instr.serialize())
    if n != COMMAND_BYTES:
        print(f"instruction {instr!s:>14} encodes to {n} bytes, expected {COMMAND_BYTES}")
        fail = True

n_instr = len(sub.instructions)
n_wire = (len(raw) - METADATA_BYTES) // COMMAND_BYTES
print(f"subroutine has {n_instr} instructions, expected {n_instr * COMMAND_BYTES} body bytes; "
      f"got {len(raw) - METADATA_BYTES} bytes = {n_wire} commands")

# what another controller reads: the jump was computed on the list that includes the debug lines
read = deserialize(raw, flavour=NVFlavour())
jmp_sent = next(i for i in sub.instructions if i.mnemonic == "jmp")
jmp_read = next(i for i in read.instructions if i.mnemonic == "jmp")
print(f"sender : {jmp_sent} -> {sub.instructions[jmp_sent.imm.value]}")
target = jmp_read.imm.value
if target >= len(read.instructions):
    print(f"reader : {jmp_read} -> no such line (only {len(read.instructions)} commands on the wire)")
    fail = True
else:
    print(f"reader : {jmp_read} -> {read.instructions[target]}")
    fail = fail or str(read.instructions[target]) != str(sub.instructions[jmp_sent.imm.value])

assert any(isinstance(i, DebugInstruction) for i in sub.instructions)
sys.exit(1 if fail else 0)
