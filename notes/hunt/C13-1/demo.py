"""C13 finding 1: a deferred keep-response does not reserve its physical qubit.

App 0 asks for an EPR pair into virtual qubit 0 while that qubit is still allocated, so
the executor defers the keep-response.  The physical qubit named in the deferred response
(1, free when it was delivered) is NOT marked in use, so a qalloc of app 1 gets the very
same physical qubit.  When app 0 frees virtual 0 the deferred response is applied and two
applications own physical qubit 1.
"""
import sys

from netqasm.backend.executor import Executor
from netqasm.backend.network_stack import BaseNetworkStack
from netqasm.lang.parsing import parse_text_subroutine
from netqasm.qlink_compat import LinkLayerOKTypeK
from netqasm.sdk.shared_memory import SharedMemoryManager


class Stack(BaseNetworkStack):
    def put(self, request):
        pass

    def setup_epr_socket(self, epr_socket_id, remote_node_id, remote_epr_socket_id, timeout=1.0):
        pass

    def get_purpose_id(self, remote_node_id, epr_socket_id):
        return epr_socket_id


class Ex(Executor):
    """Base executor with its two documented scheduling hooks made cooperative."""

    node_id = 0

    def _do_wait(self):  # "to be subclassed": yield to the scheduler instead of spinning
        yield None

    def _wait_to_handle_epr_responses(self):  # "can be subclassed": retry later
        pass


def sub(app_id, body):
    return parse_text_subroutine(f"# NETQASM 1.0\n# APPID {app_id}\n{body}")


def used_and_mapped(ex):
    mapped = [(a, v, p) for a, um in ex._qubit_unit_modules.items() for v, p in enumerate(um) if p is not None]
    return set(ex._used_physical_qubit_addresses), mapped


SharedMemoryManager.reset_memories()
ex = Ex(name="ctrl")
ex.network_stack = Stack()
ex.init_new_application(app_id=0, max_qubits=2)
ex.init_new_application(app_id=1, max_qubits=2)

# app 0: allocate virtual 0 (-> physical 0)
ex.consume_execute_subroutine(sub(0, "set Q0 0\nqalloc Q0\n"))

# app 0: receive one pair into virtual 0 and wait for it; the subroutine suspends
recv = ex.execute_subroutine(
    sub(
        0,
        """
set R0 1
array R0 @0
set R1 0
store R1 @0[R1]
set R0 10
array R0 @1
set R5 1
set R6 0
set R7 0
set R8 1
recv_epr R5 R6 R7 R8
set R0 0
set R1 10
wait_all @1[R0:R1]
""",
    )
)
next(recv)  # suspended in wait_all

# the network stack delivers the pair on physical qubit 1, which is free right now
used, _ = used_and_mapped(ex)
assert 1 not in used
ex._handle_epr_response(
    LinkLayerOKTypeK(logical_qubit_id=1, directionality_flag=1, purpose_id=0, remote_node_id=1)
)
print("after delivery (deferred, virtual 0 of app 0 is busy):", used_and_mapped(ex))

# app 1: plain qalloc
ex.consume_execute_subroutine(sub(1, "set Q0 0\nqalloc Q0\n"))
print("after qalloc of app 1:", used_and_mapped(ex))

# app 0: free virtual 0; the executor retries the deferred response
ex.consume_execute_subroutine(sub(0, "set Q0 0\nqfree Q0\n"))
ex._handle_pending_epr_responses()
list(recv)  # the waiting subroutine of app 0 completes

used, mapped = used_and_mapped(ex)
print("final: used physical =", sorted(used), " mapped (app, virtual, physical) =", mapped)
phys = [p for _, _, p in mapped]
print("expected: all mapped physical qubits distinct, and used == set(mapped)")
if len(phys) != len(set(phys)) or used != set(phys):
    print("VIOLATION: physical qubit(s) owned twice:", sorted({p for p in phys if phys.count(p) > 1}))
    # consequence: stopping app 1 releases app 0's qubit, and then app 0 cannot be stopped
    list(ex.stop_application(1))
    try:
        list(ex.stop_application(0))
    except KeyError as exc:
        print("stop_application(0) then fails with KeyError:", exc)
    sys.exit(1)
print("ok")
