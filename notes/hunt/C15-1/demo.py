"""C15: a subroutine message whose Subroutine carries DebugInstructions (what the
package's own NV transpiler emits with debug=True) does not survive serialisation:
the debug entries are serialised to zero bytes, so the decoded subroutine is shorter
and every branch target that was computed over the original instruction list is off."""
import sys

from netqasm.backend.messages import SubroutineMessage, deserialize_host_msg
from netqasm.lang.instr import core
from netqasm.lang.instr.flavour import NVFlavour
from netqasm.lang.parsing import deserialize
from netqasm.lang.parsing.text import parse_text_subroutine
from netqasm.sdk.transpile import NVSubroutineTranspiler

TEXT = """
# NETQASM 0.0
# APPID 0
set Q0 1
set Q1 2
set R0 0
cnot Q0 Q1
bez R0 END
x Q0
END:
ret_reg R0
"""

sub = NVSubroutineTranspiler(parse_text_subroutine(TEXT), debug=True).transpile()
sent = [(type(i).__name__, i.operands) for i in sub.instructions]

msg = SubroutineMessage(subroutine=sub)
back = deserialize_host_msg(bytes(msg))
assert type(back) is SubroutineMessage
got_sub = deserialize(back.subroutine, flavour=NVFlavour())
got = [(type(i).__name__, i.operands) for i in got_sub.instructions]


def branch_info(instrs):
    for idx, i in enumerate(instrs):
        if isinstance(i, core.BranchUnaryInstruction):
            tgt = i.line.value
            what = str(instrs[tgt]) if tgt < len(instrs) else "<past the end>"
            return f"'{i}' at line {idx} -> line {tgt}: {what}"


print(f"expected: {len(sent)} instructions after the round trip; {branch_info(sub.instructions)}")
print(f"got     : {len(got)} instructions after the round trip; {branch_info(got_sub.instructions)}")
if got != sent:
    dropped = [s for s in sent if s[0] == "DebugInstruction"]
    print(f"VIOLATION: {len(dropped)} instructions vanished in serialisation, branch targets were not adjusted")
    sys.exit(1)
print("ok: subroutine message survived serialisation")
