"""C07 demo 2: NVSubroutineTranspiler(debug=True) counts its DebugInstructions when it remaps branch targets,
but DebugInstruction.serialize() is b"" - on the wire they vanish and every branch behind a carbon-carbon gate
lands 4 instructions too far per gate: here in the middle of the SWAP of the next decomposition.
"""
import sys

import numpy as np

from netqasm.backend.executor import Executor
from netqasm.lang.instr.flavour import NVFlavour
from netqasm.lang.parsing import deserialize
from netqasm.lang.parsing.text import parse_text_subroutine
from netqasm.sdk.shared_memory import SharedMemoryManager
from netqasm.sdk.transpile import NVSubroutineTranspiler

TEXT = """
# NETQASM 0.0
# APPID 0
set Q0 1
set Q1 2
cphase Q0 Q1      // carbon 1 - carbon 2 (borrows the electron, emits "begin/end SWAP" markers)
set R0 0
bez R0 SKIP       // taken
cnot Q0 Q1        // skipped
SKIP:
cphase Q0 Q1      // carbon 1 - carbon 2
"""
N = 3  # virtual qubits 0 (electron), 1, 2 (carbons)


def on(m, qubits):
    k = len(qubits)
    u = np.zeros((2**N, 2**N), dtype=complex)
    for col in range(2**N):
        bits = [(col >> (N - 1 - i)) & 1 for i in range(N)]
        sub_in = sum(bits[q] << (k - 1 - j) for j, q in enumerate(qubits))
        for sub_out in range(2**k):
            out = list(bits)
            for j, q in enumerate(qubits):
                out[q] = (sub_out >> (k - 1 - j)) & 1
            u[sum(b << (N - 1 - i) for i, b in enumerate(out)), col] += m[sub_out, sub_in]
    return u


class StateVector(Executor):
    def __init__(self, state):
        super().__init__(name="sv")
        self.state, self.count = state.copy(), 0

    def _handle_command_exception(self, exc, pc, tb):
        raise exc

    def _do_single_qubit_rotation(self, instr, sid, a, angle):
        self.state, self.count = on(instr.to_matrix(), [a]) @ self.state, self.count + 1

    def _do_two_qubit_instr(self, instr, sid, a, b):
        self.state, self.count = on(instr.to_matrix(), [a, b]) @ self.state, self.count + 1

    def _do_controlled_qubit_rotation(self, instr, sid, a, b, angle):
        self.state, self.count = on(instr.to_matrix(), [a, b]) @ self.state, self.count + 1


def run(subroutine, state):
    SharedMemoryManager.reset_memories()
    ex = StateVector(state)
    ex.init_new_application(app_id=0, max_qubits=N)
    ex.consume_execute_subroutine(subroutine)
    return ex


rng = np.random.default_rng(7)
psi = rng.normal(size=2**N) + 1j * rng.normal(size=2**N)
psi /= np.linalg.norm(psi)
reference = run(parse_text_subroutine(TEXT), psi)  # cphase . cphase = identity on carbons 1, 2

bad = False
for debug in (False, True):
    nv = NVSubroutineTranspiler(parse_text_subroutine(TEXT), debug=debug).transpile()
    wire = deserialize(bytes(nv), flavour=NVFlavour())  # what a QNodeOS / simulator receives
    res = run(wire, psi)
    overlap = abs(np.vdot(reference.state, res.state))
    print(f"debug={debug}: {len(nv.instructions)} instructions in memory, {len(wire.instructions)} on the wire, "
          f"{res.count} gates executed, |<vanilla|nv>| = {overlap:.6f} (expected 1.000000)")
    bad |= abs(overlap - 1) > 1e-9
if bad:
    print("VIOLATION: with debug=True the serialized NV program does not implement the vanilla gates")
    sys.exit(1)
print("ok")
