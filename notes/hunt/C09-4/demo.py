"""C09 finding 4: with the NV transpiler a two-qubit gate between two memory (carbon) qubits is
rewritten into swaps through virtual qubit 0 (the electron) without allocating it.

NV config with 4 qubits (3 may be alive), compiler=NVSubroutineTranspiler.  Program:
    a = Qubit(conn); b = Qubit(conn); c = Qubit(conn)     # IDs 0, 1, 2
    a.free()                                               # ID 0 is free again
    b.cnot(c)
Expected: every emitted instruction addresses an allocated virtual qubit (only 1 and 2 exist).
"""
import logging
import sys

from netqasm.backend.executor import Executor
from netqasm.backend.messages import MessageType, deserialize_host_msg
from netqasm.backend.network_stack import BaseNetworkStack
from netqasm.lang.parsing import deserialize
from netqasm.qlink_compat import BellState, LinkLayerOKTypeK, ReturnType
from netqasm.lang.instr.flavour import NVFlavour
from netqasm.sdk.build_types import NVHardwareConfig
from netqasm.sdk.connection import BaseNetQASMConnection, DebugConnection, DebugNetworkInfo
from netqasm.sdk.epr_socket import EPRSocket
from netqasm.sdk.qubit import Qubit
from netqasm.sdk.shared_memory import SharedMemoryManager
from netqasm.sdk.transpile import NVSubroutineTranspiler

logging.disable(logging.CRITICAL)
LOCAL, REMOTE = 0, 1


class Stack(BaseNetworkStack):
    """Delivers one OK_K response each time the running subroutine blocks in a wait."""

    def __init__(self):
        self.todo = []  # [directionality_flag, purpose_id] per outstanding pair

    def put(self, request):  # create side
        self.todo += [[0, request.purpose_id]] * request.number

    def setup_epr_socket(self, *a, **k):
        pass

    def get_purpose_id(self, remote_node_id, epr_socket_id):
        return epr_socket_id


class Controller(Executor):
    """Base Executor + a check that every quantum instruction addresses an allocated qubit."""

    node_id = LOCAL

    def _chk(self, sid, *addrs):
        for a in addrs:
            self._get_position(subroutine_id=sid, address=a)  # raises NotAllocatedError

    def _do_single_qubit_instr(self, instr, sid, address):
        self._chk(sid, address)

    def _do_single_qubit_rotation(self, instr, sid, address, angle):
        self._chk(sid, address)

    def _do_two_qubit_instr(self, instr, sid, a1, a2):
        self._chk(sid, a1, a2)

    def _do_controlled_qubit_rotation(self, instr, sid, a1, a2, angle):
        self._chk(sid, a1, a2)

    def _do_meas(self, subroutine_id, q_address):
        self._chk(subroutine_id, q_address)
        return 0

    def _do_recv_epr(self, sid, remote_node_id, epr_socket_id, q_array_address, ent_addr):
        super()._do_recv_epr(sid, remote_node_id, epr_socket_id, q_array_address, ent_addr)
        n = self._get_num_pairs_from_array(self._get_app_id(sid), ent_addr)
        self.network_stack.todo += [[1, epr_socket_id]] * n

    def _wait_to_handle_epr_responses(self):
        pass  # retry at the next wait instead of recursing

    def _do_wait(self):
        st = self.network_stack
        if not st.todo:
            raise RuntimeError("subroutine waits for an EPR pair nobody will deliver")
        flag, purpose = st.todo[0]
        phys = self._get_unused_physical_qubit()
        self._used_physical_qubit_addresses.discard(phys)
        self._handle_epr_response(LinkLayerOKTypeK(
            ReturnType.OK_K, 0, phys, flag, 0, purpose, REMOTE, 0, 0, BellState.PHI_PLUS))
        if self._pending_epr_responses:  # refused: virtual ID still in use
            raise RuntimeError("deadlock: EPR pair cannot be delivered, its virtual ID is in use")
        st.todo.pop(0)

    def allocated(self, app_id):
        return [v for v, p in enumerate(self._qubit_unit_modules[app_id]) if p is not None]


class Conn(BaseNetQASMConnection):
    def __init__(self, controller, **kw):
        self.ctrl = controller
        super().__init__(app_name="alice", node_name=controller.name, **kw)

    def _commit_serialized_message(self, raw_msg, block=True, callback=None):
        msg = deserialize_host_msg(raw_msg)
        if msg.TYPE == MessageType.INIT_NEW_APP:
            self.ctrl.init_new_application(msg.app_id, msg.max_qubits)
        elif msg.TYPE == MessageType.SUBROUTINE:
            list(self.ctrl.execute_subroutine(deserialize(msg.subroutine, flavour=NVFlavour())))

    def _get_network_info(self):
        return DebugNetworkInfo



SharedMemoryManager.reset_memories()
DebugConnection.node_ids = {"alice": LOCAL, "bob": REMOTE}
ctrl = Controller(name="alice")
ctrl.network_stack = Stack()
conn = Conn(ctrl, max_qubits=4, hardware_config=NVHardwareConfig(4),
            compiler=NVSubroutineTranspiler)

a, b, c = Qubit(conn), Qubit(conn), Qubit(conn)
a.free()
conn.flush()
print("after first flush: SDK active IDs", [q.qubit_id for q in conn.active_qubits],
      "controller allocated", ctrl.allocated(conn.app_id))
b.cnot(c)
print("expected: the CNOT between virtual qubits 1 and 2 executes")
try:
    conn.flush()
except Exception as exc:
    print(f"controller fault: {type(exc).__name__}: {str(exc).splitlines()[0]}")
    print("VIOLATION: the emitted subroutine addresses unallocated virtual qubit 0")
    sys.exit(1)
print("ok")
