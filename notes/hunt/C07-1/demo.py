"""C07 demo 1: a Q register written by `load` keeps its stale compile-time value in the NV transpiler.

cnot(control = electron, id 0 ; target = carbon, id 1), where the control's virtual id is
loaded from an array at run time (this is exactly what the SDK emits for a FutureQubit, e.g.
`q.cnot(b)` inside a create_keep post_routine).  The transpiler still believes Q0 == 2 (the
last `set Q0 ..` it saw), classifies the gate as carbon-carbon, borrows the electron and emits
a SWAP(electron, Q0) -- which at run time is crot_x on (qubit 0, qubit 0).
"""
import sys

import numpy as np

from netqasm.backend.executor import Executor
from netqasm.lang.instr import core
from netqasm.lang.parsing.text import parse_text_subroutine
from netqasm.sdk.shared_memory import SharedMemoryManager
from netqasm.sdk.transpile import NVSubroutineTranspiler

TEXT = """
# NETQASM 0.0
# APPID 0
set R0 1
array R0 @0
set R1 0
set R2 0
store R1 @0[R2]     // @0[0] = 0 : virtual id of the electron, only known at run time
set Q0 2
h Q0                // some earlier gate on carbon 2 leaves Q0 == 2 behind
load Q0 @0[R2]      // Q0 := 0
set Q1 1
cnot Q0 Q1          // control = electron (0), target = carbon (1)
"""
N = 3  # virtual qubits 0 (electron), 1, 2 (carbons)


def on(m, qubits):
    """Embed matrix m acting on the listed qubits (first = most significant) into N qubits."""
    k = len(qubits)
    u = np.zeros((2**N, 2**N), dtype=complex)
    for col in range(2**N):
        bits = [(col >> (N - 1 - i)) & 1 for i in range(N)]
        sub_in = sum(bits[q] << (k - 1 - j) for j, q in enumerate(qubits))
        for sub_out in range(2**k):
            out = list(bits)
            for j, q in enumerate(qubits):
                out[q] = (sub_out >> (k - 1 - j)) & 1
            u[sum(b << (N - 1 - i) for i, b in enumerate(out)), col] += m[sub_out, sub_in]
    return u


class StateVector(Executor):
    def __init__(self, state):
        super().__init__(name="sv")
        self.state, self.same_qubit = state.copy(), []

    def _handle_command_exception(self, exc, pc, tb):
        raise exc

    def _do_single_qubit_instr(self, instr, sid, a):
        if isinstance(instr, core.SingleQubitInstruction):
            self.state = on(instr.to_matrix(), [a]) @ self.state

    def _do_single_qubit_rotation(self, instr, sid, a, angle):
        self.state = on(instr.to_matrix(), [a]) @ self.state

    def _do_two_qubit_instr(self, instr, sid, a, b):
        self.state = on(instr.to_matrix(), [a, b]) @ self.state

    def _do_controlled_qubit_rotation(self, instr, sid, a, b, angle):
        if a == b:
            self.same_qubit.append(f"{instr.mnemonic} on qubits ({a}, {b})")
            return
        self.state = on(instr.to_matrix(), [a, b]) @ self.state


def run(subroutine, state):
    SharedMemoryManager.reset_memories()
    ex = StateVector(state)
    ex.init_new_application(app_id=0, max_qubits=N)
    ex.consume_execute_subroutine(subroutine)
    return ex


rng = np.random.default_rng(7)
psi = rng.normal(size=2**N) + 1j * rng.normal(size=2**N)
psi /= np.linalg.norm(psi)

vanilla = run(parse_text_subroutine(TEXT), psi)
nv_sub = NVSubroutineTranspiler(parse_text_subroutine(TEXT)).transpile()
nv = run(nv_sub, psi)

overlap = abs(np.vdot(vanilla.state, nv.state))
print(nv_sub)
# control: the same program with the id written by `set` instead of `load` is transpiled correctly
CONTROL = TEXT.replace("load Q0 @0[R2]", "set Q0 0")
ctrl = run(NVSubroutineTranspiler(parse_text_subroutine(CONTROL)).transpile(), psi)
print(f"control (set Q0 0 instead of load): |<vanilla|nv>| = {abs(np.vdot(vanilla.state, ctrl.state)):.6f}")
print("expected: NV program == vanilla program (H on carbon 2, CNOT electron 0 -> carbon 1), |overlap| = 1")
print(f"happened: |<vanilla|nv>| = {overlap:.6f}; ill-formed instructions executed: {nv.same_qubit}")
if nv.same_qubit or abs(overlap - 1) > 1e-9:
    print("VIOLATION: transpiled CNOT(electron, carbon) is not a CNOT (stale value of Q0 used for the placement)")
    sys.exit(1)
print("ok")
