"""C03 #3: a symbolic label whose name looks like a register (R1, C0, Q3, M2 ...) is accepted where it is
defined but every branch to it fails to assemble."""
import sys

from netqasm.lang.parsing import parse_text_subroutine

TEMPLATE = """
set R0 0
{label}:
add R0 R0 1
blt R0 3 {label}
jmp {label}
"""
reference = parse_text_subroutine(TEMPLATE.format(label="LOOP"))
print("with the label called LOOP:")
print(reference)
bad = 0
for label in ["M0", "R1", "C15", "Q3"]:
    try:
        sub = parse_text_subroutine(TEMPLATE.format(label=label))
    except BaseException as exc:  # AssertionError
        print(f"label {label!r}: expected the same subroutine, got {type(exc).__name__}({exc})")
        bad += 1
        continue
    if str(sub) != str(reference):
        print(f"label {label!r}: different subroutine\n{sub}")
        bad += 1
if bad:
    print("VIOLATION: the operand is parsed as a register before it is tried as a label; "
          "the branch cannot land on the instruction that followed its label")
    sys.exit(1)
print("ok")
