"""C14: the M temporary of an inner measure overwrites the register an enclosing `if` is still reading.

    m = q.measure(store_array=False)      # outcome 1, lives in M0 (register future)
    conn.flush()                          # periodic flush: the builder forgets that M0 is taken
    with conn.loop(3):
        with m.if_eq(1):                  # enclosing operation: reads M0 in EVERY iteration
            Qubit(conn).measure()         # default measure: "first unused" M register as temporary -> M0 (writes 0)
            counter[0] += 1

Run on netqasm's base Executor (X flips a classical bit, measure returns it).
Without the flush the inner measure takes M1 and the body runs 3 times.
"""
import logging
import sys

logging.disable(logging.WARNING)

from netqasm.backend.executor import Executor
from netqasm.sdk.connection import BaseNetQASMConnection, DebugNetworkInfo
from netqasm.sdk.qubit import Qubit


class BitExecutor(Executor):
    """init -> 0, X -> flip, meas -> the bit; everything else is a no-op."""

    bits = {}

    def _do_single_qubit_instr(self, instr, subroutine_id, address):
        if instr.mnemonic == "init":
            self.bits[address] = 0
        elif instr.mnemonic == "x":
            self.bits[address] ^= 1

    def _do_meas(self, subroutine_id, q_address):
        return self.bits[q_address]


class ExecConnection(BaseNetQASMConnection):
    def __init__(self, *args, **kwargs):
        self.executor = BitExecutor(name="alice")
        self.subroutines = []
        super().__init__(*args, **kwargs)

    @property
    def shared_memory(self):
        return self.executor._shared_memories[self.app_id]

    def _init_new_app(self, max_qubits):
        self.executor.init_new_application(self.app_id, max_qubits)

    def _commit_serialized_message(self, raw_msg, block=True, callback=None):
        pass

    def commit_subroutine(self, subroutine, block=True, callback=None):
        self.subroutines.append(subroutine)
        self.executor.consume_execute_subroutine(subroutine)

    def _get_network_info(self):
        return DebugNetworkInfo


def run(flush_in_between):
    conn = ExecConnection("alice")
    counter = conn.new_array(1, init_values=[0])
    q = Qubit(conn)
    q.X()
    m = q.measure(store_array=False)
    if flush_in_between:
        conn.flush()
    with conn.loop(3):
        with m.if_eq(1):
            Qubit(conn).measure()
            counter.get_future_index(0).add(1)
    conn.flush()
    # read the counter in the executor's own memory (the second subroutine does not return array @0)
    runs = conn.executor._app_arrays[conn.app_id][counter.address, 0]
    return m.reg, int(m), runs, conn.subroutines[-1]


reg, value, runs, _ = run(flush_in_between=False)
print(f"one subroutine      : m in {reg} = {value}, body of `if m == 1` ran {runs} of 3 times")
reg, value, runs_flushed, sub = run(flush_in_between=True)
print(f"flush after measure : m in {reg} = {value}, body of `if m == 1` ran {runs_flushed} of 3 times")
print()
print("expected: 3 and 3 - the temporary of the inner measure must not be the register whose value the")
print("          enclosing if (inside the loop) still needs")
if runs == 3 and runs_flushed != 3:
    print(f"observed: after the flush the inner measure uses {reg} itself as its temporary:")
    print(sub)
    sys.exit(1)
print("observed: no violation")
