"""C05 finding 2: a register measurement inside a branch that is not taken makes the whole subroutine fail.

Program:
    c  = q1.measure(store_array=False)        # outcome `first`
    with c.if_eq(1):
        m = q2.measure(store_array=False, inplace=True)   # only measured when c == 1
    q3.X()
    out = q3.measure()                        # array future, outcome 1
    flush
Direct execution with first == 0: q2 is not measured, X and the measurement of q3 happen, c == 0, out == 1.
"""
import logging
import sys

from netqasm.backend.executor import Executor
from netqasm.backend.messages import deserialize_host_msg
from netqasm.backend.qnodeos import QNodeController
from netqasm.sdk.connection import BaseNetQASMConnection, DebugNetworkInfo
from netqasm.sdk.qubit import Qubit

logging.disable(logging.CRITICAL)


class RecExecutor(Executor):
    """Base executor + recording backend with scripted measurement outcomes."""

    outcomes, trace = [], []

    def _do_single_qubit_instr(self, instr, subroutine_id, address):
        if instr.mnemonic != "init":
            self.trace.append((instr.mnemonic, address))

    def _do_meas(self, subroutine_id, q_address):
        outcome = self.outcomes.pop(0)
        self.trace.append(("meas", q_address, outcome))
        return outcome


class Controller(QNodeController):
    @classmethod
    def _get_executor_class(cls, flavour=None):
        return RecExecutor

    def stop(self):
        pass

    def _mark_message_finished(self, msg_id, msg):
        pass


class Conn(BaseNetQASMConnection):
    """Hands every serialized message to an in-process controller."""

    def __init__(self, ctrl):
        self._ctrl = ctrl
        super().__init__(app_name=ctrl.name, node_name=ctrl.name)

    def _commit_serialized_message(self, raw_msg, block=True, callback=None):
        list(self._ctrl.handle_netqasm_message(0, deserialize_host_msg(raw_msg)))

    def _get_network_info(self):
        return DebugNetworkInfo


def run(first):
    ctrl = Controller(name=f"node_{first}")
    ex = ctrl._executor
    ex.outcomes, ex.trace = [first, 1, 1], []
    conn = Conn(ctrl)
    q1, q2, q3 = Qubit(conn), Qubit(conn), Qubit(conn)
    c = q1.measure(store_array=False)
    with c.if_eq(1):
        m = q2.measure(store_array=False, inplace=True)  # noqa: F841
    q3.X()
    out = q3.measure()
    error = None
    try:
        conn.flush()
    except Exception as exc:  # raised by the controller while executing the subroutine
        error = f"{type(exc).__name__}: {str(exc).splitlines()[0]}"
    return {"error": error, "gates": ex.trace, "c (host)": c.value, "out (host)": out.value}


bad = False
for first in (1, 0):
    if first == 1:
        expected = {"error": None, "gates": [("meas", 0, 1), ("meas", 1, 1), ("x", 2), ("meas", 2, 1)]}
    else:
        expected = {"error": None, "gates": [("meas", 0, 0), ("x", 2), ("meas", 2, 1)]}
    expected.update({"c (host)": first, "out (host)": 1})
    got = run(first)
    ok = got == expected
    bad |= not ok
    print(f"outcome of the first measurement: {first}")
    print(f"   expected: {expected}")
    print(f"   observed: {got}")
    print("   ->", "ok" if ok else "VIOLATION: the controller aborts the subroutine at 'ret_reg' of the unwritten register")
sys.exit(1 if bad else 0)
