"""C16: the range check of the binary command structures only looks at keyword
arguments. Building the same commands positionally (plain ctypes usage), or using
the raw Register / Address / Metadata structures of netqasm.lang.encoding directly,
still truncates silently."""
import sys

from netqasm.lang import encoding
from netqasm.lang.encoding import RegisterName
from netqasm.lang.instr import core, vanilla
from netqasm.lang.operand import Register
from netqasm.lang.parsing import deserialize
from netqasm.lang.version import NETQASM_VERSION

R1 = Register(RegisterName.R, 1).cstruct
SET, ROTX, RETARR = core.SetInstruction.id, vanilla.RotXInstruction.id, core.RetArrInstruction.id

cases = [
    ("set R1 2**32+7, keyword args (reference)",
     lambda: (0, encoding.RegImmCommand(id=SET, reg=R1, imm=2**32 + 7))),
    ("set R1 2**32+7, positional args",
     lambda: (0, encoding.RegImmCommand(SET, R1, 2**32 + 7))),
    ("rot_x R1 300 4, positional args",
     lambda: (0, encoding.RegImmImmCommand(ROTX, R1, 300, 4))),
    ("set R16 5, raw encoding.Register(name=0, index=16)",
     lambda: (0, encoding.RegImmCommand(id=SET, reg=encoding.Register(0, 16), imm=5))),
    ("ret_arr @2**32+3, raw encoding.Address",
     lambda: (0, encoding.AddrCommand(id=RETARR, addr=encoding.Address(2**32 + 3)))),
    ("app id 70000, raw encoding.Metadata",
     lambda: (70000, encoding.RegImmCommand(id=SET, reg=R1, imm=5))),
]

bad = 0
for descr, mk in cases:
    print(descr)
    print("  expected: an error")
    try:
        app_id, cmd = mk()
        raw = bytes(encoding.Metadata(netqasm_version=NETQASM_VERSION, app_id=app_id)) + bytes(cmd)
    except Exception as err:
        print(f"  got     : {type(err).__name__}: {err}  (OK)")
        continue
    sub = deserialize(raw)
    print(f"  got     : no error, decodes to app_id={sub.app_id}, '{sub.instructions[0]}'  (VIOLATION)")
    bad += 1

sys.exit(1 if bad else 0)
