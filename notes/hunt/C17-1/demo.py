"""C17: a rotation instruction holding a Template operand prints text the parser rejects."""
import sys

from netqasm.lang.encoding import RegisterName
from netqasm.lang.instr import vanilla
from netqasm.lang.instr.flavour import VanillaFlavour
from netqasm.lang.operand import Immediate, Register, Template
from netqasm.lang.parsing.text import parse_text_subroutine

flavour = VanillaFlavour()

# What the parser itself accepts as source for a templated rotation:
source = "rot_z Q0 {delta} 4"
instr = parse_text_subroutine(source, flavour=flavour).instructions[0]
assert instr == vanilla.RotZInstruction(
    reg=Register(RegisterName.Q, 0), imm0=Template("delta"), imm1=Immediate(4)
)

printed = str(instr)
print(f"source text  : {source!r}")
print(f"printed text : {printed!r}")
print("expected     : printed text parses back to an equal instruction")

try:
    back = parse_text_subroutine(printed, flavour=flavour).instructions
except BaseException as exc:  # AssertionError from RotationInstruction.from_operands
    print(f"happened     : parser raised {type(exc).__name__}: {exc}")
    sys.exit(1)

if len(back) != 1 or back[0] != instr:
    print(f"happened     : parsed back to a different instruction: {back!r}")
    sys.exit(1)

print("happened     : round trip ok")
