"""store/load/undef with a negative index do not fault: they wrap to the end of the array."""
import sys

from netqasm.backend.executor import Executor
from netqasm.lang.parsing import parse_text_subroutine
from netqasm.sdk.shared_memory import SharedMemoryManager

SUB = """# NETQASM 1.0
# APPID 0
set R0 3
array R0 @0
set R1 0
set R2 1
sub R3 R1 R2
set R4 7
store R4 @0[R3]
load R5 @0[R3]
set R6 1
"""
# line 4: R3 = 0 - 1 = -1 ; line 6: store to @0[-1] must fault at line 6

SharedMemoryManager.reset_memories()
ex = Executor(name="node")
ex.init_new_application(app_id=0, max_qubits=1)
sub = parse_text_subroutine(SUB)
assert len(sub.instructions) == 9
err = None
try:
    list(ex.execute_subroutine(sub))
except Exception as exc:  # noqa
    err = exc
arr = ex._app_arrays[0]._get_array(0)
print("expected: fault 'At line 6' (index -1 is outside array @0 of length 3), array stays [None, None, None]")
print("got     : error =", None if err is None else str(err).splitlines()[0])
print("          array @0 =", arr, " R5 =", ex._registers[0][sub.instructions[7].reg.name][5])
ok = err is not None and str(err).startswith("At line 6") and arr == [None, None, None]
if not ok:
    print("VIOLATION: out-of-range (negative) index silently wrote/read the last element")
sys.exit(0 if ok else 1)
