"""C14: the loop register of a finished/inner `loop_body` overwrites the live counter of the enclosing loop.

    with conn.loop(3):                                   # counter: automatically chosen -> R0
        conn.loop_body(body, 2, loop_register="R0")      # explicitly asks for R0 - silently accepted
            body: counter_array[0] += 1

The builder knows that R0 is reserved by the open outer loop (conn.loop(2, loop_register="R0") at the same
place is refused: ValueError "Register R0 is already active", surfacing through the
context manager's finally block as an UnboundLocalError), but `loop_body` just shares it. Executed on netqasm's own base
Executor the body runs 2 times instead of 3 * 2 = 6 times.
"""
import logging
import sys

logging.disable(logging.WARNING)

from netqasm.backend.executor import Executor
from netqasm.sdk.connection import BaseNetQASMConnection, DebugNetworkInfo


class ExecConnection(BaseNetQASMConnection):
    """Connection that runs every flushed subroutine directly on a base Executor."""

    def __init__(self, *args, **kwargs):
        self.executor = Executor(name="alice")
        super().__init__(*args, **kwargs)

    @property
    def shared_memory(self):
        return self.executor._shared_memories[self.app_id]

    def _init_new_app(self, max_qubits):
        self.executor.init_new_application(self.app_id, max_qubits)

    def _commit_serialized_message(self, raw_msg, block=True, callback=None):
        pass

    def commit_subroutine(self, subroutine, block=True, callback=None):
        self.last = subroutine
        self.executor.consume_execute_subroutine(subroutine)

    def _get_network_info(self):
        return DebugNetworkInfo


def count_body_runs(inner_register):
    conn = ExecConnection("alice")
    counter = conn.new_array(1, init_values=[0])

    def body(_conn, _index):
        counter.get_future_index(0).add(1)

    with conn.loop(3) as outer:
        reserved = sorted(map(str, conn.builder._mem_mgr._active_registers))
        conn.loop_body(body, 2, loop_register=inner_register)
    conn.flush()
    return str(outer), reserved, counter[0], conn.last


outer, reserved, runs_auto, _ = count_body_runs(None)
print(f"outer counter {outer}, reserved while the outer loop is open: {reserved}")
print(f"inner loop_register=None : body ran {runs_auto} times")
outer, reserved, runs_explicit, sub = count_body_runs("R0")
print(f"inner loop_register='R0' : body ran {runs_explicit} times")
print()
print("expected: 6 runs (or a refusal like conn.loop(..., loop_register='R0') gives) - a register that holds")
print("          the live counter of the enclosing open loop must not be handed out to an inner operation")
if runs_auto == 6 and runs_explicit != 6:
    print(f"observed: no error, the inner loop counts in {outer} as well and the outer loop ends after one pass:")
    print(sub)
    sys.exit(1)
print("observed: no violation")
