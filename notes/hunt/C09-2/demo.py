"""C09 finding 2: on NV hardware an EPR context with number >= 2 pre-allocates the memory
qubits with QALLOC *and* hands the very same virtual IDs to create_epr/recv_epr.

NV config with 3 qubits (so 2 may be alive).  Program:
    with epr_socket.create_context(number=2) as (q, pair):
        q.measure()
Expected: both pairs are generated into free virtual IDs, measured, and nothing stays allocated.
"""
import logging
import sys

from netqasm.backend.executor import Executor
from netqasm.backend.messages import MessageType, deserialize_host_msg
from netqasm.backend.network_stack import BaseNetworkStack
from netqasm.lang.parsing import deserialize
from netqasm.qlink_compat import BellState, LinkLayerOKTypeK, ReturnType
from netqasm.sdk.build_types import NVHardwareConfig
from netqasm.sdk.connection import BaseNetQASMConnection, DebugConnection, DebugNetworkInfo
from netqasm.sdk.epr_socket import EPRSocket
from netqasm.sdk.qubit import Qubit
from netqasm.sdk.shared_memory import SharedMemoryManager

logging.disable(logging.CRITICAL)
LOCAL, REMOTE = 0, 1


class Stack(BaseNetworkStack):
    """Delivers one OK_K response each time the running subroutine blocks in a wait."""

    def __init__(self):
        self.todo = []  # [directionality_flag, purpose_id] per outstanding pair

    def put(self, request):  # create side
        self.todo += [[0, request.purpose_id]] * request.number

    def setup_epr_socket(self, *a, **k):
        pass

    def get_purpose_id(self, remote_node_id, epr_socket_id):
        return epr_socket_id


class Controller(Executor):
    """Base Executor + a check that every quantum instruction addresses an allocated qubit."""

    node_id = LOCAL

    def _chk(self, sid, *addrs):
        for a in addrs:
            self._get_position(subroutine_id=sid, address=a)  # raises NotAllocatedError

    def _do_single_qubit_instr(self, instr, sid, address):
        self._chk(sid, address)

    def _do_single_qubit_rotation(self, instr, sid, address, angle):
        self._chk(sid, address)

    def _do_two_qubit_instr(self, instr, sid, a1, a2):
        self._chk(sid, a1, a2)

    def _do_meas(self, subroutine_id, q_address):
        self._chk(subroutine_id, q_address)
        return 0

    def _do_recv_epr(self, sid, remote_node_id, epr_socket_id, q_array_address, ent_addr):
        super()._do_recv_epr(sid, remote_node_id, epr_socket_id, q_array_address, ent_addr)
        n = self._get_num_pairs_from_array(self._get_app_id(sid), ent_addr)
        self.network_stack.todo += [[1, epr_socket_id]] * n

    def _wait_to_handle_epr_responses(self):
        pass  # retry at the next wait instead of recursing

    def _do_wait(self):
        st = self.network_stack
        if not st.todo:
            raise RuntimeError("subroutine waits for an EPR pair nobody will deliver")
        flag, purpose = st.todo[0]
        phys = self._get_unused_physical_qubit()
        self._used_physical_qubit_addresses.discard(phys)
        self._handle_epr_response(LinkLayerOKTypeK(
            ReturnType.OK_K, 0, phys, flag, 0, purpose, REMOTE, 0, 0, BellState.PHI_PLUS))
        if self._pending_epr_responses:  # refused: virtual ID still in use
            raise RuntimeError("deadlock: EPR pair cannot be delivered, its virtual ID is in use")
        st.todo.pop(0)

    def allocated(self, app_id):
        return [v for v, p in enumerate(self._qubit_unit_modules[app_id]) if p is not None]


class Conn(BaseNetQASMConnection):
    def __init__(self, controller, **kw):
        self.ctrl = controller
        super().__init__(app_name="alice", node_name=controller.name, **kw)

    def _commit_serialized_message(self, raw_msg, block=True, callback=None):
        msg = deserialize_host_msg(raw_msg)
        if msg.TYPE == MessageType.INIT_NEW_APP:
            self.ctrl.init_new_application(msg.app_id, msg.max_qubits)
        elif msg.TYPE == MessageType.SUBROUTINE:
            list(self.ctrl.execute_subroutine(deserialize(msg.subroutine)))

    def _get_network_info(self):
        return DebugNetworkInfo



SharedMemoryManager.reset_memories()
DebugConnection.node_ids = {"alice": LOCAL, "bob": REMOTE}
ctrl = Controller(name="alice")
ctrl.network_stack = Stack()
sock = EPRSocket("bob")
conn = Conn(ctrl, max_qubits=3, hardware_config=NVHardwareConfig(3), epr_sockets=[sock])

with sock.create_context(number=2) as (q, pair):
    q.measure()

# what the controller sees when create_epr is executed
seen = {}
orig = ctrl._do_create_epr


def spy(subroutine_id, remote_node_id, epr_socket_id, q_array_address, arg_array_address,
        ent_results_array_address):
    app_id = ctrl._get_app_id(subroutine_id)
    seen["already allocated"] = ctrl.allocated(app_id)
    seen["IDs requested for the pairs"] = list(ctrl._app_arrays[app_id][q_array_address, :])
    return orig(subroutine_id, remote_node_id, epr_socket_id, q_array_address,
                arg_array_address, ent_results_array_address)


ctrl._do_create_epr = spy
print("expected: subroutine runs, afterwards SDK active == controller allocated == []")
try:
    conn.flush()
except Exception as exc:
    print("at create_epr:", seen)
    print(f"controller: {type(exc).__name__}: {str(exc).splitlines()[0]}")
    print("VIOLATION: virtual ID 1 is allocated by QALLOC and requested again for EPR pair 0; "
          "the pair can never be mapped, the subroutine hangs in its wait_all")
    sys.exit(1)
sdk = [q.qubit_id for q in conn.active_qubits]
print("after flush: SDK", sdk, "controller", ctrl.allocated(conn.app_id))
sys.exit(0 if sdk == ctrl.allocated(conn.app_id) == [] else 1)
