"""C08 finding 3: the "no-op" appended for an end label is `set C15 1337` - it overwrites register C15.

Run: cd /tmp/hunt/C08/wt && PYTHONPATH=/tmp/hunt/C08/wt /venv/bin/python /tmp/hunt/C08/out/3/demo.py
"""
import sys

from netqasm.backend.executor import Executor
from netqasm.lang.instr.flavour import NVFlavour, VanillaFlavour
from netqasm.lang.parsing.binary import deserialize
from netqasm.lang.parsing.text import parse_text_subroutine
from netqasm.sdk.shared_memory import SharedMemoryManager
from netqasm.sdk.transpile import NVSubroutineTranspiler

HDR = "# NETQASM 1.0\n# APPID 0\n"
# subroutine 1: keeps a value in C15, then a loop around a gate whose exit label is the end of the subroutine
SUB1 = HDR + """
set C15 5
set R0 0
LOOP:
beq R0 2 EXIT
set Q0 0
x Q0
add R0 R0 1
jmp LOOP
EXIT:
"""
# subroutine 2 of the same application: hands C15 to the host
SUB2 = HDR + "ret_reg C15\n"


def run(transpile):
    SharedMemoryManager.reset_memories()
    ex = Executor(name="node")  # the base executor: gates are no-ops, classical part is real
    ex.init_new_application(app_id=0, max_qubits=2)
    for text in (SUB1, SUB2):
        sub = parse_text_subroutine(text, flavour=VanillaFlavour())
        if transpile:
            sub = deserialize(bytes(NVSubroutineTranspiler(sub).transpile()), flavour=NVFlavour())
        ex.consume_execute_subroutine(sub)
    regs = {f"{n.name}{i}": v for n, g in ex._registers[0].items() for i, v in g._get_active_values()}
    host_view = SharedMemoryManager.get_shared_memory("node", key=0).get_register("C15")
    return regs, host_view


van_regs, van_host = run(False)
nv_regs, nv_host = run(True)
print("expected (vanilla): registers", van_regs, "| host reads C15 =", van_host)
print("happened (NV)     : registers", nv_regs, "| host reads C15 =", nv_host)
if van_regs != nv_regs or van_host != nv_host:
    print("VIOLATION: classical memory differs after transpilation")
    sys.exit(1)
print("ok")
