"""C10 / finding 1: recv_keep(number=2): the correction for pair 1 lands on virtual qubit 0.

Receiver asks for two pairs (default expect_phi_plus=True) on generic hardware.  The
(scripted) link layer reports pair 0 = Phi+, pair 1 = Psi+.  Expected: one X correction on
pair 1's qubit (virtual ID 1) and nothing on pair 0's qubit (virtual ID 0).
"""
import sys

from netqasm.backend.executor import Executor
from netqasm.backend.messages import InitNewAppMessage, SubroutineMessage, deserialize_host_msg
from netqasm.backend.network_stack import BaseNetworkStack
from netqasm.lang.parsing import deserialize
from netqasm.qlink_compat import BellState, LinkLayerOKTypeK
from netqasm.sdk.connection import BaseNetQASMConnection, DebugConnection, DebugNetworkInfo
from netqasm.sdk.epr_socket import EPRSocket


class Stack(BaseNetworkStack):
    def put(self, request): pass
    def setup_epr_socket(self, *a, **k): pass
    def get_purpose_id(self, remote_node_id, epr_socket_id): return epr_socket_id


class Backend(Executor):
    """netqasm's own Executor; records corrections, link layer answers are scripted."""
    node_id = 0

    def __init__(self, name, responses):
        super().__init__(name=name)
        self.network_stack, self.responses, self.log = Stack(), list(responses), []

    def _do_wait(self):  # the subroutine waits for the link layer: deliver the next pair
        self._handle_epr_response(self.responses.pop(0))

    def _do_single_qubit_rotation(self, instr, subroutine_id, address, angle):
        self.log.append((instr.mnemonic, address))  # (gate, virtual qubit ID)


class Conn(BaseNetQASMConnection):
    def __init__(self, name, backend, **kw):
        self.backend = backend
        super().__init__(name, **kw)

    def _get_network_info(self): return DebugNetworkInfo

    def _commit_serialized_message(self, raw_msg, block=True, callback=None):
        msg = deserialize_host_msg(raw_msg)
        if isinstance(msg, InitNewAppMessage):
            self.backend.init_new_application(msg.app_id, msg.max_qubits)
        elif isinstance(msg, SubroutineMessage):
            self.backend.consume_execute_subroutine(deserialize(msg.subroutine))


def ok_k(pair, bell):  # what the link layer reports to the receiver for one kept pair
    return LinkLayerOKTypeK(logical_qubit_id=10 + pair, directionality_flag=1, sequence_number=pair,
                            purpose_id=0, remote_node_id=1, bell_state=bell)


DebugConnection.node_ids = {"bob": 0, "alice": 1}
bells = [BellState.PHI_PLUS, BellState.PSI_PLUS]
backend = Backend("bob", [ok_k(i, b) for i, b in enumerate(bells)])
sock = EPRSocket("alice")
with Conn("bob", backend, epr_sockets=[sock]) as conn:
    qubits = sock.recv_keep(number=2)
    ids = [q.qubit_id for q in qubits]
    conn.flush()

expected = [("rot_x", ids[1])]  # Psi+ -> X on pair 1's qubit, Phi+ -> nothing on pair 0's qubit
print("link layer Bell states :", [b.name for b in bells])
print("virtual IDs of the pairs:", ids)
print("expected corrections    :", expected)
print("observed corrections    :", backend.log)
if backend.log != expected:
    print("VIOLATION: the Pauli correction of pair 1 was applied to virtual qubit 0 (pair 0's qubit); "
          "pair 1 stays in Psi+ and pair 0 is turned from Phi+ into Psi+")
    sys.exit(1)
print("ok")
