"""C20, NV pipeline: toffoli_gate crashes in the controller once virtual qubit 0 (the electron) is vacant,
e.g. right after the toolbox's own parity_meas relocated it.  Generic pipeline: same program works."""
import sys
import numpy as np
from netqasm.backend.executor import Executor
from netqasm.backend.messages import deserialize_host_msg
from netqasm.backend.qnodeos import QNodeController
from netqasm.lang import instr as ins
from netqasm.lang.instr import NVFlavour, VanillaFlavour
from netqasm.sdk.build_types import NVHardwareConfig
from netqasm.sdk.connection import BaseNetQASMConnection, DebugConnection, DebugNetworkInfo
from netqasm.sdk.qubit import Qubit
from netqasm.sdk.toolbox import parity_meas, toffoli_gate
from netqasm.sdk.transpile import NVSubroutineTranspiler

N = 6  # physical qubits of the tiny state-vector backend


class SV(Executor):
    def __init__(self, *a, **kw):
        super().__init__(*a, **kw)
        self.psi = np.zeros((2,) * N, dtype=complex)
        self.psi[(0,) * N] = 1

    def _u(self, U, *ps):
        k = len(ps)
        U = np.asarray(U, dtype=complex).reshape((2,) * (2 * k))
        self.psi = np.moveaxis(np.tensordot(U, self.psi, (list(range(k, 2 * k)), list(ps))), list(range(k)), list(ps))

    def _m(self, p):
        t = np.moveaxis(self.psi, p, 0).copy()
        out = int(np.random.random() < np.sum(abs(t[1]) ** 2))
        t[1 - out] = 0
        self.psi = np.moveaxis(t / np.linalg.norm(t), 0, p)
        return out

    def _zero(self, p):
        if self._m(p):
            self._u([[0, 1], [1, 0]], p)

    def _pos(self, sid, a):
        return self._get_position(subroutine_id=sid, address=a)

    def _reserve_physical_qubit(self, p):
        self._zero(p)

    def _clear_phys_qubit_in_memory(self, p):
        self._zero(p)

    def _do_single_qubit_instr(self, instr, sid, a):
        if isinstance(instr, ins.core.InitInstruction):
            self._zero(self._pos(sid, a))
        else:
            self._u(instr.to_matrix(), self._pos(sid, a))

    def _do_single_qubit_rotation(self, instr, sid, a, angle):
        self._u(instr.to_matrix(), self._pos(sid, a))

    def _do_controlled_qubit_rotation(self, instr, sid, a1, a2, angle):
        self._u(instr.to_matrix(), self._pos(sid, a1), self._pos(sid, a2))

    def _do_two_qubit_instr(self, instr, sid, a1, a2):
        self._u(instr.to_matrix(), self._pos(sid, a1), self._pos(sid, a2))

    def _do_meas(self, subroutine_id, q_address):
        return self._m(self._pos(subroutine_id, q_address))


class Ctrl(QNodeController):
    @classmethod
    def _get_executor_class(cls, flavour=None):
        return SV

    def stop(self):
        pass

    def _mark_message_finished(self, msg_id, msg):
        pass


class Conn(BaseNetQASMConnection):
    def __init__(self, ctrl, **kw):
        self.ctrl = ctrl
        super().__init__(app_name="app_" + ctrl.name, node_name=ctrl.name, **kw)

    def _commit_serialized_message(self, raw_msg, block=True, callback=None):
        list(self.ctrl.handle_netqasm_message(0, deserialize_host_msg(raw_msg)))

    def _get_network_info(self):
        return DebugNetworkInfo


def run(nv):
    name = "nv" if nv else "generic"
    DebugConnection.node_ids[name] = 0
    if nv:
        conn = Conn(Ctrl(name, flavour=NVFlavour()), max_qubits=5,
                    hardware_config=NVHardwareConfig(5), compiler=NVSubroutineTranspiler)
    else:
        conn = Conn(Ctrl(name, flavour=VanillaFlavour()), max_qubits=5)
    qs = [Qubit(conn) for _ in range(3)]  # virtual IDs 0, 1, 2
    qs[0].X()
    qs[1].X()  # |110>
    p = parity_meas(qs, "ZZZ")  # even parity -> 0, state unchanged
    toffoli_gate(*qs)  # -> |111>
    ms = [q.measure() for q in qs]
    conn.flush()
    return int(p), tuple(int(m) for m in ms)


expected = (0, (1, 1, 1))
print("expected on both pipelines: parity, outcomes =", expected)
got = run(nv=False)
print("generic pipeline         :", got)
assert got == expected
try:
    got = run(nv=True)
    print("NV pipeline              :", got)
except Exception as e:
    print("NV pipeline              : %s: %s" % (type(e).__name__, str(e).splitlines()[0]))
    sys.exit(1)
sys.exit(0 if got == expected else 1)
