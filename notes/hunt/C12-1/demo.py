"""C12: a response that cannot be consumed immediately (here: it arrives before the matching
recv_epr has run) makes the unmodified Executor recurse without bound; and whatever the
`_wait_to_handle_epr_responses` hook does, no instruction ever re-examines the parked
response, so the request posted afterwards never gets its pair and wait_all never resumes."""
import sys

from netqasm.backend.executor import Executor
from netqasm.backend.network_stack import BaseNetworkStack
from netqasm.lang.parsing import parse_text_subroutine
from netqasm.qlink_compat import BellState, LinkLayerOKTypeM, ReturnType


class Stack(BaseNetworkStack):
    def put(self, request):
        pass

    def setup_epr_socket(self, *a, **k):
        return None

    def get_purpose_id(self, remote_node_id, epr_socket_id):
        return epr_socket_id


class Plain(Executor):  # only what the base class forces a simulator to supply
    node_id = 0

    def _do_wait(self):  # let the driver regain control while a wait instruction polls
        yield


class NoRetry(Plain):  # the only non-recursive choice for the hook
    def _wait_to_handle_epr_responses(self):
        pass


# receiver side of a measure-directly request: one pair, socket 0, remote node 1
PROGRAM = """# NETQASM 1.0
# APPID 0
set R0 10
array R0 @0
set R0 1
set R1 0
set R2 0
recv_epr R0 R1 C0 R2
wait_all @0[0:10]
ret_arr @0
"""


def run(cls):
    ex = cls(name=f"c12-demo-1-{cls.__name__}")
    ex.network_stack = Stack()
    ex.init_new_application(app_id=0, max_qubits=2)
    gen = ex.execute_subroutine(parse_text_subroutine(PROGRAM))
    # directionality_flag=1: the remote node is the creator.  Delivered BEFORE recv_epr runs.
    resp = LinkLayerOKTypeM(ReturnType.OK_M, 0, 1, 0, 1, 0, 0, 1, 0, BellState.PHI_PLUS)
    try:
        ex._handle_epr_response(resp)
        delivery = "ok"
    except RecursionError:
        delivery = "RecursionError"
    finished = False
    for _ in range(1000):  # post recv_epr, then give wait_all plenty of polling rounds
        try:
            next(gen)
        except StopIteration:
            finished = True
            break
    print(f"{cls.__name__:8s} delivery={delivery:15s} subroutine finished={finished} "
          f"@0={ex._app_arrays[0][0, :]} parked responses={len(ex._pending_epr_responses)}")
    return delivery == "ok" and finished and not ex._pending_epr_responses


print("expected: delivery=ok, subroutine finished=True, @0 = the ten response fields, parked responses=0")
ok = [run(Plain), run(NoRetry)]
sys.exit(0 if all(ok) else 1)
