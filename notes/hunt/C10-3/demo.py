"""C10 / finding 3: recv_measure post-processes as if the pair had been measured in Z,
whatever basis the creator requested.

The creator calls create_measure(basis_local=B, basis_remote=B); the receiver calls
recv_measure() (expect_phi_plus=True).  For every named basis B and every Bell state the link
layer may report we compute the exact joint distribution of (creator outcome, receiver's
post-processed outcome) and compare it with the one of measuring Phi+ in (B, B).
The receiver side runs through the real SDK + netqasm's Executor; the physics is 10 lines of numpy.
"""
import sys

import numpy as np
from scipy.linalg import expm

from netqasm.backend.executor import Executor
from netqasm.backend.messages import InitNewAppMessage, SubroutineMessage, deserialize_host_msg
from netqasm.backend.network_stack import BaseNetworkStack
from netqasm.lang.parsing import deserialize
from netqasm.qlink_compat import Basis, BellState, LinkLayerOKTypeM
from netqasm.sdk.build_epr import EprMeasBasis, basis_to_rotation
from netqasm.sdk.connection import BaseNetQASMConnection, DebugConnection, DebugNetworkInfo
from netqasm.sdk.epr_socket import EPRSocket


class Stack(BaseNetworkStack):
    def put(self, request): pass
    def setup_epr_socket(self, *a, **k): pass
    def get_purpose_id(self, remote_node_id, epr_socket_id): return epr_socket_id


class Backend(Executor):
    node_id = 0

    def __init__(self, name):
        super().__init__(name=name)
        self.network_stack, self.responses = Stack(), []

    def _do_wait(self):  # the subroutine waits for the link layer: deliver the next result
        self._handle_epr_response(self.responses.pop(0))


class Conn(BaseNetQASMConnection):
    def __init__(self, name, backend, **kw):
        self.backend = backend
        super().__init__(name, **kw)

    def _get_network_info(self): return DebugNetworkInfo

    def _commit_serialized_message(self, raw_msg, block=True, callback=None):
        msg = deserialize_host_msg(raw_msg)
        if isinstance(msg, InitNewAppMessage):
            self.backend.init_new_application(msg.app_id, msg.max_qubits)
        elif isinstance(msg, SubroutineMessage):
            self.backend.consume_execute_subroutine(deserialize(msg.subroutine))


# ---- physics: Bell state = Pauli on the receiver's half of Phi+, both sides rotate (X, Y, X) and measure Z
X, Y, Z = np.array([[0, 1], [1, 0]]), np.array([[0, -1j], [1j, 0]]), np.diag([1, -1])
PAULI = {BellState.PHI_PLUS: np.eye(2), BellState.PHI_MINUS: Z, BellState.PSI_PLUS: X, BellState.PSI_MINUS: X @ Z}
REPORTED = {"X": Basis.X, "MX": Basis.X, "Y": Basis.Y, "MY": Basis.Y, "Z": Basis.Z, "MZ": Basis.Z}


def raw_joint(bell, rot):
    """p[a, r] of raw outcomes (creator a, receiver r)."""
    U = expm(-1j * rot[2] * np.pi / 32 * X) @ expm(-1j * rot[1] * np.pi / 32 * Y) @ expm(-1j * rot[0] * np.pi / 32 * X)
    psi = np.kron(U, U @ PAULI[bell]) @ (np.array([1, 0, 0, 1]) / np.sqrt(2))
    return (np.abs(psi) ** 2).reshape(2, 2)


DebugConnection.node_ids = {"bob": 0, "alice": 1}
backend = Backend("bob")
sock = EPRSocket("alice")
failures = []
with Conn("bob", backend, epr_sockets=[sock]) as conn:
    for basis in EprMeasBasis:
        rot = basis_to_rotation(basis)  # what create_measure(basis_local=basis, basis_remote=basis) requests
        want = raw_joint(BellState.PHI_PLUS, rot)
        for bell in BellState:
            raw, got = raw_joint(bell, rot), np.zeros((2, 2))
            for r in (0, 1):  # receiver's raw outcome r -> post-processed outcome via the SDK
                backend.responses.append(LinkLayerOKTypeM(
                    measurement_outcome=r, measurement_basis=REPORTED[basis.name], directionality_flag=1,
                    purpose_id=0, remote_node_id=1, bell_state=bell))
                result = sock.recv_measure(number=1)[0]
                conn.flush()
                got[:, result.measurement_outcome] += raw[:, r]
            if not np.allclose(got, want):
                failures.append((basis.name, bell.name, want.round(3).tolist(), got.round(3).tolist()))

print(f"{len(failures)} of 24 (basis, Bell state) combinations give the wrong joint statistics")
for basis, bell, want, got in failures:
    print(f"  basis {basis:2} link={bell:9}  expected p[a][b]={want}  observed p[a][b]={got}")
if failures:
    print("VIOLATION: post-processed outcomes do not have the joint statistics of measuring Phi+ "
          "in the requested bases (the receiver always applies the Z-basis flip rule)")
    sys.exit(1)
print("ok")
