"""C19 #3: a finite angle given as a low-precision numpy scalar (np.float16 / np.float32)
keeps its dtype through the whole decomposition (NumPy 2 promotion rules): 2*pi, pi and
255/rest are rounded to that dtype -> crash (float16 overflow) or silently wrong steps."""
import sys
import warnings
from fractions import Fraction

import numpy as np

from netqasm.sdk.toolbox.state_prep import get_angle_spec_from_float

warnings.simplefilter("ignore")
PI = Fraction("3.14159265358979323846264338327950288419716939937510582097494459")
TOL = 1e-4  # the default, the only one the SDK builder uses


def error(angle, nds):
    turns = (sum(Fraction(n, 2**d) for n, d in nds) * PI - Fraction(float(angle))) / (2 * PI)
    return float(abs(turns - round(turns)) * 2 * PI)


bad = 0
for angle in [np.float16(3.0), np.float16(-26.2), np.float32(6283.0), np.float32(32.606396)]:
    ref = get_angle_spec_from_float(float(angle))  # same value as a Python float: fine
    print(f"angle={angle!r} (exact value {float(angle)!r}); as Python float -> {ref}, error {error(angle, ref):.2e}")
    try:
        nds = get_angle_spec_from_float(angle)
    except Exception as exc:  # noqa
        print(f"    expected steps within {TOL:g}, got exception {exc!r}  VIOLATION")
        bad += 1
        continue
    err = error(angle, nds)
    ok = err <= TOL
    bad += not ok
    print(f"    steps={nds}: expected error <= {TOL:g}, got {err:.3e}  {'ok' if ok else 'VIOLATION'}")
sys.exit(1 if bad else 0)
