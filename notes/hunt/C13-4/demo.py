"""C13 finding 4: stop_application leaves the application's outstanding EPR requests (and
its suspended subroutine) behind; after the same app id is registered again, a late
keep-response is served to the *stale* request and rewrites the new registration's unit
module and arrays.

Old registration of app 0: recv_epr into the virtual qubit listed in @0, results into @1,
then it is stopped while waiting.  New registration of app 0 never asks for entanglement;
it only keeps classical data in @0 and @1.
"""
import sys

from netqasm.backend.executor import Executor
from netqasm.backend.network_stack import BaseNetworkStack
from netqasm.lang.parsing import parse_text_subroutine
from netqasm.qlink_compat import LinkLayerOKTypeK
from netqasm.sdk.shared_memory import SharedMemoryManager


class Stack(BaseNetworkStack):
    def put(self, request):
        pass

    def setup_epr_socket(self, epr_socket_id, remote_node_id, remote_epr_socket_id, timeout=1.0):
        pass

    def get_purpose_id(self, remote_node_id, epr_socket_id):
        return epr_socket_id


class Ex(Executor):
    node_id = 0

    def _do_wait(self):  # yield to the scheduler instead of spinning
        yield None

    def _wait_to_handle_epr_responses(self):  # retry later
        pass


def sub(app_id, body):
    return parse_text_subroutine(f"# NETQASM 1.0\n# APPID {app_id}\n{body}")


SharedMemoryManager.reset_memories()
ex = Ex(name="ctrl")
ex.network_stack = Stack()

# --- first registration of app 0 -------------------------------------------------------
ex.init_new_application(app_id=0, max_qubits=2)
old = ex.execute_subroutine(
    sub(
        0,
        """
set R0 1
array R0 @0
set R1 0
store R1 @0[R1]
set R0 10
array R0 @1
set R5 1
set R6 0
set R7 0
set R8 1
recv_epr R5 R6 R7 R8
set R0 0
set R1 10
wait_all @1[R0:R1]
""",
    )
)
next(old)  # waiting for the pair ...
list(ex.stop_application(0))  # ... when the host gives up and stops the application
print("after stop: outstanding recv requests =", {k: len(v) for k, v in ex._epr_recv_requests.items()},
      " subroutines still registered =", list(ex._subroutines))

# --- second registration of the same id: purely classical program ----------------------
ex.init_new_application(app_id=0, max_qubits=2)
ex.consume_execute_subroutine(
    sub(
        0,
        """
set R0 1
array R0 @0
set R1 0
store R0 @0[R1]
set R0 10
array R0 @1
set R2 7
store R2 @1[R1]
store R2 @1[9]
""",
    )
)
before = (list(ex._qubit_unit_modules[0]), list(ex._app_arrays[0]._get_array(1)), sorted(ex._used_physical_qubit_addresses))
print("new registration before the late response: unit module, @1, used =", before)

# the pair requested by the OLD registration finally arrives from node 1
try:
    ex._handle_epr_response(
        LinkLayerOKTypeK(logical_qubit_id=0, directionality_flag=1, sequence_number=5, purpose_id=0,
                         remote_node_id=1, goodness=3, bell_state=2)
    )
except Exception as exc:  # a loud refusal would be acceptable
    print("late response refused:", type(exc).__name__, str(exc).splitlines()[0])

after = (list(ex._qubit_unit_modules[0]), list(ex._app_arrays[0]._get_array(1)), sorted(ex._used_physical_qubit_addresses))
print("new registration after  the late response: unit module, @1, used =", after)
print("expected: stopping app 0 released everything it had; the new registration is untouched")
if after != before:
    print("VIOLATION: a request of the stopped registration allocated a qubit in, and overwrote an array of, the new one")
    sys.exit(1)
print("ok")
