"""C16: with the NV transpiler in hardware mode an out-of-range rotation numerator
(SDK: q.rot_X(n=300, d=4); text: 'rot_x Q0 -1 4') is not rejected: it is silently
reduced modulo 32 and a different, valid-looking program is encoded."""
import sys

from netqasm.backend.messages import SubroutineMessage, deserialize_host_msg
from netqasm.lang.instr.flavour import NVFlavour
from netqasm.lang.parsing import deserialize
from netqasm.lang.parsing.text import parse_text_subroutine
from netqasm.runtime.settings import set_is_using_hardware
from netqasm.sdk.connection import DebugConnection
from netqasm.sdk.qubit import Qubit
from netqasm.sdk.transpile import NVSubroutineTranspiler


def sdk_rotation(n, d):
    """Flush `rot_X(n, d)` through the SDK with the NV compiler; return the rot lines."""
    conn = DebugConnection("alice", compiler=NVSubroutineTranspiler)
    try:
        with conn:
            q = Qubit(conn)
            q.rot_X(n=n, d=d)
    finally:
        conn._pop_app_id()
    for raw in conn.storage:
        msg = deserialize_host_msg(raw)
        if isinstance(msg, SubroutineMessage):
            sub = deserialize(msg.subroutine, flavour=NVFlavour())
            return [str(i) for i in sub.instructions if str(i).startswith("rot")]


def text_rotation(line):
    sub = parse_text_subroutine(f"# NETQASM 0.0\n# APPID 0\nset Q0 0\n{line}\n")
    sub = NVSubroutineTranspiler(sub).transpile()
    back = deserialize(bytes(sub), flavour=NVFlavour())
    return [str(i) for i in back.instructions if str(i).startswith("rot")]


bad = 0
for hardware in (False, True):
    set_is_using_hardware(hardware)
    for descr, fn in [
        ("SDK  q.rot_X(n=300, d=4)", lambda: sdk_rotation(300, 4)),
        ("SDK  q.rot_X(n=2**32+1, d=4)", lambda: sdk_rotation(2**32 + 1, 4)),
        ("text 'rot_x Q0 300 4'", lambda: text_rotation("rot_x Q0 300 4")),
        ("text 'rot_z Q0 -1 4'", lambda: text_rotation("rot_z Q0 -1 4")),
    ]:
        print(f"[hardware mode={hardware}] {descr}")
        print("  expected: error, numerator does not fit the 8-bit immediate")
        try:
            lines = fn()
        except Exception as err:
            print(f"  got     : {type(err).__name__}: {err}  (OK)")
            continue
        print(f"  got     : no error, encoded program contains {lines}  (VIOLATION)")
        bad += 1

sys.exit(1 if bad else 0)
