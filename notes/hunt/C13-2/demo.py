"""C13 finding 2: a (rejected) second registration of a live application id wipes the
first registration's unit module, registers and arrays and leaks its physical qubits.

The second InitNewApp for id 0 is refused with "Shared memory ... already exists", but only
after init_new_application has already replaced the unit module, registers and arrays.
(The SDK produces exactly this message sequence: app ids are handed out per *app name*, so
two different programs connecting to the same node both get app id 0.)
"""
import sys

from netqasm.backend.executor import Executor
from netqasm.backend.messages import StopAppMessage, SubroutineMessage, deserialize_host_msg
from netqasm.backend.qnodeos import QNodeController
from netqasm.lang.encoding import RegisterName
from netqasm.lang.parsing import parse_text_subroutine
from netqasm.sdk.connection import DebugConnection
from netqasm.sdk.shared_memory import SharedMemoryManager


class Ctrl(QNodeController):
    @classmethod
    def _get_executor_class(cls, flavour=None):
        return Executor

    def stop(self):
        pass

    def _mark_message_finished(self, msg_id, msg):
        pass


def send(ctrl, msg):
    list(ctrl.handle_netqasm_message(0, msg))


def sub(app_id, body):
    return SubroutineMessage(parse_text_subroutine(f"# NETQASM 1.0\n# APPID {app_id}\n{body}"))


SharedMemoryManager.reset_memories()
ctrl = Ctrl(name="alice")
ex = ctrl._executor

# two different programs open a connection to node "alice"; the SDK gives both app id 0
prog_a = DebugConnection("prog_a", node_name="alice", max_qubits=2)
prog_b = DebugConnection("prog_b", node_name="alice", max_qubits=2)
init_a, init_b = deserialize_host_msg(prog_a.storage[0]), deserialize_host_msg(prog_b.storage[0])
print("prog_a sends", init_a, "; prog_b sends", init_b)


def snapshot():
    return (list(ex._qubit_unit_modules[0]), set(ex._used_physical_qubit_addresses),
            ex._registers[0][RegisterName.R][3], ex._app_arrays[0].has_array(0))


send(ctrl, init_a)
send(ctrl, sub(0, "set Q0 0\nqalloc Q0\nset R3 7\nset R0 1\narray R0 @0\nstore R3 @0[0]\n"))
before = snapshot()
print("before second registration: unit module, used, R3, has @0 =", before)

try:
    send(ctrl, init_b)
    print("second registration accepted")
except RuntimeError as exc:
    print("second registration refused:", exc)

after = snapshot()
print("after  second registration: unit module, used, R3, has @0 =", after)
print("expected: a refused registration leaves the running application untouched")

bad = after != before
if bad:
    mapped = {p for um in ex._qubit_unit_modules.values() for p in um if p is not None}
    print("VIOLATION: used physical", sorted(ex._used_physical_qubit_addresses), "but mapped", sorted(mapped))
    # the leak is permanent: it survives stopping the application
    send(ctrl, StopAppMessage(app_id=0))
    print("after stop_application(0): used physical =", sorted(ex._used_physical_qubit_addresses),
          " unit modules =", ex._qubit_unit_modules)
    sys.exit(1)
print("ok")
