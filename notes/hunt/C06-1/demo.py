"""C06 violation 1: with the NV transpiler in hardware mode, compile() of a templated
rotation crashes, while flushing the same rotation written with a concrete value works."""
import sys

from netqasm.lang.operand import Template
from netqasm.lang.parsing import deserialize
from netqasm.lang.instr.flavour import NVFlavour
from netqasm.backend.messages import deserialize_host_msg
from netqasm.logging.glob import set_log_level
from netqasm.runtime.settings import set_is_using_hardware
from netqasm.sdk.connection import DebugConnection
from netqasm.sdk.qubit import Qubit
from netqasm.sdk.transpile import NVSubroutineTranspiler

set_log_level("ERROR")
DebugConnection.node_ids = {"alice": 0}
set_is_using_hardware(True)  # what `netqasm` CLI does when running on real (NV) hardware

N, D = 3, 3  # rotation by 3*pi/8


def new_conn():
    DebugConnection._app_ids = {}
    return DebugConnection("alice", compiler=NVSubroutineTranspiler)


def rotations(conn):
    out = []
    for raw in conn.storage:
        msg = deserialize_host_msg(raw)
        if hasattr(msg, "subroutine"):
            for instr in deserialize(msg.subroutine, flavour=NVFlavour()).instructions:
                if instr.mnemonic.startswith("rot"):
                    out.append(str(instr))
    return out


# Reference: ordinary flush with the concrete value.
conn = new_conn()
q = Qubit(conn)
q.rot_X(n=N, d=D)
conn.flush()
expected = rotations(conn)
print("flush with concrete value  ->", expected)

# Same operations, pre-compiled with a template operand.
conn = new_conn()
q = Qubit(conn)
q.rot_X(n=Template("n"), d=D)
try:
    subroutine = conn.compile()
    subroutine.instantiate(conn.app_id, {"n": N})
    conn.commit_subroutine(subroutine)
    got = rotations(conn)
    print("compile/instantiate/commit ->", got)
except Exception as exc:  # noqa
    print(f"compile/instantiate/commit -> raised {type(exc).__name__}: {exc}")
    print("EXPECTED: the same subroutine as the flush; GOT: an exception, nothing is sent")
    sys.exit(1)

if got != expected:
    print("EXPECTED the same rotation as the flush, GOT a different one")
    sys.exit(1)
print("OK: identical")
