"""C18 finding 4: the hub keeps per-key state of a finished session; the next session on the same key inherits it.

(a) an unread message survives the disconnect of BOTH ends and is handed to the next connection's receiver;
(b) a rendezvous mark in `_remote_sockets` survives (after a timed-out connect, or after one preemption inside
    `_SocketHub.connect`), so that in the next session the side that starts first does not wait for its peer.
"""
import gc
import sys
import threading

from netqasm.sdk.classical_communication.thread_socket.socket import ThreadSocket
from netqasm.sdk.classical_communication.thread_socket.socket_hub import _socket_hub as hub

bad = []


def connect_pair():
    out = {}

    def make(a, b):
        out[a] = ThreadSocket(a, b, timeout=5)

    ts = [threading.Thread(target=make, args=p) for p in (("A", "B"), ("B", "A"))]
    [t.start() for t in ts]
    [t.join() for t in ts]
    return out["A"], out["B"]


# ---------------------------------------------------------------- (a) stale message
a, b = connect_pair()
a.send("from-session-1")  # B never reads it
del a, b  # both ends disconnect
gc.collect()
assert not hub._open_sockets and not hub._remote_sockets
a, b = connect_pair()  # session 2: nothing has been sent
print("(a) expected: session-2 B.recv(block=False) -> RuntimeError (nothing was sent on this connection)")
try:
    print(f"    happened: returned {b.recv(block=False)!r}")
    bad.append("a")
except RuntimeError as exc:
    print(f"    happened: RuntimeError({exc})")
del a, b
gc.collect()

# ---------------------------------------------------------------- (b1) stale rendezvous mark after a timeout
hub.__init__()
try:
    ThreadSocket("A", "B", timeout=0)  # A looks, B is not there, A gives up and is gone
except TimeoutError:
    pass
gc.collect()
print("(b1) expected: B, started first in the next session, waits for A (here: TimeoutError after 0.3 s)")
try:
    b = ThreadSocket("B", "A", timeout=0.3)
    print(f"     happened: constructor returned at once, connected={b.connected}, leftover marks={hub._remote_sockets}")
    try:
        b.send("hi")
    except ConnectionError as exc:
        print(f"     and B.send -> ConnectionError({exc})")
    bad.append("b1")
    del b
except TimeoutError:
    print("     happened: TimeoutError")
gc.collect()

# ---------------------------------------------------------------- (b2) same mark, no timeout: one preemption in connect()
hub.__init__()


class PreemptBeforeAdd(set):
    """`_remote_sockets.add(key)` of A is delayed: B's whole session runs between the two add statements of connect()."""

    def add(self, key):
        if key == ("A", "B", 0) and not getattr(self, "done", False):
            self.done = True
            t = threading.Thread(target=b_session)
            t.start()
            t.join()
        super().add(key)


def b_session():
    s = ThreadSocket("B", "A", timeout=5)  # sees A in _open_sockets
    s.send("m")
    del s  # disconnect: cannot remove A's mark, it is not there yet


hub._remote_sockets = PreemptBeforeAdd()
a = ThreadSocket("A", "B", timeout=5)
assert a.recv(block=False) == "m"
del a
gc.collect()
print("(b2) expected: after both ends are gone the hub is clean")
print(f"     happened: open={set(hub._open_sockets)} marks={set(hub._remote_sockets)}")
if hub._remote_sockets:
    try:
        b = ThreadSocket("B", "A", timeout=0.3)
        print(f"     next session: B starts first, constructor returns without A, connected={b.connected}")
        bad.append("b2")
        del b
    except TimeoutError:
        print("     next session: B waited for A (TimeoutError) - fine")

sys.exit(1 if bad else 0)
