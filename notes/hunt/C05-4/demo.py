"""C05 finding 4: a counted loop whose index steps over `stop` (or starts beyond it) never terminates.

Programs (count is an array entry initialised to 0, the body is `count.add(1)`):
    with conn.loop(stop=5, start=0, step=2): ...    direct execution: range(0, 5, 2) -> 3 iterations
    conn.loop_body(body, stop=2, start=3)           direct execution: range(3, 2)    -> 0 iterations
    with conn.loop(stop=6, start=0, step=2): ...    (control) range(0, 6, 2)         -> 3 iterations
"""
import logging
import sys

from netqasm.backend.executor import Executor
from netqasm.backend.messages import deserialize_host_msg
from netqasm.backend.qnodeos import QNodeController
from netqasm.sdk.connection import BaseNetQASMConnection, DebugNetworkInfo

logging.disable(logging.CRITICAL)
STEP_CAP = 20000  # instructions; the correct programs need fewer than 60


class CappedExecutor(Executor):
    steps = 0

    def _execute_command(self, subroutine_id, command):
        self.steps += 1
        if self.steps > STEP_CAP:
            raise TimeoutError(f"gave up after {STEP_CAP} instructions")
        return super()._execute_command(subroutine_id, command)


class Controller(QNodeController):
    @classmethod
    def _get_executor_class(cls, flavour=None):
        return CappedExecutor

    def stop(self):
        pass

    def _mark_message_finished(self, msg_id, msg):
        pass


class Conn(BaseNetQASMConnection):
    """Hands every serialized message to an in-process controller."""

    def __init__(self, ctrl):
        self._ctrl = ctrl
        super().__init__(app_name=ctrl.name, node_name=ctrl.name)

    def _commit_serialized_message(self, raw_msg, block=True, callback=None):
        list(self._ctrl.handle_netqasm_message(0, deserialize_host_msg(raw_msg)))

    def _get_network_info(self):
        return DebugNetworkInfo


def run(name, style, stop, start, step):
    ctrl = Controller(name=name)
    conn = Conn(ctrl)
    count = conn.new_array(init_values=[0])
    if style == "context":
        with conn.loop(stop, start, step):
            count.get_future_index(0).add(1)
    else:
        conn.loop_body(lambda c, i: count.get_future_index(0).add(1), stop, start, step)
    error = None
    try:
        conn.flush()
    except Exception as exc:
        error = f"{type(exc).__name__}: {str(exc).splitlines()[0]}"
    iterations = ctrl._executor._app_arrays[conn.app_id]._get_array(count.address)[0]
    return iterations, error


bad = False
for name, style, stop, start, step in [
    ("step_over_stop", "context", 5, 0, 2),
    ("start_beyond_stop", "callback", 2, 3, 1),
    ("control", "context", 6, 0, 2),
]:
    expected = len(range(start, stop, step))
    iterations, error = run(name, style, stop, start, step)
    ok = error is None and iterations == expected
    bad |= not ok
    print(f"{name}: loop(stop={stop}, start={start}, step={step}) as {style}")
    print(f"   expected: {expected} iterations, subroutine terminates")
    print(f"   observed: {iterations} iterations so far, error={error}")
    print("   ->", "ok" if ok else "VIOLATION: the loop index never equals `stop`, the subroutine runs forever")
sys.exit(1 if bad else 0)
