"""C11 / finding 2: EPRSocket.create(tp=EPRType.R, rotations_local=...) loses the measurement rotations.

The same request issued through create_rsp() reaches the network stack with the rotations; issued through
the (deprecated but still accepted) generic create() it reaches the stack with rotations (0, 0, 0).
"""
import logging
import sys

from netqasm.backend.executor import Executor
from netqasm.backend.messages import deserialize_host_msg
from netqasm.backend.network_stack import BaseNetworkStack
from netqasm.backend.qnodeos import QNodeController
from netqasm.qlink_compat import EPRType, LinkLayerOKTypeM
from netqasm.sdk.connection import BaseNetQASMConnection, DebugConnection, DebugNetworkInfo
from netqasm.sdk.epr_socket import EPRSocket
from netqasm.sdk.shared_memory import SharedMemoryManager

logging.disable(logging.ERROR)
DebugConnection.node_ids = {"alice": 0, "bob": 1}


class Stack(BaseNetworkStack):
    def __init__(self):
        self.requests, self.outbox = [], []

    def put(self, request):
        self.requests.append(request)
        for _ in range(request.number):  # R-type creates are answered with the M-type layout
            self.outbox.append(LinkLayerOKTypeM(purpose_id=request.purpose_id, remote_node_id=request.remote_node_id))

    def setup_epr_socket(self, epr_socket_id, remote_node_id, remote_epr_socket_id, timeout=1.0):
        pass

    def get_purpose_id(self, remote_node_id, epr_socket_id):
        return epr_socket_id


class Exec(Executor):
    node_id = 0

    def _do_wait(self):
        self._handle_epr_response(self.network_stack.outbox.pop(0))


class Controller(QNodeController):
    @classmethod
    def _get_executor_class(cls, flavour=None):
        return Exec

    def stop(self):
        pass

    def _mark_message_finished(self, msg_id, msg):
        pass


class Conn(BaseNetQASMConnection):
    def __init__(self, app_name, controller, **kwargs):
        self._controller = controller
        super().__init__(app_name, node_name=controller.name, **kwargs)

    def _commit_serialized_message(self, raw_msg, block=True, callback=None):
        list(self._controller.handle_netqasm_message(0, deserialize_host_msg(raw_msg)))

    def _get_network_info(self):
        return DebugNetworkInfo


def received_rotations(use_generic_create):
    SharedMemoryManager.reset_memories()
    controller = Controller("alice")
    stack = Stack()
    controller.network_stack = stack
    sock = EPRSocket("bob")
    with Conn("alice", controller, epr_sockets=[sock]) as conn:
        if use_generic_create:
            sock.create(tp=EPRType.R, number=1, rotations_local=(1, 2, 3))
        else:
            sock.create_rsp(number=1, rotations_local=(1, 2, 3))
        conn.flush()
    (req,) = stack.requests
    return req.type.name, (req.rotation_X_local1, req.rotation_Y_local, req.rotation_X_local2)


expected = ("R", (1, 2, 3))
via_rsp = received_rotations(False)
via_create = received_rotations(True)
print("application asked for     : type R, rotations_local=(1, 2, 3)")
print("stack got via create_rsp():", via_rsp)
print("stack got via create()    :", via_create)
if via_rsp != expected or via_create != expected:
    print("FAIL: the rotations passed to the create call are not the ones the network stack received")
    sys.exit(1)
print("PASS")
