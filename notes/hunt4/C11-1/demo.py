"""C11 demo 1: create_rsp / recv_rsp with min_fidelity_all_at_end re-try loop.

The re-try loop of the R-type calls does not reset the entanglement-results array
between attempts (the K-type loop does).  From the second attempt on, `wait_all`
passes immediately on the stale results of attempt 1, so
  * the loop fires max_tries create requests at the network stack without ever waiting
    for an answer to attempts 2, 3, ...
  * the result handles the application gets back read attempt 1's response (the one that
    was rejected), not the response to the request that was sent last,
  * the later requests stay queued in the executor when the subroutine has ended.
The same scenario through create_keep (control) behaves as expected.
"""
import logging
import sys

from netqasm.backend.executor import Executor
from netqasm.backend.messages import (
    InitNewAppMessage,
    OpenEPRSocketMessage,
    SubroutineMessage,
    deserialize_host_msg,
)
from netqasm.backend.network_stack import BaseNetworkStack
from netqasm.lang.parsing.binary import deserialize
from netqasm.qlink_compat import (
    Basis,
    BellState,
    LinkLayerOKTypeK,
    LinkLayerOKTypeM,
    ReturnType,
)
from netqasm.sdk.connection import (
    BaseNetQASMConnection,
    DebugConnection,
    DebugNetworkInfo,
)
from netqasm.sdk.epr_socket import EPRSocket
from netqasm.sdk.shared_memory import SharedMemoryManager

logging.disable(logging.WARNING)

PURPOSE = 103


class Stack(BaseNetworkStack):
    def __init__(self):
        self.requests = []

    def put(self, request):
        self.requests.append(request)

    def setup_epr_socket(self, epr_socket_id, remote_node_id, remote_epr_socket_id, timeout=1.0):
        pass

    def get_purpose_id(self, remote_node_id, epr_socket_id):
        return PURPOSE


class Exec(Executor):
    """Executor on node 0.  Every time a subroutine has to wait, the network stack
    delivers the next scripted response (one response per outstanding pair, in order)."""

    def __init__(self):
        super().__init__(name="Alice")
        self.responses = []
        self.delivered = 0

    @property
    def node_id(self):
        return 0

    def _wait_to_handle_epr_responses(self):
        return  # nothing to sleep on in this single-threaded demo

    def _do_wait(self):
        if not self.responses:
            raise RuntimeError("subroutine waits but the stack has nothing more to deliver")
        self.delivered += 1
        self._handle_epr_response(self.responses.pop(0))


class Conn(BaseNetQASMConnection):
    def __init__(self, app_name, executor, **kwargs):
        self.executor = executor
        super().__init__(app_name, node_name="Alice", **kwargs)

    def _commit_serialized_message(self, raw_msg, block=True, callback=None):
        msg = deserialize_host_msg(raw_msg)
        if isinstance(msg, InitNewAppMessage):
            self.executor.init_new_application(msg.app_id, msg.max_qubits)
        elif isinstance(msg, OpenEPRSocketMessage):
            list(self.executor.setup_epr_socket(msg.epr_socket_id, msg.remote_node_id, msg.remote_epr_socket_id))
        elif isinstance(msg, SubroutineMessage):
            self.executor.consume_execute_subroutine(deserialize(msg.subroutine))

    def _get_network_info(self):
        return DebugNetworkInfo


def fresh():
    SharedMemoryManager.reset_memories()
    DebugConnection.node_ids = {"Alice": 0, "Bob": 1}
    ex = Exec()
    ex.network_stack = Stack()
    return ex


SLOW = 50_000  # min fidelity 80 -> max duration 28_000: this attempt must be rejected
FAST = 100  # this attempt is accepted


def resp_m(seq, outcome, duration, d=0):
    return LinkLayerOKTypeM(ReturnType.OK_M, 9, outcome, Basis.Z, d, seq, PURPOSE, 1, duration, BellState.PHI_PLUS)


def resp_k(seq, phys, duration, d=0):
    return LinkLayerOKTypeK(ReturnType.OK_K, 9, phys, d, seq, PURPOSE, 1, duration, 0, BellState.PHI_PLUS)


failures = []


def check(label, got, want):
    ok = got == want
    print(f"  {'ok  ' if ok else 'FAIL'} {label}: expected {want}, got {got}")
    if not ok:
        failures.append(label)


# ---- control: K type, works ---------------------------------------------------------
print("control: create_keep(number=1, min_fidelity_all_at_end=80, max_tries=3)")
ex = fresh()
sock = EPRSocket("Bob", epr_socket_id=3)
ex.responses = [resp_k(0, 20, SLOW), resp_k(1, 21, FAST)]
with Conn("Alice", ex, epr_sockets=[sock]) as conn:
    q = sock.create_keep(number=1, min_fidelity_all_at_end=80, max_tries=3)[0]
    conn.flush()
    check("K: requests the stack received", len(ex.network_stack.requests), 2)
    check("K: responses consumed", ex.delivered, 2)
    check("K: duration read by the handle", q.entanglement_info.goodness.value, FAST)
    check("K: requests still queued in the executor", sum(len(v) for v in ex._epr_create_requests.values()), 0)
    q.measure()

# ---- create_rsp ----------------------------------------------------------------------
print("create_rsp(number=1, min_fidelity_all_at_end=80, max_tries=3)")
ex = fresh()
sock = EPRSocket("Bob", epr_socket_id=3)
# attempt 1: outcome 1, too slow.  attempt 2: outcome 0, fast enough.
ex.responses = [resp_m(0, 1, SLOW), resp_m(1, 0, FAST)]
with Conn("Alice", ex, epr_sockets=[sock]) as conn:
    res = sock.create_rsp(number=1, min_fidelity_all_at_end=80, max_tries=3, rotations_local=(1, 2, 3))[0]
    conn.flush()
    check("R create: requests the stack received", len(ex.network_stack.requests), 2)
    check("R create: responses consumed", ex.delivered, 2)
    check("R create: duration read by the handle", res.generation_duration.value, FAST)
    check("R create: outcome read by the handle", res.raw_measurement_outcome.value, 0)
    check("R create: requests still queued in the executor", sum(len(v) for v in ex._epr_create_requests.values()), 0)

# ---- recv_rsp ------------------------------------------------------------------------
print("recv_rsp_with_info(number=1, min_fidelity_all_at_end=80, max_tries=3)")
ex = fresh()
sock = EPRSocket("Bob", epr_socket_id=3)
ex.responses = [resp_k(0, 20, SLOW, d=1), resp_k(1, 21, FAST, d=1)]
with Conn("Alice", ex, epr_sockets=[sock]) as conn:
    try:
        qs, infos = sock.recv_rsp_with_info(number=1, min_fidelity_all_at_end=80, max_tries=3)
        conn.flush()
        check("R recv: responses consumed", ex.delivered, 2)
        check("R recv: duration read by the handle", infos[0].generation_duration.value, FAST)
        check("R recv: physical qubit behind the handle", infos[0].qubit_id.value, 21)
        check("R recv: requests still queued in the executor", sum(len(v) for v in ex._epr_recv_requests.values()), 0)
        qs[0].measure()
    except Exception as exc:  # pragma: no cover
        check("R recv: ran without error", repr(exc)[:120], "no exception")

if failures:
    print(f"\nVIOLATION: {len(failures)} checks failed: {failures}")
    sys.exit(1)
print("\nall good")
