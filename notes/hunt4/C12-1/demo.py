"""C12 demo 1: an EPR request is tied to the *subroutine* that issued it.

Once that subroutine has run to its end, every response that reaches the request
raises "Unknown subroutine"; a keep request is then never retired and swallows
all later responses of its queue, so a later, perfectly valid request of a
subroutine that is still running never gets its pair.

Only instruction steps and response deliveries are used (1 application, 2
outstanding requests of 1 pair each, receive role, keep type; then create role,
measure type).
"""
import logging
import sys

from netqasm.backend.executor import Executor
from netqasm.backend.network_stack import BaseNetworkStack
from netqasm.lang.parsing import parse_text_subroutine
from netqasm.qlink_compat import LinkLayerOKTypeK, LinkLayerOKTypeM, ReturnType
from netqasm.sdk.shared_memory import SharedMemoryManager

logging.disable(logging.CRITICAL)


class Stack(BaseNetworkStack):
    def put(self, request):
        pass

    def setup_epr_socket(self, epr_socket_id, remote_node_id, remote_epr_socket_id, timeout=1.0):
        return None

    def get_purpose_id(self, remote_node_id, epr_socket_id):
        return epr_socket_id


class Exec(Executor):
    """Smallest usable controller: the two documented hooks of the base class."""

    @property
    def node_id(self):
        return 0

    def _wait_to_handle_epr_responses(self):
        # "can be subclassed to sleep a little before handling again": the driver below
        # calls _handle_pending_epr_responses() after every step instead
        pass

    def _do_wait(self):
        yield "waiting"


def sub(text):
    return parse_text_subroutine("# NETQASM 1.0\n# APPID 0\n" + text)


def ok_k(seq, phys):
    return LinkLayerOKTypeK(
        type=ReturnType.OK_K, create_id=seq, logical_qubit_id=phys, directionality_flag=1,
        sequence_number=seq, purpose_id=0, remote_node_id=1, goodness=0, goodness_time=0, bell_state=0,
    )


def ok_m(seq):
    return LinkLayerOKTypeM(
        type=ReturnType.OK_M, create_id=seq, measurement_outcome=1, measurement_basis=0,
        directionality_flag=0, sequence_number=seq, purpose_id=0, remote_node_id=1, goodness=0, bell_state=0,
    )


def deliver(ex, response, problems, what):
    try:
        ex._handle_epr_response(response)
    except Exception as exc:  # what the network stack would get thrown at it
        problems.append(f"delivering {what} raised {type(exc).__name__}: {str(exc).splitlines()[0]}")


def run_until_blocked(ex, gen, max_steps=50):
    """Step a subroutine; returns True when it has finished."""
    for _ in range(max_steps):
        try:
            next(gen)
        except StopIteration:
            return True
        ex._handle_pending_epr_responses()
    return False


def part_keep():
    problems = []
    SharedMemoryManager.reset_memories()
    ex = Exec(name="node0")
    ex.network_stack = Stack()
    ex.init_new_application(app_id=0, max_qubits=3)

    # Subroutine A: asks for one pair on socket 0 (virtual qubit 1, results in @0) and ends.
    sub_a = sub("""
    array 10 @0
    array 1 @1
    store 1 @1[0]
    recv_epr(1,0) 1 0
    """)
    # Subroutine B: asks for one pair on the same socket (virtual qubit 0, results in @2), waits for it.
    sub_b = sub("""
    array 10 @2
    array 1 @3
    store 0 @3[0]
    recv_epr(1,0) 3 2
    wait_all @2[0:10]
    ret_arr @2
    """)
    assert run_until_blocked(ex, ex.execute_subroutine(sub_a)), "A has no wait, it must finish"
    gen_b = ex.execute_subroutine(sub_b)
    assert not run_until_blocked(ex, gen_b, 5), "B must be waiting for its pair"

    deliver(ex, ok_k(seq=11, phys=5), problems, "pair #1 (for A's request)")
    ex._handle_pending_epr_responses()
    deliver(ex, ok_k(seq=12, phys=6), problems, "pair #2 (for B's request)")
    ex._handle_pending_epr_responses()
    b_finished = run_until_blocked(ex, gen_b)

    arr_a = ex._app_arrays[0]._arrays[0]
    arr_b = ex._app_arrays[0]._arrays[2]
    unit_module = ex._qubit_unit_modules[0]
    queue = ex._epr_recv_requests[1, 0]
    print("[keep] result array of A   :", arr_a)
    print("[keep] result array of B   :", arr_b)
    print("[keep] unit module         :", unit_module)
    print("[keep] requests still queued:", [(r.subroutine_id, r.pairs_left) for r in queue])
    print("[keep] B finished its wait :", b_finished)
    if arr_a[4] != 11:
        problems.append(f"pair #1 should fill slice 0 of A's result array (sequence number 11), array is {arr_a}")
    if arr_b[4] != 12:
        problems.append(f"pair #2 should fill slice 0 of B's result array (sequence number 12), array is {arr_b}")
    if unit_module[:2] != [6, 5]:
        problems.append(f"virtual qubits 0 and 1 should be mapped to physical 6 and 5, unit module is {unit_module}")
    if queue:
        problems.append(f"both requests got their one pair and should be retired, queue still has {len(queue)} request(s)")
    if not b_finished:
        problems.append("B's wait_all never resumes although its pair was delivered")
    return problems


def part_measure():
    problems = []
    SharedMemoryManager.reset_memories()
    ex = Exec(name="node0")
    ex.network_stack = Stack()
    ex.init_new_application(app_id=0, max_qubits=3)
    # Subroutine A issues a measure-directly create request and ends,
    # subroutine B (same application) waits for the result.
    sub_a = sub("""
    array 10 @0
    array 20 @2
    store 1 @2[0]
    store 1 @2[1]
    set R10 1
    set R11 0
    set R12 2
    set R13 0
    create_epr R10 R11 C0 R12 R13
    """)
    sub_b = sub("""
    wait_all @0[0:10]
    ret_arr @0
    """)
    assert run_until_blocked(ex, ex.execute_subroutine(sub_a))
    gen_b = ex.execute_subroutine(sub_b)
    assert not run_until_blocked(ex, gen_b, 5)
    deliver(ex, ok_m(seq=21), problems, "the measured pair")
    b_finished = run_until_blocked(ex, gen_b)
    arr = ex._app_arrays[0]._arrays[0]
    print("[measure] result array      :", arr)
    print("[measure] request queue     :", ex._epr_create_requests[1, 0], " pending:", ex._pending_epr_responses)
    print("[measure] B finished its wait:", b_finished)
    if arr[5] != 21:  # OK_M: sequence number is field 5
        problems.append(f"the response was consumed and the request retired, but slice 0 of the result array is {arr}")
    if not b_finished:
        problems.append("the wait_all of the second subroutine never resumes")
    return problems


if __name__ == "__main__":
    problems = part_keep() + part_measure()
    print()
    print("EXPECTED: each response is consumed by the oldest outstanding request of its queue, fills slice 0 of")
    print("          that request's result array, maps its virtual qubit, the request is retired, the waits resume.")
    if problems:
        print("OBSERVED:")
        for p in problems:
            print("  -", p)
        sys.exit(1)
    print("OBSERVED: as expected")
    sys.exit(0)
