"""C18 / finding 1: the finalizer of a socket whose connect timed out tears down the
socket that replaced it under the same key.

Alice starts first with a connect timeout, the timeout expires, and she retries (inside her
``except TimeoutError`` handler) without a timeout.  Bob starts later.  The retry socket and
Bob's socket find each other.  Alice then sends one message, Bob receives it.

Expected: Bob receives "hello" exactly once.
"""
import sys
import threading
import time

from netqasm.sdk.classical_communication.thread_socket import ThreadSocket, reset_socket_hub

reset_socket_hub()
out = {}


def alice():
    try:
        sock = ThreadSocket("alice", "bob", timeout=0.25)
    except TimeoutError:
        # bob is not up yet: try again, this time wait as long as it takes
        sock = ThreadSocket("alice", "bob")
        out["alice connected inside handler"] = sock.connected
    # <- leaving the handler releases the traceback, and with it the first (failed) socket
    out["alice connected after handler"] = sock.connected
    try:
        sock.send("hello")
        out["alice send"] = "ok"
    except Exception as exc:  # noqa
        out["alice send"] = repr(exc)
    time.sleep(1.0)  # keep the socket open while bob receives


def bob():
    time.sleep(0.7)  # bob starts later than alice's timeout
    sock = ThreadSocket("bob", "alice")
    try:
        out["bob recv"] = sock.recv(timeout=1.5)
    except Exception as exc:  # noqa
        out["bob recv"] = repr(exc)


threads = [threading.Thread(target=f, daemon=True) for f in (alice, bob)]
[t.start() for t in threads]
[t.join(10) for t in threads]

for k, v in out.items():
    print(f"{k:34s}: {v}")

ok = out.get("alice send") == "ok" and out.get("bob recv") == "hello"
print()
print("expected: alice's retry socket stays connected, send succeeds, bob receives 'hello'")
if ok:
    print("happened: exactly that")
    sys.exit(0)
print("happened: the first, timed-out socket object was finalized after the retry socket had")
print("          connected; its __del__ -> hub.disconnect() removed the key ('alice','bob',0)")
print("          of the *retry* socket from the open sockets, so the message is never delivered")
sys.exit(1)
