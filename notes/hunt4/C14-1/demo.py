"""C14 / finding 1: conn.loop_body(..., loop_register=R) silently shares a register that
an enclosing operation is still using as its loop counter.

Expected: the body of the inner loop runs len(array) * inner_stop times (or the SDK
refuses the explicit register loudly, as conn.loop(..., loop_register=R) does).
Actual: the inner loop is compiled onto the counter of the enclosing foreach, the
enclosing counter is overwritten and the program runs the body a wrong number of times.
"""
import logging
import sys

from netqasm.lang.ir import BranchLabel, GenericInstr, ICmd
from netqasm.lang.operand import Label, Register
from netqasm.sdk.connection import DebugConnection
from netqasm.sdk.qubit import Qubit

logging.disable(logging.CRITICAL)

OUTER = 3  # length of the array that is iterated with foreach
INNER = 2  # iterations of the inner loop


def run_classical(cmds, max_steps=100000):
    """Tiny reference interpreter for the classical control flow of a ProtoSubroutine.
    Returns how often a qubit is allocated (= how often the inner body ran)."""
    labels = {c.name: i for i, c in enumerate(cmds) if isinstance(c, BranchLabel)}
    regs = {}

    def val(x):
        return regs.get(str(x), 0) if isinstance(x, Register) else int(x)

    pc = steps = qallocs = 0
    while pc < len(cmds):
        steps += 1
        if steps > max_steps:
            return None  # does not terminate
        c = cmds[pc]
        pc += 1
        if not isinstance(c, ICmd):
            continue
        ins, ops = c.instruction, c.operands
        if ins == GenericInstr.SET:
            regs[str(ops[0])] = val(ops[1])
        elif ins == GenericInstr.ADD:
            regs[str(ops[0])] = val(ops[1]) + val(ops[2])
        elif ins == GenericInstr.BEQ:
            if val(ops[0]) == val(ops[1]):
                pc = labels[ops[2].name]
        elif ins == GenericInstr.JMP:
            pc = labels[ops[0].name]
        elif ins == GenericInstr.QALLOC:
            qallocs += 1
    return qallocs


def build():
    with DebugConnection("Alice") as conn:
        arr = conn.new_array(OUTER, init_values=[1, 2, 3])

        def inner_body(c, _):
            q = Qubit(c)
            q.measure()

        with arr.foreach():  # counter chosen automatically (first free register: R0)
            # old callback API with an explicit register, as in
            # tests/test_external/test_sdk/test_measure_loop.py (loop_register="R0")
            conn.loop_body(inner_body, INNER, loop_register="R0")
        active_after = sorted(str(r) for r in conn.builder._mem_mgr._active_registers)
        proto = conn.builder.subrt_pop_pending_subroutine()
    return proto, active_after


def main():
    try:
        proto, active_after = build()
    except ValueError as e:
        # a loud refusal of the register that is in use would be fine
        print("explicit register refused loudly:", e)
        return 0
    print(proto)
    got = run_classical(proto.commands)
    expected = OUTER * INNER
    print(f"expected executions of the inner body: {expected}")
    print(f"executions according to the compiled control flow: {got}")

    # independent static evidence: which counters are written inside their own loop
    cmds = proto.commands
    bad = []
    for i, c in enumerate(cmds):
        if isinstance(c, BranchLabel) and c.name.startswith("LOOP") and "EXIT" not in c.name:
            beq = cmds[i + 1]
            counter = str(beq.operands[0])
            end = next(
                j for j, d in enumerate(cmds)
                if isinstance(d, BranchLabel) and d.name == beq.operands[2].name
            )
            for k in range(i + 2, end - 2):
                d = cmds[k]
                if (
                    isinstance(d, ICmd)
                    and d.instruction in (GenericInstr.SET, GenericInstr.ADD, GenericInstr.LOAD)
                    and str(d.operands[0]) == counter
                ):
                    bad.append(f"loop {c.name}: counter {counter} overwritten in its body by '{d}'")
    for b in bad:
        print("VIOLATION:", b)
    if got != expected or bad:
        print("FAIL: the inner loop was compiled onto the live counter of the enclosing foreach")
        return 1
    print("OK")
    return 0


if __name__ == "__main__":
    sys.exit(main())
