"""C13 finding 2: stop_application keeps the application's pending EPR requests (and failed subroutines).

Part A (silent): app 0 asks for a pair into virtual qubit 1, its subroutine then fails, the host stops
  app 0 and registers app ID 0 again.  The pair that was requested by the OLD application arrives.
  Expected: the new application is untouched (unit module [None, None], nothing in use).
Part B (loud, but permanent): app 0 asks for two pairs and waits for the first only, finishes, is stopped.
  App 1 then asks for one pair on the same socket and waits.
  Expected: the next delivery goes to app 1 (its virtual qubit 0 gets mapped, its wait ends).
"""
import sys

from netqasm.backend.executor import Executor
from netqasm.backend.network_stack import BaseNetworkStack
from netqasm.lang.parsing import parse_text_subroutine
from netqasm.qlink_compat import LinkLayerOKTypeK, ReturnType
from netqasm.sdk.shared_memory import SharedMemoryManager


class Stack(BaseNetworkStack):
    def put(self, request):
        pass

    def setup_epr_socket(self, epr_socket_id, remote_node_id, remote_epr_socket_id, timeout=1.0):
        return None

    def get_purpose_id(self, remote_node_id, epr_socket_id):
        return epr_socket_id


class Exec(Executor):
    @property
    def node_id(self):
        return 0

    def _do_wait(self):
        yield "waiting"

    def _wait_to_handle_epr_responses(self):
        pass


def new_executor(name):
    SharedMemoryManager.reset_memories()
    e = Exec(name=name)
    e.network_stack = Stack()
    return e


def recv(app_id, virtual_ids, wait_pairs, tail=""):
    n = len(virtual_ids)
    stores = "".join(f"set R5 {v}\nset R6 {i}\nstore R5 @1[R6]\n" for i, v in enumerate(virtual_ids))
    wait = f"set R5 0\nset R6 {10 * wait_pairs}\nwait_all @0[R5:R6]\n" if wait_pairs else ""
    return parse_text_subroutine(
        f"# NETQASM 1.0\n# APPID {app_id}\nset R5 {10 * n}\narray R5 @0\nset R5 {n}\narray R5 @1\n{stores}"
        f"set R5 1\nset R6 0\nset R7 1\nset R8 0\nrecv_epr R5 R6 R7 R8\n{wait}{tail}"
    )


def pair(phys):
    return LinkLayerOKTypeK(
        type=ReturnType.OK_K, logical_qubit_id=phys, directionality_flag=1, purpose_id=0, remote_node_id=1
    )


failures = []

# ---------------------------------------------------------------- part A
e = new_executor("A")
e.init_new_application(0, 2)
try:
    # request a pair into virtual qubit 1, then fail (double qalloc) before the pair is there
    list(e.execute_subroutine(recv(0, [1], wait_pairs=0, tail="set Q0 0\nqalloc Q0\nqalloc Q0\n")))
except RuntimeError as exc:
    print("A: subroutine of the first app 0 failed:", str(exc).splitlines()[0])
list(e.stop_application(0))
print("A: app 0 stopped; unit modules:", e._qubit_unit_modules, "in use:", e._used_physical_qubit_addresses)

e.init_new_application(0, 2)  # the ID is registered again: a fresh application
# ... which keeps ten values of its own in an array @0
own = "set R0 10\narray R0 @0\n" + "".join(f"set R0 {40 + i}\nstore R0 @0[{i}]\n" for i in range(10))
list(e.execute_subroutine(parse_text_subroutine("# NETQASM 1.0\n# APPID 0\n" + own)))
own_array = list(e._app_arrays[0]._get_array(0))
try:
    e._handle_epr_response(pair(5))  # the pair the OLD application asked for
except Exception as exc:
    print("A: delivery raised", type(exc).__name__, str(exc).splitlines()[0])
um = e._qubit_unit_modules[0]
print(f"A: unit module of the NEW app 0 = {um} (expected [None, None]); in use = {e._used_physical_qubit_addresses}")
now_array = list(e._app_arrays[0]._get_array(0))
print(f"A: array @0 of the NEW app 0 = {now_array} (expected {own_array})")
if now_array != own_array:
    failures.append(f"A: array @0 of the new application was overwritten: {own_array} -> {now_array}")
if um != [None, None]:
    failures.append(
        f"A: the new application 0 never asked for a qubit but its unit module is {um} "
        f"(request of the stopped application was served into it)"
    )
try:
    list(e.execute_subroutine(parse_text_subroutine("# NETQASM 1.0\n# APPID 0\nset Q0 1\nqalloc Q0\n")))
except RuntimeError as exc:
    msg = str(exc).splitlines()[0]
    print("A: new app 0 'qalloc 1' ->", msg)
    failures.append(f"A: first qalloc of virtual qubit 1 by the new application fails: {msg}")

# ---------------------------------------------------------------- part B
e = new_executor("B")
e.init_new_application(0, 2)
g = e.execute_subroutine(recv(0, [0, 1], wait_pairs=1))
assert next(g) == "waiting"
e._handle_epr_response(pair(0))
assert list(g) == []  # first pair is there, subroutine finished normally
list(e.stop_application(0))
stale = {k: len(v) for k, v in e._epr_recv_requests.items() if v}
print("B: app 0 finished and stopped; pending recv requests left on the controller:", stale)

e.init_new_application(1, 2)
g = e.execute_subroutine(recv(1, [0], wait_pairs=1))
assert next(g) == "waiting"
for attempt in range(3):
    try:
        e._handle_epr_response(pair(1 + attempt))
    except Exception as exc:
        print(f"B: delivery {attempt} for app 1 raised {type(exc).__name__}: {str(exc).splitlines()[0]}")
    state = next(g, "finished")
    if state == "finished":
        break
um = e._qubit_unit_modules[1]
print(f"B: app 1 is {state}; unit module {um} (expected finished, [<phys>, None])")
if state != "finished" or um[0] is None:
    failures.append(
        "B: every delivery for app 1 is matched to the request of the stopped app 0 and dropped "
        f"(app 1 still {state}, unit module {um}, stale requests {stale})"
    )
if stale:
    failures.append(f"B: stop_application(0) left pending EPR requests of app 0 behind: {stale}")

if failures:
    print("\nVIOLATION:")
    for f in failures:
        print(" -", f)
    sys.exit(1)
print("ok")
