"""C11 demo 3: R-type (remote state preparation) requests and responses do not cross the
qlink-interface 1.0 conversion of netqasm.qlink_compat.

  * request_to_qlink_1_0() converts K and M create requests but raises ValueError for the
    LinkLayerCreate the executor builds for create_rsp(), although qlink_interface defines
    ReqRemoteStatePrep with exactly the fields the request carries;
  * Executor._handle_epr_response() converts ResCreateAndKeep / ResMeasureDirectly / ResError
    but puts a ResRemoteStatePrep unconverted on the pending list, where `response.type` raises
    AttributeError - outside the try block that removes unhandleable responses, so the object
    stays pending and every later response of every application raises again.
"""
import logging
import sys

from netqasm.backend.executor import Executor
from netqasm.backend.messages import (
    InitNewAppMessage,
    OpenEPRSocketMessage,
    SubroutineMessage,
    deserialize_host_msg,
)
from netqasm.backend.network_stack import BaseNetworkStack
from netqasm.lang.parsing.binary import deserialize
from netqasm.qlink_compat import (
    Basis,
    BellState,
    LinkLayerOKTypeK,
    LinkLayerOKTypeM,
    ReturnType,
)
from netqasm.sdk.connection import (
    BaseNetQASMConnection,
    DebugConnection,
    DebugNetworkInfo,
)
from netqasm.sdk.epr_socket import EPRSocket
from netqasm.sdk.shared_memory import SharedMemoryManager

logging.disable(logging.WARNING)

PURPOSE = 103


class Stack(BaseNetworkStack):
    def __init__(self):
        self.requests = []

    def put(self, request):
        self.requests.append(request)

    def setup_epr_socket(self, epr_socket_id, remote_node_id, remote_epr_socket_id, timeout=1.0):
        pass

    def get_purpose_id(self, remote_node_id, epr_socket_id):
        return PURPOSE


class Exec(Executor):
    """Executor on node 0.  Every time a subroutine has to wait, the network stack
    delivers the next scripted response (one response per outstanding pair, in order)."""

    def __init__(self):
        super().__init__(name="Alice")
        self.responses = []
        self.delivered = 0

    @property
    def node_id(self):
        return 0

    def _wait_to_handle_epr_responses(self):
        return  # nothing to sleep on in this single-threaded demo

    def _do_wait(self):
        if not self.responses:
            raise RuntimeError("subroutine waits but the stack has nothing more to deliver")
        self.delivered += 1
        self._handle_epr_response(self.responses.pop(0))


class Conn(BaseNetQASMConnection):
    def __init__(self, app_name, executor, **kwargs):
        self.executor = executor
        super().__init__(app_name, node_name="Alice", **kwargs)

    def _commit_serialized_message(self, raw_msg, block=True, callback=None):
        msg = deserialize_host_msg(raw_msg)
        if isinstance(msg, InitNewAppMessage):
            self.executor.init_new_application(msg.app_id, msg.max_qubits)
        elif isinstance(msg, OpenEPRSocketMessage):
            list(self.executor.setup_epr_socket(msg.epr_socket_id, msg.remote_node_id, msg.remote_epr_socket_id))
        elif isinstance(msg, SubroutineMessage):
            self.executor.consume_execute_subroutine(deserialize(msg.subroutine))

    def _get_network_info(self):
        return DebugNetworkInfo


def fresh():
    SharedMemoryManager.reset_memories()
    DebugConnection.node_ids = {"Alice": 0, "Bob": 1}
    ex = Exec()
    ex.network_stack = Stack()
    return ex


import qlink_interface as ql

from netqasm.qlink_compat import RandomBasis, TimeUnit, request_to_qlink_1_0

failures = []


def check(label, got, want):
    ok = got == want
    print(f"  {'ok  ' if ok else 'FAIL'} {label}:\n        expected {want}\n        got      {got}")
    if not ok:
        failures.append(label)


def convert(request):
    try:
        return request_to_qlink_1_0(request)
    except Exception as exc:
        return f"{type(exc).__name__}: {str(exc)[:60]}..."


class QlinkStack(Stack):
    """A network stack that speaks qlink-interface 1.0 (as e.g. a netsquid-magic based stack does):
    every request is converted on entry."""

    def __init__(self):
        super().__init__()
        self.converted = []

    def put(self, request):
        super().put(request)
        self.converted.append(convert(request))


def fresh3():
    SharedMemoryManager.reset_memories()
    DebugConnection.node_ids = {"Alice": 0, "Bob": 1}
    ex = Exec()
    ex.network_stack = QlinkStack()
    return ex


# ---- requests: K and M (control) and R -------------------------------------------------
print("requests in the form of qlink-interface 1.0")
ex = fresh3()
sock = EPRSocket("Bob", epr_socket_id=3)
ex.responses = [
    LinkLayerOKTypeK(ReturnType.OK_K, 9, 20, 0, 0, PURPOSE, 1, 10, 0, BellState.PHI_PLUS),
    LinkLayerOKTypeM(ReturnType.OK_M, 9, 1, Basis.Z, 0, 1, PURPOSE, 1, 10, BellState.PHI_PLUS),
    LinkLayerOKTypeM(ReturnType.OK_M, 9, 1, Basis.Z, 0, 2, PURPOSE, 1, 10, BellState.PHI_PLUS),
]
with Conn("Alice", ex, epr_sockets=[sock]) as conn:
    q = sock.create_keep(number=1, max_time=5, time_unit=TimeUnit.MILLI_SECONDS)[0]
    sock.create_measure(number=1, rotations_local=(1, 2, 3), rotations_remote=(4, 5, 6), random_basis_local=RandomBasis.XZ)
    sock.create_rsp(number=1, max_time=7, time_unit=TimeUnit.SECONDS, rotations_local=(1, 2, 3), random_basis_local=RandomBasis.CHSH)
    conn.flush()
    q.measure()
k, m, r = ex.network_stack.converted
check("K request", k, ql.ReqCreateAndKeep(remote_node_id=1, purpose_id=PURPOSE, number=1, time_unit=1, max_time=5))
check(
    "M request",
    m,
    ql.ReqMeasureDirectly(
        remote_node_id=1, purpose_id=PURPOSE, number=1, random_basis_local=ql.RandomBasis.XZ,
        x_rotation_angle_local_1=1, y_rotation_angle_local=2, x_rotation_angle_local_2=3,
        x_rotation_angle_remote_1=4, y_rotation_angle_remote=5, x_rotation_angle_remote_2=6,
    ),
)
check(
    "R request",
    r,
    ql.ReqRemoteStatePrep(
        remote_node_id=1, purpose_id=PURPOSE, number=1, time_unit=2, max_time=7,
        random_basis_local=ql.RandomBasis.CHSH,
        x_rotation_angle_local_1=1, y_rotation_angle_local=2, x_rotation_angle_local_2=3,
    ),
)

# ---- responses: the R-type response of qlink-interface 1.0 ---------------------------
print("create_rsp answered by a qlink-interface 1.0 ResRemoteStatePrep; then create_measure answered by a ResMeasureDirectly")
ex = fresh3()
sock = EPRSocket("Bob", epr_socket_id=3)
ex.responses = [
    ql.ResRemoteStatePrep(create_id=9, directionality_flag=0, sequence_number=0, purpose_id=PURPOSE, remote_node_id=1,
                          goodness=42, bell_state=ql.BellState.PSI_PLUS, measurement_outcome=1,
                          measurement_basis=ql.MeasurementBasis.X),
]
with Conn("Alice", ex, epr_sockets=[sock]) as conn:
    res = sock.create_rsp(number=1)[0]
    try:
        conn.flush()
        got = (res.raw_measurement_outcome.value, res.generation_duration.value, res.remote_node_id.value, res.bell_state)
    except Exception as exc:
        got = f"{type(exc).__name__}: {str(exc).splitlines()[0][:80]}"
    check("R response: (outcome, duration, remote node, Bell state) read by the handle", got, (1, 42, 1, BellState.PSI_PLUS))

    # The application carries on with an ordinary M-type request on the same executor.
    ex.responses = [
        ql.ResMeasureDirectly(create_id=10, directionality_flag=0, sequence_number=1, purpose_id=PURPOSE, remote_node_id=1,
                              goodness=43, bell_state=ql.BellState.PHI_MINUS, measurement_outcome=1,
                              measurement_basis=ql.MeasurementBasis.Z),
    ]
    # (drop what the failed request left behind in the request queue, so that only the response list matters)
    ex._epr_create_requests.clear()
    res2 = sock.create_measure(number=1)[0]
    try:
        conn.flush()
        got = (res2.raw_measurement_outcome.value, res2.generation_duration.value, res2.bell_state)
    except Exception as exc:
        got = f"{type(exc).__name__}: {str(exc).splitlines()[0][:80]}"
    check("following M response: (outcome, duration, Bell state) read by the handle", got, (1, 43, BellState.PHI_MINUS))

if failures:
    print(f"\nVIOLATION: {len(failures)} checks failed: {failures}")
    sys.exit(1)
print("\nall good")
