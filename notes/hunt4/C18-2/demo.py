"""C18 / finding 2: a rendezvous mark is left behind in the hub after one side reconnected,
and the next time the two endpoints start, the one that starts first does not wait for the other.

History (one socket id, two endpoints, everything closed properly):
  1. alice#1 and bob#1 connect.
  2. alice#1 closes, alice#2 opens (alice reconnects while bob keeps his socket);
     alice#2 and bob#1 are connected and exchange a message in each direction.
  3. bob#1 closes, alice#2 closes.            -> nobody is open any more
  4. bob#3 starts FIRST and sends "x" as soon as his constructor returns;
     alice#3 starts 0.5 s later and receives.

Expected: bob#3's constructor waits until alice#3 exists (as it does on a fresh hub), the send
succeeds and alice#3 receives "x".
"""
import sys
import threading
import time

from netqasm.sdk.classical_communication.thread_socket import ThreadSocket, reset_socket_hub
from netqasm.sdk.classical_communication.thread_socket.socket_hub import _socket_hub

reset_socket_hub()
socks = {}


def open_(name, me, other):
    socks[name] = ThreadSocket(me, other)


# 1. alice#1 <-> bob#1
ts = [
    threading.Thread(target=open_, args=("alice1", "alice", "bob"), daemon=True),
    threading.Thread(target=open_, args=("bob1", "bob", "alice"), daemon=True),
]
[t.start() for t in ts]
[t.join(10) for t in ts]
assert socks["alice1"].connected and socks["bob1"].connected
# 2. alice reconnects
del socks["alice1"]
open_("alice2", "alice", "bob")  # returns at once: bob#1 is open
assert socks["alice2"].connected
# alice#2 and bob#1 really are each other's partner: messages flow both ways
socks["alice2"].send("to bob#1")
assert socks["bob1"].recv(block=False) == "to bob#1"
socks["bob1"].send("to alice#2")
assert socks["alice2"].recv(block=False) == "to alice#2"
# 3. both close
del socks["bob1"]
del socks["alice2"]
print("after everybody closed: open sockets =", _socket_hub._open_sockets)
print("                        rendezvous marks =", _socket_hub._remote_sockets)

# 4. next run, bob first
out = {}


def bob():
    t0 = time.time()
    sock = ThreadSocket("bob", "alice")
    out["bob constructor returned after"] = f"{time.time() - t0:.3f} s"
    out["bob connected"] = sock.connected
    try:
        sock.send("x")
        out["bob send"] = "ok"
    except Exception as exc:  # noqa
        out["bob send"] = repr(exc)
    time.sleep(1.5)


def alice():
    time.sleep(0.5)
    sock = ThreadSocket("alice", "bob")
    try:
        out["alice recv"] = sock.recv(timeout=1.0)
    except Exception as exc:  # noqa
        out["alice recv"] = repr(exc)


ts = [threading.Thread(target=f, daemon=True) for f in (bob, alice)]
[t.start() for t in ts]
[t.join(10) for t in ts]
for k, v in out.items():
    print(f"{k:32s}: {v}")

print()
print("expected: bob waits ~0.5 s for alice, bob send ok, alice receives 'x'")
if out.get("bob send") == "ok" and out.get("alice recv") == "x":
    print("happened: exactly that")
    sys.exit(0)
print("happened: bob's constructor returned immediately because of the stale mark of alice#2")
print("          ('connection was successful but closed again'), although no alice socket of this")
print("          run existed yet; his send is refused and alice never gets the message")
sys.exit(1)
