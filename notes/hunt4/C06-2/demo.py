"""C06 finding 2: a pre-compiled subroutine can be filled in only once.

`Subroutine.instantiate` overwrites the templated instructions with the concrete ones, so the
Template operands are gone after the first call.  Filling the same pre-compiled subroutine
with new values and committing it again silently re-sends the FIRST values.

  template : q.rot_Z(n=Template("a"), d=4); s = conn.compile()
             s.instantiate(app_id, {"a": 1}); conn.commit_subroutine(s)
             s.instantiate(app_id, {"a": 2}); conn.commit_subroutine(s)
  direct   : q.rot_Z(n=1, d=4); conn.flush(); q.rot_Z(n=2, d=4); conn.flush()

Expected (property C06): the controller receives the same messages in both cases.
"""
import sys

from netqasm.backend.messages import deserialize_host_msg
from netqasm.lang.operand import Template
from netqasm.lang.parsing import deserialize
from netqasm.sdk.connection import DebugConnection
from netqasm.sdk.qubit import Qubit
from netqasm.sdk.transpile import NVSubroutineTranspiler
from netqasm.lang.instr.flavour import NVFlavour


def run(name, templated, values, compiler):
    conn = DebugConnection(name, app_id=0, compiler=compiler)
    q = Qubit(conn)
    conn.flush()
    if templated:
        q.rot_Z(n=Template("a"), d=4)
        subroutine = conn.compile()
        for value in values:
            subroutine.instantiate(conn.app_id, {"a": value})
            conn.commit_subroutine(subroutine)
    else:
        for value in values:
            q.rot_Z(n=value, d=4)
            conn.flush()
    q.measure()
    conn.flush()
    return conn.storage


def text(raw, compiler):
    msg = deserialize_host_msg(raw)
    if not hasattr(msg, "subroutine"):
        return [str(msg)]
    flavour = NVFlavour() if compiler is not None else None
    sub = deserialize(msg.subroutine, flavour=flavour)
    return [str(instr) for instr in sub.instructions]


def main():
    failures = 0
    for compiler in [None, NVSubroutineTranspiler]:
        tag = "nv" if compiler else "vanilla"
        direct = run(f"direct_{tag}", False, [1, 2], compiler)
        templated = run(f"templ_{tag}", True, [1, 2], compiler)
        if direct != templated:
            failures += 1
            print(f"[{tag}] messages differ")
            for i, (d, t) in enumerate(zip(direct, templated)):
                if d != t:
                    print(f"  message {i}: expected {text(d, compiler)}")
                    print(f"  message {i}: happened {text(t, compiler)}")
    if failures:
        print("FAIL: the second instantiate() was silently ignored")
        return 1
    print("OK")
    return 0


if __name__ == "__main__":
    sys.exit(main())
