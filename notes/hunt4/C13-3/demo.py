"""C13 finding 3: negative virtual qubit addresses are accepted and alias the qubits at the end of the unit module.

App 0 has a unit module of 2 qubits (valid virtual addresses 0 and 1).
  `set Q0 -1; qalloc Q0`   (the text and the binary format both carry -1 unchanged)
Expected: refused like `qalloc 2` is ("outside the unit module"), nothing mapped.
"""
import sys

from netqasm.backend.executor import Executor
from netqasm.lang.parsing import deserialize, parse_text_subroutine
from netqasm.sdk.shared_memory import SharedMemoryManager


class Exec(Executor):
    @property
    def node_id(self):
        return 0


def run(e, body, binary=False):
    subroutine = parse_text_subroutine("# NETQASM 1.0\n# APPID 0\n" + body)
    if binary:
        subroutine = deserialize(bytes(subroutine))
    try:
        list(e.execute_subroutine(subroutine))
        return None
    except Exception as exc:
        return f"{type(exc).__name__}: {str(exc).splitlines()[0]}"


failures = []
SharedMemoryManager.reset_memories()
e = Exec(name="node")
e.init_new_application(0, 2)

print("qalloc 2  ->", run(e, "set Q0 2\nqalloc Q0\n"), "| unit module", e._qubit_unit_modules[0])

err = run(e, "set Q0 -1\nqalloc Q0\n", binary=True)
um = list(e._qubit_unit_modules[0])
print("qalloc -1 ->", err, "| unit module", um, "| in use", e._used_physical_qubit_addresses)
if err is None:
    failures.append(f"qalloc of virtual address -1 was accepted in a unit module of 2 qubits (unit module now {um})")

if err is None:
    # two different virtual addresses now resolve to one physical qubit
    p_neg = e._get_position(app_id=0, address=-1)
    p_one = e._get_position(app_id=0, address=1)
    print(f"physical qubit of virtual -1: {p_neg}; of virtual 1: {p_one}")
    if p_neg == p_one:
        failures.append(f"virtual qubits -1 and 1 of app 0 are both usable and map to the same physical qubit {p_one}")
    # the program never allocated virtual qubit 1, yet it is taken ...
    err1 = run(e, "set Q0 1\nqalloc Q0\n")
    print("qalloc 1  ->", err1)
    # ... the bookkeeping helpers disagree about the very same slot ...
    print("_has_virtual_address(-1) =", e._has_virtual_address(0, -1), "; _has_virtual_address(1) =", e._has_virtual_address(0, 1))
    if e._has_virtual_address(0, -1) != e._has_virtual_address(0, 1):
        failures.append("_has_virtual_address says -1 is free while the same slot (1) is in use: "
                        "a keep-response for virtual ID -1 is not made to wait but fails with 'already allocated'")
    # ... and freeing "1" releases the qubit allocated as "-1"
    err2 = run(e, "set Q0 1\nqfree Q0\n")
    print("qfree 1   ->", err2, "| unit module", e._qubit_unit_modules[0])

# the other direction: free through a negative address a qubit that was allocated regularly
run(e, "set Q0 1\nqalloc Q0\n")
before = list(e._qubit_unit_modules[0])
err3 = run(e, "set Q0 -1\nqfree Q0\n")
after = list(e._qubit_unit_modules[0])
print(f"qalloc 1; qfree -1 -> {err3} | unit module {before} -> {after}")
if err3 is None and before != after:
    failures.append(f"qfree of virtual address -1 released virtual qubit 1 (unit module {before} -> {after})")

if failures:
    print("\nVIOLATION:")
    for f in failures:
        print(" -", f)
    sys.exit(1)
print("ok")
