"""C12 demo 3 (low severity, regression of commit d58e32d): a measure-directly `recv_epr` is refused
with an AssertionError when the (unused) qubit-array operand register holds a number that is not the
address of an array.  The request is never queued, so its responses are never consumed.

For a measure request no virtual qubits exist; the SDK passes the constant register C0 as a dummy
operand (netqasm/sdk/builder.py, _build_cmds_epr_recv_measure) and the instruction logger treats
"operand is a C register" as the mark of a measure-directly request whatever its value.  `create_epr`
only looks at the operand for keep requests.  `recv_epr` looks at it whenever it is not None.
"""
import logging
import sys

from netqasm.backend.executor import Executor
from netqasm.backend.network_stack import BaseNetworkStack
from netqasm.lang.parsing import parse_text_subroutine
from netqasm.qlink_compat import LinkLayerOKTypeM, ReturnType
from netqasm.sdk.shared_memory import SharedMemoryManager

logging.disable(logging.CRITICAL)


class Stack(BaseNetworkStack):
    def put(self, request):
        pass

    def setup_epr_socket(self, epr_socket_id, remote_node_id, remote_epr_socket_id, timeout=1.0):
        return None

    def get_purpose_id(self, remote_node_id, epr_socket_id):
        return epr_socket_id


class Exec(Executor):
    @property
    def node_id(self):
        return 0

    def _wait_to_handle_epr_responses(self):
        pass

    def _do_wait(self):
        yield "waiting"


def run(c0_line):
    SharedMemoryManager.reset_memories()
    ex = Exec(name="node0")
    ex.network_stack = Stack()
    ex.init_new_application(app_id=0, max_qubits=1)
    subroutine = parse_text_subroutine(f"""# NETQASM 1.0
# APPID 0
{c0_line}
array 10 @0
set R0 1
set R1 0
set R3 0
recv_epr R0 R1 C0 R3
wait_all @0[0:10]
ret_arr @0
""")
    gen = ex.execute_subroutine(subroutine)
    try:
        assert next(gen) == "waiting"
        ex._handle_epr_response(
            LinkLayerOKTypeM(
                type=ReturnType.OK_M, create_id=1, measurement_outcome=1, measurement_basis=0, directionality_flag=1,
                sequence_number=9, purpose_id=0, remote_node_id=1, goodness=0, bell_state=0,
            )
        )
        for _ in range(5):
            next(gen)
    except StopIteration:
        return ex._app_arrays[0]._arrays[0], None
    except Exception as exc:
        return ex._app_arrays[0]._arrays[0], exc
    return ex._app_arrays[0]._arrays[0], "still waiting"


if __name__ == "__main__":
    arr, err = run("// C0 not set (what SDK-generated code looks like)")
    print("C0 unset :", arr, err)
    assert err is None and arr[5] == 9, "baseline must work"
    arr, err = run("set C0 7   // the program keeps a constant in C0")
    print("C0 = 7   :", arr, repr(err).splitlines()[0][:150] if err else None)
    print()
    print("EXPECTED: the measure request is queued, the OK_M response fills slice 0 of @0, wait_all resumes")
    if err is not None or arr[5] != 9:
        print("OBSERVED: recv_epr aborts the subroutine with", type(err).__name__ if not isinstance(err, str) else err,
              "- no request is queued and the response stays pending for ever")
        sys.exit(1)
    print("OBSERVED: as expected")
    sys.exit(0)
