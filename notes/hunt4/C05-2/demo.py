# ---------------------------------------------------------------------------------
# Minimal in-process "controller": an SDK connection whose messages are executed at
# once by netqasm.backend.executor.Executor. Gates and measurements are recorded,
# measurement outcomes are scripted.
# ---------------------------------------------------------------------------------
import sys

from netqasm.backend.executor import Executor
from netqasm.backend.messages import MessageType, deserialize_host_msg
from netqasm.lang.parsing import deserialize
from netqasm.sdk.connection import BaseNetQASMConnection, DebugNetworkInfo
from netqasm.sdk.qubit import Qubit
from netqasm.sdk.shared_memory import SharedMemoryManager


class RecExecutor(Executor):
    def __init__(self, outcomes, **kw):
        super().__init__(**kw)
        self.trace = []
        self.outcomes = list(outcomes)
        self.steps = 0

    def _execute_command(self, subroutine_id, command):
        self.steps += 1
        if self.steps > 100000:
            raise RuntimeError("step limit exceeded")
        return (yield from super()._execute_command(subroutine_id, command))

    def _do_single_qubit_instr(self, instr, subroutine_id, address):
        if instr.mnemonic != "init":
            self.trace.append((instr.mnemonic, address))
        return None

    def _do_meas(self, subroutine_id, q_address):
        outcome = self.outcomes.pop(0)
        self.trace.append(("meas", q_address, outcome))
        return outcome


class ExecConnection(BaseNetQASMConnection):
    _count = 0

    def __init__(self, outcomes=()):
        ExecConnection._count += 1
        name = f"node{ExecConnection._count}"
        self.executor = RecExecutor(outcomes=outcomes, name=name)
        self.subroutines = []
        super().__init__(app_name=name, node_name=name)

    def _get_network_info(self):
        return DebugNetworkInfo

    def _commit_serialized_message(self, raw_msg, block=True, callback=None):
        msg = deserialize_host_msg(raw_msg)
        if msg.TYPE == MessageType.INIT_NEW_APP:
            self.executor.init_new_application(
                app_id=msg.app_id, max_qubits=msg.max_qubits
            )
        elif msg.TYPE == MessageType.SUBROUTINE:
            subroutine = deserialize(msg.subroutine)
            self.subroutines.append(subroutine)
            self.executor.consume_execute_subroutine(subroutine)

    def ctrl_reg(self, reg):
        """Value of a register on the controller."""
        return self.executor._get_register(self.app_id, reg)

    def ctrl_array(self, address):
        """Contents of an array on the controller."""
        return list(self.executor._app_arrays[self.app_id]._get_array(address))


SharedMemoryManager.reset_memories()
failures = []


def check(what, expected, actual):
    ok = expected == actual
    print(f"{'ok  ' if ok else 'FAIL'} {what}\n       expected: {expected}\n       actual:   {actual}")
    if not ok:
        failures.append(what)

# ---------------------------------------------------------------------------------
# C05: "... split over any number of flushes, causes on the controller the same gate
# applications ... as executing that program directly", quantified over "every
# placement of flush points between top-level statements".
#
# Program (outcomes: first measurement 1, second measurement 0):
#
#     m1 = q1.measure(store_array=False)       # outcome in a register
#     [flush?]
#     m2 = q2.measure(store_array=False)       # outcome in a register
#     with m1.if_eq(1):  t.X()                 # direct execution: m1 == 1 -> X
#     with m2.if_eq(1):  t.Y()                 # direct execution: m2 == 0 -> no Y
#
# Without the flush the controller applies X.  With a flush after the first statement
# the second measurement is compiled to the *same* register M0 (the builder forgets at
# flush which M registers are still held by RegFuture handles), so `m1.if_eq(1)` tests
# the outcome of the second measurement and X is silently not applied.
# ---------------------------------------------------------------------------------


def program(flush_after_first: bool):
    conn = ExecConnection(outcomes=[1, 0])
    m1 = Qubit(conn).measure(store_array=False)
    if flush_after_first:
        conn.flush()
    m2 = Qubit(conn).measure(store_array=False)
    t = Qubit(conn)
    with m1.if_eq(1):
        t.X()
    with m2.if_eq(1):
        t.Y()
    conn.flush()
    gates = [e for e in conn.executor.trace if e[0] != "meas"]
    return conn, m1, m2, gates


# direct execution: m1 = 1, m2 = 0  ->  X on the target (virtual qubit 0), no Y
expected_gates = [("x", 0)]

conn, m1, m2, gates = program(flush_after_first=False)
print("registers used without flush:", m1.reg, m2.reg)
check("one subroutine: gates on the controller", expected_gates, gates)
check("one subroutine: host m1", 1, m1.value)
check("one subroutine: host m2", 0, m2.value)

conn, m1, m2, gates = program(flush_after_first=True)
print("registers used with a flush after the first statement:", m1.reg, m2.reg)
print(conn.subroutines[-1])
check("flush after first statement: gates on the controller", expected_gates, gates)
check("flush after first statement: host m1 (first outcome)", 1, m1.value)
check("flush after first statement: host m2 (second outcome)", 0, m2.value)

print("--- variant: the second measurement goes into an array (default measure())")
# M0 is then only the transit register of the second measurement (meas Q0 M0; store M0 @a[0]),
# but that is enough to overwrite the register-held first outcome.
conn = ExecConnection(outcomes=[1, 0])
m1 = Qubit(conn).measure(store_array=False)
conn.flush()
m2 = Qubit(conn).measure()
t = Qubit(conn)
with m1.if_eq(1):
    t.X()
conn.flush()
check("variant: gates on the controller", [("x", 0)], [e for e in conn.executor.trace if e[0] != "meas"])
check("variant: host m1 == controller register of m1", conn.ctrl_reg(m1.reg), m1.value)

if failures:
    print(f"\nVIOLATION: {failures}")
    sys.exit(1)
print("\nproperty holds")
