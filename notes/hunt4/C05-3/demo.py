# ---------------------------------------------------------------------------------
# Minimal in-process "controller": an SDK connection whose messages are executed at
# once by netqasm.backend.executor.Executor. Gates and measurements are recorded,
# measurement outcomes are scripted.
# ---------------------------------------------------------------------------------
import sys

from netqasm.backend.executor import Executor
from netqasm.backend.messages import MessageType, deserialize_host_msg
from netqasm.lang.parsing import deserialize
from netqasm.sdk.connection import BaseNetQASMConnection, DebugNetworkInfo
from netqasm.sdk.qubit import Qubit
from netqasm.sdk.shared_memory import SharedMemoryManager


class RecExecutor(Executor):
    def __init__(self, outcomes, **kw):
        super().__init__(**kw)
        self.trace = []
        self.outcomes = list(outcomes)
        self.steps = 0

    def _execute_command(self, subroutine_id, command):
        self.steps += 1
        if self.steps > 100000:
            raise RuntimeError("step limit exceeded")
        return (yield from super()._execute_command(subroutine_id, command))

    def _do_single_qubit_instr(self, instr, subroutine_id, address):
        if instr.mnemonic != "init":
            self.trace.append((instr.mnemonic, address))
        return None

    def _do_meas(self, subroutine_id, q_address):
        outcome = self.outcomes.pop(0)
        self.trace.append(("meas", q_address, outcome))
        return outcome


class ExecConnection(BaseNetQASMConnection):
    _count = 0

    def __init__(self, outcomes=()):
        ExecConnection._count += 1
        name = f"node{ExecConnection._count}"
        self.executor = RecExecutor(outcomes=outcomes, name=name)
        self.subroutines = []
        super().__init__(app_name=name, node_name=name)

    def _get_network_info(self):
        return DebugNetworkInfo

    def _commit_serialized_message(self, raw_msg, block=True, callback=None):
        msg = deserialize_host_msg(raw_msg)
        if msg.TYPE == MessageType.INIT_NEW_APP:
            self.executor.init_new_application(
                app_id=msg.app_id, max_qubits=msg.max_qubits
            )
        elif msg.TYPE == MessageType.SUBROUTINE:
            subroutine = deserialize(msg.subroutine)
            self.subroutines.append(subroutine)
            self.executor.consume_execute_subroutine(subroutine)

    def ctrl_reg(self, reg):
        """Value of a register on the controller."""
        return self.executor._get_register(self.app_id, reg)

    def ctrl_array(self, address):
        """Contents of an array on the controller."""
        return list(self.executor._app_arrays[self.app_id]._get_array(address))


SharedMemoryManager.reset_memories()
failures = []


def check(what, expected, actual):
    ok = expected == actual
    print(f"{'ok  ' if ok else 'FAIL'} {what}\n       expected: {expected}\n       actual:   {actual}")
    if not ok:
        failures.append(what)

# ---------------------------------------------------------------------------------
# C05: "... measurement into futures or registers), nested arbitrarily ..., causes on
# the controller the same gate applications, the same placement of measurement
# results ... as executing that program directly."
#
# Program: a register-held outcome `m` that is tested and then re-measured in a loop
#
#     m = q0.measure(store_array=False)
#     with conn.loop(3):
#         with m.if_eq(1):
#             t.X()
#         q = Qubit(conn)
#         q.measure(future=m)        # measure into the register that m stands for
#
# Direct execution with outcomes [0, 1, 1, 1]:
#     m=0 | it 0: no X, m=1 | it 1: X, m=1 | it 2: X, m=1      -> two X gates
#
# Qubit.measure(future=<RegFuture>) does not measure into the register the RegFuture
# is bound to: it takes a fresh M register and re-binds the handle at build time. The
# `if` that was built before (earlier in the loop body) keeps testing the old register
# M0, which the loop never changes.
# ---------------------------------------------------------------------------------

OUTCOMES = [0, 1, 1, 1]


def direct():
    """Direct execution of the host program."""
    outcomes = list(OUTCOMES)
    gates = []
    m = outcomes.pop(0)
    for _ in range(3):
        if m == 1:
            gates.append(("x", 0))
        m = outcomes.pop(0)
    return gates, m


conn = ExecConnection(outcomes=OUTCOMES)
q0 = Qubit(conn)
m = q0.measure(store_array=False)
reg_before = m.reg
t = Qubit(conn)  # virtual qubit 0 (q0 was measured and released)
with conn.loop(3):
    with m.if_eq(1):
        t.X()
    q = Qubit(conn)
    q.measure(future=m)
conn.flush()

print(conn.subroutines[-1])
print(f"register of m before the loop: {reg_before}, after building the loop: {m.reg}")

expected_gates, expected_m = direct()
gates = [e for e in conn.executor.trace if e[0] != "meas"]
check("gates applied on the controller", expected_gates, gates)
check("final value of m on the host", expected_m, m.value)
check(
    "register that the `if` tests holds the latest outcome after the loop",
    expected_m,
    conn.ctrl_reg(reg_before),
)

if failures:
    print(f"\nVIOLATION: {failures}")
    sys.exit(1)
print("\nproperty holds")
