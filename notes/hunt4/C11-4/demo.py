"""C11 demo 4: create_keep_with_info() accepts min_fidelity_all_at_end but cannot be given max_tries.

Every value other than None for `min_fidelity_all_at_end` therefore dies on the internal
`assert params.max_tries is not None` of Builder.sdk_create_epr_keep before any request is built;
the sibling calls (create_keep, recv_keep, recv_keep_with_info, create_rsp, recv_rsp*) all take
`max_tries` and work.
"""
import logging
import sys

from netqasm.backend.executor import Executor
from netqasm.backend.messages import (
    InitNewAppMessage,
    OpenEPRSocketMessage,
    SubroutineMessage,
    deserialize_host_msg,
)
from netqasm.backend.network_stack import BaseNetworkStack
from netqasm.lang.parsing.binary import deserialize
from netqasm.qlink_compat import (
    Basis,
    BellState,
    LinkLayerOKTypeK,
    LinkLayerOKTypeM,
    ReturnType,
)
from netqasm.sdk.connection import (
    BaseNetQASMConnection,
    DebugConnection,
    DebugNetworkInfo,
)
from netqasm.sdk.epr_socket import EPRSocket
from netqasm.sdk.shared_memory import SharedMemoryManager

logging.disable(logging.WARNING)

PURPOSE = 103


class Stack(BaseNetworkStack):
    def __init__(self):
        self.requests = []

    def put(self, request):
        self.requests.append(request)

    def setup_epr_socket(self, epr_socket_id, remote_node_id, remote_epr_socket_id, timeout=1.0):
        pass

    def get_purpose_id(self, remote_node_id, epr_socket_id):
        return PURPOSE


class Exec(Executor):
    """Executor on node 0.  Every time a subroutine has to wait, the network stack
    delivers the next scripted response (one response per outstanding pair, in order)."""

    def __init__(self):
        super().__init__(name="Alice")
        self.responses = []
        self.delivered = 0

    @property
    def node_id(self):
        return 0

    def _wait_to_handle_epr_responses(self):
        return  # nothing to sleep on in this single-threaded demo

    def _do_wait(self):
        if not self.responses:
            raise RuntimeError("subroutine waits but the stack has nothing more to deliver")
        self.delivered += 1
        self._handle_epr_response(self.responses.pop(0))


class Conn(BaseNetQASMConnection):
    def __init__(self, app_name, executor, **kwargs):
        self.executor = executor
        super().__init__(app_name, node_name="Alice", **kwargs)

    def _commit_serialized_message(self, raw_msg, block=True, callback=None):
        msg = deserialize_host_msg(raw_msg)
        if isinstance(msg, InitNewAppMessage):
            self.executor.init_new_application(msg.app_id, msg.max_qubits)
        elif isinstance(msg, OpenEPRSocketMessage):
            list(self.executor.setup_epr_socket(msg.epr_socket_id, msg.remote_node_id, msg.remote_epr_socket_id))
        elif isinstance(msg, SubroutineMessage):
            self.executor.consume_execute_subroutine(deserialize(msg.subroutine))

    def _get_network_info(self):
        return DebugNetworkInfo


def fresh():
    SharedMemoryManager.reset_memories()
    DebugConnection.node_ids = {"Alice": 0, "Bob": 1}
    ex = Exec()
    ex.network_stack = Stack()
    return ex


import inspect

failures = []


def check(label, got, want):
    ok = got == want
    print(f"  {'ok  ' if ok else 'FAIL'} {label}:\n        expected {want}\n        got      {got}")
    if not ok:
        failures.append(label)


def resp_k(seq, phys, duration, d):
    return LinkLayerOKTypeK(ReturnType.OK_K, 9, phys, d, seq, PURPOSE, 1, duration, 0, BellState.PHI_PLUS)


def run(call, d):
    """Attempt 1 is too slow for fidelity 80 (max 28_000), attempt 2 is fast enough."""
    ex = fresh()
    sock = EPRSocket("Bob", epr_socket_id=3)
    ex.responses = [resp_k(0, 20, 50_000, d), resp_k(1, 21, 100, d)]
    with Conn("Alice", ex, epr_sockets=[sock]) as conn:
        try:
            qubits, infos = call(sock)
            conn.flush()
            out = (len(ex.network_stack.requests), infos[0].qubit_id.value, infos[0].generation_duration.value)
            qubits[0].measure()
            return out
        except Exception as exc:
            tb = exc.__traceback__
            while tb.tb_next is not None:
                tb = tb.tb_next
            return f"{type(exc).__name__} raised in {tb.tb_frame.f_code.co_name}"


print("parameters of the two *_with_info calls:")
print("  recv_keep_with_info  :", list(inspect.signature(EPRSocket.recv_keep_with_info).parameters)[1:])
print("  create_keep_with_info:", list(inspect.signature(EPRSocket.create_keep_with_info).parameters)[1:])

check(
    "recv_keep_with_info(min_fidelity_all_at_end=80, max_tries=3): (requests put, physical qubit, duration)",
    run(lambda s: s.recv_keep_with_info(number=1, min_fidelity_all_at_end=80, max_tries=3), d=1),
    (0, 21, 100),
)
# If a repaired version lets the caller pass max_tries, use it.
extra = {"max_tries": 3} if "max_tries" in inspect.signature(EPRSocket.create_keep_with_info).parameters else {}
check(
    f"create_keep_with_info(min_fidelity_all_at_end=80{', max_tries=3' if extra else ''}): (requests put, physical qubit, duration)",
    run(lambda s: s.create_keep_with_info(number=1, min_fidelity_all_at_end=80, **extra), d=0),
    (2, 21, 100),
)

if failures:
    print(f"\nVIOLATION: {len(failures)} checks failed: {failures}")
    sys.exit(1)
print("\nall good")
