# ---------------------------------------------------------------------------------
# Minimal in-process "controller": an SDK connection whose messages are executed at
# once by netqasm.backend.executor.Executor. Gates and measurements are recorded,
# measurement outcomes are scripted.
# ---------------------------------------------------------------------------------
import sys

from netqasm.backend.executor import Executor
from netqasm.backend.messages import MessageType, deserialize_host_msg
from netqasm.lang.parsing import deserialize
from netqasm.sdk.connection import BaseNetQASMConnection, DebugNetworkInfo
from netqasm.sdk.qubit import Qubit
from netqasm.sdk.shared_memory import SharedMemoryManager


class RecExecutor(Executor):
    def __init__(self, outcomes, **kw):
        super().__init__(**kw)
        self.trace = []
        self.outcomes = list(outcomes)
        self.steps = 0

    def _execute_command(self, subroutine_id, command):
        self.steps += 1
        if self.steps > 100000:
            raise RuntimeError("step limit exceeded")
        return (yield from super()._execute_command(subroutine_id, command))

    def _do_single_qubit_instr(self, instr, subroutine_id, address):
        if instr.mnemonic != "init":
            self.trace.append((instr.mnemonic, address))
        return None

    def _do_meas(self, subroutine_id, q_address):
        outcome = self.outcomes.pop(0)
        self.trace.append(("meas", q_address, outcome))
        return outcome


class ExecConnection(BaseNetQASMConnection):
    _count = 0

    def __init__(self, outcomes=()):
        ExecConnection._count += 1
        name = f"node{ExecConnection._count}"
        self.executor = RecExecutor(outcomes=outcomes, name=name)
        self.subroutines = []
        super().__init__(app_name=name, node_name=name)

    def _get_network_info(self):
        return DebugNetworkInfo

    def _commit_serialized_message(self, raw_msg, block=True, callback=None):
        msg = deserialize_host_msg(raw_msg)
        if msg.TYPE == MessageType.INIT_NEW_APP:
            self.executor.init_new_application(
                app_id=msg.app_id, max_qubits=msg.max_qubits
            )
        elif msg.TYPE == MessageType.SUBROUTINE:
            subroutine = deserialize(msg.subroutine)
            self.subroutines.append(subroutine)
            self.executor.consume_execute_subroutine(subroutine)

    def ctrl_reg(self, reg):
        """Value of a register on the controller."""
        return self.executor._get_register(self.app_id, reg)

    def ctrl_array(self, address):
        """Contents of an array on the controller."""
        return list(self.executor._app_arrays[self.app_id]._get_array(address))


SharedMemoryManager.reset_memories()
failures = []


def check(what, expected, actual):
    ok = expected == actual
    print(f"{'ok  ' if ok else 'FAIL'} {what}\n       expected: {expected}\n       actual:   {actual}")
    if not ok:
        failures.append(what)

# ---------------------------------------------------------------------------------
# C05, last sentence: "After each flush every Future, RegFuture and Array handle read
# on the host equals the controller's value."
#
# A register-held value (RegFuture from measure(store_array=False)) is changed by a
# later subroutine (`add`, with and without modulus). The register is only returned
# (`ret_reg`) by the subroutine in which the handle was created: the list of registers
# to return is emptied at every flush and RegFuture.add does not put the register back.
# The controller's register changes, the host never hears about it.
#
# The handle is deliberately NOT read between the flushes, so this is independent of
# any caching inside the Future object: the shared memory itself is stale.
# ---------------------------------------------------------------------------------

print("--- RegFuture changed in a later subroutine")
conn = ExecConnection(outcomes=[1])
m = Qubit(conn).measure(store_array=False)
conn.flush()

m.add(1)
conn.flush()
print(conn.subroutines[-1])
check("flush 2 (m.add(1)): controller register", 2, conn.ctrl_reg(m.reg))
check("flush 2: shared memory register == controller", conn.ctrl_reg(m.reg), conn.shared_memory.get_register(m.reg))
check("flush 2: host RegFuture == controller", conn.ctrl_reg(m.reg), m.value)

print("--- the same statements in one subroutine (no flush in between)")
conn = ExecConnection(outcomes=[1])
m = Qubit(conn).measure(store_array=False)
m.add(1)
conn.flush()
check("one subroutine: host RegFuture == controller", conn.ctrl_reg(m.reg), m.value)

print("--- with a modulus, and used in a condition afterwards")
conn = ExecConnection(outcomes=[1])
m = Qubit(conn).measure(store_array=False)
conn.flush()
m.add(1, mod=2)          # 1 + 1 mod 2 = 0 on the controller
t = Qubit(conn)
with m.if_ez():
    t.X()                # the controller applies X: it sees 0
conn.flush()
check("controller applied X because its register is 0", [("x", 0)], [e for e in conn.executor.trace if e[0] != "meas"])
check("host RegFuture == controller", conn.ctrl_reg(m.reg), m.value)

if failures:
    print(f"\nVIOLATION: {failures}")
    sys.exit(1)
print("\nproperty holds")
