"""C12 demo 2: stop_application() leaves the application's outstanding EPR requests in the
executor's request queues.  When the same application ID is registered again (supported:
stop_application releases the ID), the dead request of the previous run is still "the oldest
outstanding request" of its socket and takes the first pair of the new run: the pair is mapped
to the OLD request's virtual qubit, its result lands in the new run's array (same address), the
new program's wait resumes and goes on to use a virtual qubit that was never mapped, and the
new run's own request stays outstanding for ever.
"""
import logging
import sys

from netqasm.backend.executor import Executor
from netqasm.backend.network_stack import BaseNetworkStack
from netqasm.lang.parsing import parse_text_subroutine
from netqasm.qlink_compat import LinkLayerOKTypeK, ReturnType
from netqasm.sdk.shared_memory import SharedMemoryManager

logging.disable(logging.CRITICAL)


class Stack(BaseNetworkStack):
    def put(self, request):
        pass

    def setup_epr_socket(self, epr_socket_id, remote_node_id, remote_epr_socket_id, timeout=1.0):
        return None

    def get_purpose_id(self, remote_node_id, epr_socket_id):
        return epr_socket_id


class Exec(Executor):
    @property
    def node_id(self):
        return 0

    def _wait_to_handle_epr_responses(self):
        pass  # the driver polls _handle_pending_epr_responses() itself

    def _do_wait(self):
        yield "waiting"


def program(virtual_qubit):
    return parse_text_subroutine(f"""# NETQASM 1.0
# APPID 0
array 10 @0
array 1 @1
store {virtual_qubit} @1[0]
recv_epr(1,0) 1 0
wait_all @0[0:10]
ret_arr @0
""")


def main():
    SharedMemoryManager.reset_memories()
    ex = Exec(name="node0")
    ex.network_stack = Stack()

    # Run 1 of application 0: waits for a pair on socket 0 into virtual qubit 1.
    # The remote node never creates it; the host gives up and stops the application.
    ex.init_new_application(app_id=0, max_qubits=3)
    run1 = ex.execute_subroutine(program(virtual_qubit=1))
    assert next(run1) == "waiting"
    list(ex.stop_application(app_id=0))
    run1.close()

    # Run 2 of application 0 (same ID, fresh memory): waits for a pair into virtual qubit 0.
    ex.init_new_application(app_id=0, max_qubits=3)
    run2 = ex.execute_subroutine(program(virtual_qubit=0))
    assert next(run2) == "waiting"

    raised = None
    try:
        ex._handle_epr_response(
            LinkLayerOKTypeK(
                type=ReturnType.OK_K, create_id=1, logical_qubit_id=4, directionality_flag=1,
                sequence_number=7, purpose_id=0, remote_node_id=1, goodness=0, goodness_time=0, bell_state=0,
            )
        )
        ex._handle_pending_epr_responses()
    except Exception as exc:
        raised = exc

    finished = False
    try:
        for _ in range(20):
            next(run2)
            ex._handle_pending_epr_responses()
    except StopIteration:
        finished = True

    unit_module = ex._qubit_unit_modules[0]
    queue = [(r.subroutine_id, r.virtual_qubit_ids, r.pairs_left) for r in ex._epr_recv_requests[1, 0]]
    print("exception while delivering the pair :", repr(raised))
    print("unit module of run 2                :", unit_module)
    print("result array @0 of run 2            :", ex._app_arrays[0]._arrays[0])
    print("run 2 got past its wait_all         :", finished)
    print("requests still queued (subroutine id, virtual qubits, pairs left):", queue)
    print()
    print("EXPECTED: the pair goes to the only request of a registered application (run 2):")
    print("          virtual qubit 0 -> physical qubit 4, nothing else mapped, request retired, queue empty")
    problems = []
    if unit_module != [4, None, None]:
        problems.append(f"unit module is {unit_module}: the pair was mapped to the virtual qubit of the stopped run's request")
    if queue:
        problems.append(f"request queue is not empty: {queue} (run 2's own request was never served)")
    if finished and unit_module[0] is None:
        problems.append("run 2's wait_all resumed although the qubit it asked for (virtual qubit 0) was never mapped")
    if raised is not None:
        problems.append(f"delivery raised {raised!r}")
    if problems:
        print("OBSERVED:")
        for p in problems:
            print("  -", p)
        return 1
    print("OBSERVED: as expected")
    return 0


if __name__ == "__main__":
    sys.exit(main())
