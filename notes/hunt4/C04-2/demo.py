"""C04 finding 2: a negative array index / negative virtual qubit address is used as a Python
index: it silently addresses an element counted from the end instead of faulting."""
import signal
import sys

from netqasm.backend.executor import Executor
from netqasm.lang.encoding import RegisterName
from netqasm.lang.operand import Register
from netqasm.lang.parsing import parse_text_subroutine
from netqasm.sdk.shared_memory import SharedMemoryManager

signal.alarm(60)
HEADER = "# NETQASM 1.0\n# APPID 0\n"
ok = True


def fresh():
    SharedMemoryManager.reset_memories()
    ex = Executor(name="node")
    ex.init_new_application(app_id=0, max_qubits=3)
    return ex


def run(ex, text):
    """Returns the first line of the error message, or None if nothing was raised."""
    try:
        ex.consume_execute_subroutine(parse_text_subroutine(HEADER + text))
    except Exception as exc:  # noqa
        return f"{type(exc).__name__}: " + str(exc).split("\n")[0]
    return None


def reg(ex, name, index):
    return ex._get_register(0, Register(RegisterName[name], index))


SETUP = """
set R0 3
array R0 @0
set R1 10
set R2 0
store R1 @0[R2]
set R1 20
set R2 1
store R1 @0[R2]
set R1 30
set R2 2
store R1 @0[R2]
set R3 0
set R4 1
sub R3 R3 R4
"""  # 14 instructions (lines 0..13); @0 = [10, 20, 30], R3 = -1


def check(name, err, line, extra):
    global ok
    if err is None or f"At line {line}:" not in err:
        ok = False
        print(f"FAIL {name}: expected a fault naming line {line} (index -1 is not inside the "
              f"array / unit module); got error={err!r}; {extra}")
    else:
        print(f"ok   {name}: {err}")


# the positive counterpart faults, as the statement says
ex = fresh()
err = run(ex, SETUP + "set R3 3\nload R5 @0[R3]\n")
print("reference, index 3 of a length-3 array:", err)

ex = fresh()
err = run(ex, SETUP + "load R5 @0[R3]\n")
check("load  R5 @0[R3] with R3=-1", err, 14, f"R5 = {reg(ex, 'R', 5)}")

ex = fresh()
err = run(ex, SETUP + "store R0 @0[R3]\n")
check("store R0 @0[R3] with R3=-1", err, 14, f"array = {ex._app_arrays[0]._get_array(0)}")

ex = fresh()
err = run(ex, SETUP + "undef @0[R3]\n")
check("undef @0[R3] with R3=-1", err, 14, f"array = {ex._app_arrays[0]._get_array(0)}")

# qalloc / qfree bookkeeping with virtual address -1 (unit module has 3 qubits: 0, 1, 2)
ex = fresh()
err = run(ex, "set Q0 0\nset Q1 1\nsub Q0 Q0 Q1\nqalloc Q0\n")
check("qalloc Q0 with Q0=-1", err, 3, f"unit module = {ex._qubit_unit_modules[0]}")
err2 = run(ex, "set Q2 2\nqalloc Q2\n")
print("     ... afterwards 'qalloc 2' (never allocated by the program) gives:", err2)

ex = fresh()
err = run(ex, "set Q2 2\nqalloc Q2\nset Q0 0\nset Q1 1\nsub Q0 Q0 Q1\nqfree Q0\n")
check("qfree Q0 with Q0=-1", err, 5, f"unit module = {ex._qubit_unit_modules[0]} (qubit 2 was freed)")

sys.exit(0 if ok else 1)
