"""C14 / finding 3: a loop_until context that is left through an exception never gives its
loop register back (the `finally` asserts on the exit condition before it releases anything).
Every EPR call with a min-fidelity constraint that is *refused* (e.g. too many pairs) therefore
costs one register for the rest of the connection's life; flushing does not help.

Expected: after any number of refused operations, valid operations still compile
(register need depends on open operations only).
Actual: after 16 refusals every operation that needs a register fails with
"could not find an available loop register"; the refusals also swallow the commands that
were pending before them and hide the real error behind a bare AssertionError.
"""
import logging
import sys

from netqasm.sdk.connection import DebugConnection
from netqasm.sdk.epr_socket import EPRSocket
from netqasm.sdk.qubit import Qubit

logging.disable(logging.CRITICAL)
DebugConnection.node_ids = {"Alice": 0, "Bob": 1}


def active(conn):
    return sorted(
        (str(r) for r in conn.builder._mem_mgr._active_registers),
        key=lambda s: int(s[1:]),
    )


def valid_operation(conn):
    arr = conn.new_array(2, init_values=[0, 1])
    with conn.loop(2) as i:
        arr.get_future_index(i).add(1)
    conn.flush()


def main():
    epr = EPRSocket("Bob")
    ok = True
    with DebugConnection("Alice", epr_sockets=[epr]) as conn:  # 5 qubits
        valid_operation(conn)
        print("before any refusal: valid operation compiles, active registers:", active(conn))

        for n in range(1, 17):
            q = Qubit(conn)  # something pending before the refused call
            q.H()
            try:
                # 6 pairs > 5 qubits: must be refused - and is - but ...
                epr.create_keep(number=6, min_fidelity_all_at_end=80, max_tries=3)
            except (ValueError, AssertionError) as e:
                err = e
            pending = len(conn.builder._pending_commands)
            q.measure()
            conn.flush()  # periodic flush, does not give the registers back
            if n in (1, 2, 16):
                print(
                    f"refusal {n:2d}: raised {type(err).__name__}({str(err)[:40]!r}), "
                    f"pending commands left: {pending}, open operations: 0, "
                    f"registers still reserved: {len(active(conn))}"
                )
        if active(conn):
            ok = False
        try:
            valid_operation(conn)
            print("after 16 refusals: valid operation compiles")
        except Exception as e:
            ok = False
            root = e
            while root.__context__ is not None:
                root = root.__context__
            print(
                f"after 16 refusals: valid operation fails with {type(e).__name__}, "
                f"root cause {type(root).__name__}: {root}"
            )
    if not ok:
        print("FAIL: finished (refused) operations used up the register pool")
        return 1
    print("OK")
    return 0


if __name__ == "__main__":
    sys.exit(main())
