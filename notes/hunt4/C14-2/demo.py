"""C14 / finding 2: the assembler takes its scratch registers (for literals) only from
registers that occur NOWHERE in the subroutine, so registers of operations that are long
finished still count. Whether a top-level operation compiles therefore depends on what was
completed earlier in the same subroutine, not on what is open.

Expected: `epr_socket.create_keep()` at top level (no operation open) compiles whatever was
completed before it on the connection.
Actual: after 12 finished loops (each on its own explicit register), or after one finished
12-deep loop nest, the flush raises "Could not replace constant since no registers left";
with a flush in between, or with fewer finished operations, the very same call compiles.
"""
import logging
import sys
from contextlib import ExitStack

from netqasm.sdk.connection import DebugConnection
from netqasm.sdk.epr_socket import EPRSocket
from netqasm.sdk.qubit import Qubit

logging.disable(logging.CRITICAL)
DebugConnection.node_ids = {"Alice": 0, "Bob": 1}


def finished_sequential_loops(conn, n):
    # n loops one after the other, every one is closed before the next starts
    for i in range(n):
        with conn.loop(2, loop_register=f"R{15 - i}"):
            q = Qubit(conn)
            q.H()
            q.measure()


def finished_nest(conn, n):
    # one n-deep nest (automatic registers), completely closed afterwards
    with ExitStack() as stack:
        for _ in range(n):
            stack.enter_context(conn.loop(2))
        q = Qubit(conn)
        q.H()
        q.measure()


def scenario(history, n, flush_between):
    epr = EPRSocket("Bob")
    with DebugConnection("Alice", epr_sockets=[epr]) as conn:
        history(conn, n)
        open_regs = sorted(str(r) for r in conn.builder._mem_mgr._active_registers)
        assert open_regs == [], open_regs  # nothing is open any more
        if flush_between:
            conn.flush()
        q = epr.create_keep()[0]  # top level, nothing open
        q.measure()
        conn.flush()


def attempt(history, n, flush_between):
    try:
        scenario(history, n, flush_between)
        return "compiles"
    except RuntimeError as e:
        return f"RuntimeError: {e}"


def main():
    failures = 0
    for history in (finished_sequential_loops, finished_nest):
        print(f"--- history: {history.__name__}")
        for n in (0, 6, 11, 12, 15):
            same = attempt(history, n, flush_between=False)
            split = attempt(history, n, flush_between=True)
            print(f"  {n:2d} finished, then create_keep: same subroutine -> {same}")
            print(f"  {n:2d} finished, flush, then create_keep         -> {split}")
            if same != "compiles" and split == "compiles":
                failures += 1
    if failures:
        print(
            f"FAIL: in {failures} cases a top-level create_keep with no open operation did "
            "not compile only because of operations that were already finished"
        )
        return 1
    print("OK")
    return 0


if __name__ == "__main__":
    sys.exit(main())
