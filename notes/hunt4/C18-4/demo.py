"""C18 / finding 4: a broadcast channel created with use_callbacks=True loses every message.

BroadcastChannel documents ``use_callbacks`` ("whether to use the recv_callback and
conn_lost_callback callback methods") and ``recv_callback(remote_app_name, msg)``.
BroadcastChannelBySockets passes the option on to its per-remote sockets, whose own
``recv_callback`` is the do-nothing default of ``Socket``.

Alice broadcasts "m1", "m2" to bob.  Bob's channel uses callbacks.

Expected: each message reaches bob exactly once and in order (through the channel's
recv_callback; the demo would also accept them from bob's recv()).
"""
import sys
import threading
import time

from netqasm.sdk.classical_communication.thread_socket import (
    ThreadBroadcastChannel,
    reset_socket_hub,
)

reset_socket_hub()
by_callback = []
by_recv = []
out = {}


class BobChannel(ThreadBroadcastChannel):
    def recv_callback(self, remote_app_name, msg):
        by_callback.append((remote_app_name, msg))


def alice():
    chan = ThreadBroadcastChannel("alice", ["bob"])
    try:
        chan.send("m1")
        chan.send("m2")
        out["alice send"] = "ok"
    except Exception as exc:  # noqa
        out["alice send"] = repr(exc)
    time.sleep(1.0)


def bob():
    chan = BobChannel("bob", ["alice"], use_callbacks=True)
    time.sleep(0.6)
    while True:
        try:
            by_recv.append(chan.recv(block=False))
        except RuntimeError:
            break


ts = [threading.Thread(target=f, daemon=True) for f in (alice, bob)]
[t.start() for t in ts]
[t.join(10) for t in ts]

print("alice send                 :", out.get("alice send"))
print("delivered to bob's callback:", by_callback)
print("delivered to bob's recv()  :", by_recv)
print()
want = [("alice", "m1"), ("alice", "m2")]
print("expected:", want, "delivered once (callback or recv)")
if by_callback + by_recv == want:
    print("happened: exactly that")
    sys.exit(0)
print("happened: both sends succeeded, bob got nothing at all - the messages went to the")
print("          no-op Socket.recv_callback of the channel's internal ThreadSocket")
sys.exit(1)
