"""C04 finding 1: ret_arr publishes the executor's own list object, so later store/undef
instructions change the host-visible shared memory without any ret_arr."""
import signal
import sys

from netqasm.backend.executor import Executor
from netqasm.lang.parsing import parse_text_subroutine
from netqasm.sdk.shared_memory import SharedMemoryManager

signal.alarm(60)
HEADER = "# NETQASM 1.0\n# APPID 0\n"

SharedMemoryManager.reset_memories()
executor = Executor(name="node")
executor.init_new_application(app_id=0, max_qubits=1)
host_view = SharedMemoryManager.get_shared_memory("node", key=0)  # what the Host reads

# Subroutine 1: @0 = [7, 8, undefined], returned to the host.
sub1 = parse_text_subroutine(
    HEADER
    + """
set R0 3
array R0 @0
set R1 7
set R2 0
store R1 @0[R2]
set R1 8
set R2 1
store R1 @0[R2]
ret_arr @0
"""
)
executor.consume_execute_subroutine(sub1)
after_ret = list(host_view.get_array_part(0, slice(0, 3)))
print("shared memory after ret_arr @0        :", after_ret)

# Subroutine 2 of the same application: changes the array, does NOT return it.
sub2 = parse_text_subroutine(
    HEADER
    + """
set R1 99
set R2 2
store R1 @0[R2]
set R2 0
undef @0[R2]
"""
)
executor.consume_execute_subroutine(sub2)
later = list(host_view.get_array_part(0, slice(0, 3)))
print("shared memory after store/undef only :", later)
print("executor's own array @0               :", executor._app_arrays[0]._get_array(0))

expected = [7, 8, None]
ok = True
if after_ret != expected:
    print(f"FAIL: ret_arr should have published {expected}")
    ok = False
if later != expected:
    print(
        f"FAIL: expected the shared memory to still hold {expected} (no ret_arr/ret_reg was "
        f"executed since), but the host now sees {later}"
    )
    ok = False
if host_view._get_array(0) is executor._app_arrays[0]._get_array(0):
    print("FAIL: shared memory and executor hold the very same list object")
    ok = False
sys.exit(0 if ok else 1)
