"""C04 finding 4: bez / bnz / beq / bne on a register that was never written silently
evaluate Python's `None == x` / `None != x` and move the program counter accordingly, while
every other use of an undefined register (store, add, ret_reg, blt, bge, ...) faults."""
import signal
import sys

from netqasm.backend.executor import Executor
from netqasm.lang.encoding import RegisterName
from netqasm.lang.operand import Register
from netqasm.lang.parsing import parse_text_subroutine
from netqasm.sdk.shared_memory import SharedMemoryManager

signal.alarm(60)
HEADER = "# NETQASM 1.0\n# APPID 0\n"
ok = True


def fresh():
    SharedMemoryManager.reset_memories()
    ex = Executor(name="node")
    ex.init_new_application(app_id=0, max_qubits=1)
    return ex


def run(ex, text):
    try:
        ex.consume_execute_subroutine(parse_text_subroutine(HEADER + text))
    except Exception as exc:  # noqa
        return f"{type(exc).__name__}: " + str(exc).split("\n")[0]
    return None


def reg(ex, name, index):
    return ex._get_register(0, Register(RegisterName[name], index))


# R7 and R8 are never written.  Line 1 is the branch; if it is taken, line 2 is skipped.
TEMPLATE = """
set R0 0
{branch} 3
set R0 1
set R1 5
"""
cases = ["bez R7", "bnz R7", "beq R7 R8", "bne R7 R8", "beq R7 R0", "bne R7 R0",
         "blt R7 R0", "bge R7 R0"]
taken = {}
for branch in cases:
    ex = fresh()
    err = run(ex, TEMPLATE.format(branch=branch))
    r0 = reg(ex, "R", 0)
    if err is None:
        taken[branch] = (r0 == 0)
        ok = False
        print(f"FAIL {branch:10s}: expected a fault naming line 1 (operand undefined); no error, "
              f"branch {'TAKEN' if r0 == 0 else 'not taken'}, execution continued (R1={reg(ex, 'R', 1)})")
    elif "At line 1:" in err:
        print(f"ok   {branch:10s}: {err}")
    else:
        ok = False
        print(f"FAIL {branch:10s}: error does not name line 1: {err}")

if taken.get("bez R7") is False and taken.get("bnz R7") is True:
    print("note: an undefined register counts as 'not zero' for bez/bnz ...")
if taken.get("beq R7 R8") is True:
    print("note: ... two different undefined registers compare as equal for beq")

# For comparison: the other instructions refuse the same undefined register
for text in ["add R1 R7 R0", "store R7 @0[R0]", "ret_reg R7"]:
    ex = fresh()
    print(f"reference {text:16s}:", run(ex, "set R0 0\nset R2 1\narray R2 @0\n" + text + "\n"))

sys.exit(0 if ok else 1)
