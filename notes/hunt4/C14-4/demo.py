"""C14 / finding 4: Future.add / RegFuture.add (and a binary `if` on a Future) reserve their
temporary registers BEFORE they validate the other operand / the modulus. A refused call
(numpy integer, float, non-int modulus ...) raises and leaves the temporaries reserved for the
rest of the connection's life.

Expected: a refused `add` leaves no trace; valid operations keep compiling afterwards.
Actual: every refused call costs 1-2 registers; after 16 the connection cannot compile anything
that needs a register ("could not find an available loop register"), flushing does not help.
"""
import logging
import sys

import numpy as np

from netqasm.sdk.connection import DebugConnection
from netqasm.sdk.qubit import Qubit

logging.disable(logging.CRITICAL)


def reserved(conn):
    return sorted(
        (str(r) for r in conn.builder._mem_mgr._active_registers),
        key=lambda s: int(s[1:]),
    )


def main():
    ok = True

    # ---- part A: Future.add -------------------------------------------------------------
    with DebugConnection("Alice") as conn:
        arr = conn.new_array(2, init_values=[0, 1])
        f, g = arr.get_future_index(0), arr.get_future_index(1)
        f.add(1)
        conn.flush()
        print("A: valid add, reserved registers:", reserved(conn))

        cases = [
            ("f.add(np.int64(1))", lambda: f.add(np.int64(1))),
            ("f.add(0.5)", lambda: f.add(0.5)),
            ("f.add(1, mod=np.int64(2))", lambda: f.add(1, mod=np.int64(2))),
            ("f.add(g, mod=2.0)", lambda: f.add(g, mod=2.0)),
        ]
        for name, call in cases:
            before = len(reserved(conn))
            try:
                call()
                print(f"A: {name}: accepted")
            except (NotImplementedError, TypeError) as e:
                print(
                    f"A: {name}: refused with {type(e).__name__}, "
                    f"registers left reserved by the refusal: {len(reserved(conn)) - before}"
                )
            conn.flush()
        if reserved(conn):
            ok = False
        print("A: reserved registers with no operation open:", reserved(conn))

        n = 0
        while len(reserved(conn)) < 16 and n < 100:
            n += 1
            try:
                f.add(np.int64(1))
            except NotImplementedError:
                pass
            if n % 4 == 0:
                conn.flush()  # periodic flush
        try:
            f.add(1)  # the call that compiled at the start
            conn.flush()
            print("A: valid add after the refusals compiles")
        except RuntimeError as e:
            ok = False
            print(f"A: valid f.add(1) after {n} more refusals fails: RuntimeError: {e}")

    # ---- part B: binary condition on a Future ---------------------------------------------
    with DebugConnection("Alice") as conn:
        arr = conn.new_array(1, init_values=[1])
        f = arr.get_future_index(0)
        for _ in range(3):
            try:
                with f.if_eq(np.int64(1)):
                    q = Qubit(conn)
                    q.measure()
            except TypeError:
                pass
            conn.flush()
        print("B: three refused `f.if_eq(np.int64(1))`, reserved registers:", reserved(conn))
        if reserved(conn):
            ok = False

    if not ok:
        print("FAIL: refused operations keep temporaries reserved")
        return 1
    print("OK")
    return 0


if __name__ == "__main__":
    sys.exit(main())
