"""C13 finding 1: a keep-response that cannot be mapped leaves its physical qubit marked "in use" forever.

History (one application, unit module of 2 qubits):
  init app 0 (2 qubits); subroutine: recv_epr for one pair whose virtual qubit ID (taken from the
  array) is 2, i.e. one past the unit module, then wait_all; the network stack delivers the pair
  on physical qubit 3.

Expected: the delivery is refused (ValueError) and the controller's bookkeeping is unchanged:
          the set of physical qubits marked in use == the set of mapped physical qubits (both empty),
          stopping the application leaves nothing in use, and a new application can get qubit 3.
"""
import sys

from netqasm.backend.executor import Executor
from netqasm.backend.network_stack import BaseNetworkStack
from netqasm.lang.parsing import parse_text_subroutine
from netqasm.qlink_compat import LinkLayerOKTypeK, ReturnType
from netqasm.sdk.shared_memory import SharedMemoryManager


class Stack(BaseNetworkStack):
    def put(self, request):
        pass

    def setup_epr_socket(self, epr_socket_id, remote_node_id, remote_epr_socket_id, timeout=1.0):
        return None

    def get_purpose_id(self, remote_node_id, epr_socket_id):
        return epr_socket_id


class Exec(Executor):
    @property
    def node_id(self):
        return 0

    def _do_wait(self):
        yield "waiting"  # hand control back to the driver while a wait_* instruction waits

    def _wait_to_handle_epr_responses(self):
        pass  # a response that must wait is retried on the next delivery


def mapped(e):
    return sorted(p for um in e._qubit_unit_modules.values() for p in um if p is not None)


def recv_subroutine(app_id, virtual_id):
    return parse_text_subroutine(
        f"""# NETQASM 1.0
# APPID {app_id}
set R5 10
array R5 @0
set R5 1
array R5 @1
set R5 {virtual_id}
set R6 0
store R5 @1[R6]
set R5 1
set R6 0
set R7 1
set R8 0
recv_epr R5 R6 R7 R8
set R5 0
set R6 10
wait_all @0[R5:R6]
"""
    )


SharedMemoryManager.reset_memories()
e = Exec(name="node")
e.network_stack = Stack()
e.init_new_application(app_id=0, max_qubits=2)

running = e.execute_subroutine(recv_subroutine(0, virtual_id=2))
assert next(running) == "waiting"

response = LinkLayerOKTypeK(
    type=ReturnType.OK_K, logical_qubit_id=3, directionality_flag=1, purpose_id=0, remote_node_id=1
)
refused = None
try:
    e._handle_epr_response(response)
except Exception as exc:  # a loud refusal is fine
    refused = exc
print(f"delivery refused with: {type(refused).__name__ if refused else None}: "
      f"{str(refused).splitlines()[0] if refused else ''}")

failures = []
in_use = sorted(e._used_physical_qubit_addresses)
print(f"after the refused delivery: mapped physical qubits = {mapped(e)}, marked in use = {in_use}")
if in_use != mapped(e):
    failures.append(
        f"expected in-use set == mapped set == [] after a refused delivery, got in use {in_use}, mapped {mapped(e)}"
    )

running.close()
list(e.stop_application(0))
left = sorted(e._used_physical_qubit_addresses)
print(f"after stop_application(0): marked in use = {left}")
if left:
    failures.append(f"expected no physical qubit in use after the only application stopped, got {left}")

e.init_new_application(app_id=0, max_qubits=4)
alloc = parse_text_subroutine(
    "# NETQASM 1.0\n# APPID 0\n" + "".join(f"set Q0 {i}\nqalloc Q0\n" for i in range(4))
)
list(e.execute_subroutine(alloc))
got = e._qubit_unit_modules[0]
print(f"re-registered app 0 allocates 4 qubits: physical {got} (expected [0, 1, 2, 3])")
if got != [0, 1, 2, 3]:
    failures.append(f"physical qubit 3 is lost for good: a fresh application got {got} instead of [0, 1, 2, 3]")

if failures:
    print("\nVIOLATION:")
    for f in failures:
        print(" -", f)
    sys.exit(1)
print("ok")
