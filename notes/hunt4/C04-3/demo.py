"""C04 finding 3: a negative branch target is used as a Python list index for the
instruction fetch: the executor runs an instruction counted from the END of the subroutine
with a negative program counter (or dies with an un-located IndexError)."""
import signal
import sys

from netqasm.backend.executor import Executor
from netqasm.lang.encoding import RegisterName
from netqasm.lang.operand import Register
from netqasm.lang.parsing import parse_text_subroutine
from netqasm.sdk.shared_memory import SharedMemoryManager

signal.alarm(60)  # never hang
HEADER = "# NETQASM 1.0\n# APPID 0\n"
ok = True


def fresh():
    SharedMemoryManager.reset_memories()
    ex = Executor(name="node")
    ex.init_new_application(app_id=0, max_qubits=1)
    return ex


def run(ex, text):
    try:
        ex.consume_execute_subroutine(parse_text_subroutine(HEADER + text))
    except Exception as exc:  # noqa
        return f"{type(exc).__name__}: " + str(exc).split("\n")[0]
    return None


def reg(ex, name, index):
    return ex._get_register(0, Register(RegisterName[name], index))


# --- case A: jmp -1 silently executes the LAST instruction, then restarts at line 0 --------
ex = fresh()
assert run(ex, "set R0 0\nset R1 1\nset R2 1\n") is None
prog = """
add R0 R0 R1
bne R0 R2 4
jmp -1
set R5 99
"""
# line 0: R0 += 1
# line 1: leave the subroutine (target 4 = end) unless R0 == 1
# line 2: jmp -1            <- no instruction has line number -1
# line 3: set R5 99         <- unreachable: line 2 always jumps
err = run(ex, prog)
r0, r5 = reg(ex, "R", 0), reg(ex, "R", 5)
print(f"case A: error={err!r}, R0={r0}, R5={r5}")
if r5 is not None:
    ok = False
    print("FAIL A: 'set R5 99' (line 3) was executed although no control path leads to it; "
          "'jmp -1' fetched commands[-1] and then continued at line 0 "
          f"(R0 was incremented {r0} times instead of once)")
if err is None:
    ok = False
    print("FAIL A: expected execution to stop at line 2 with an error naming line 2, "
          "but the subroutine completed without any error")
elif "At line 2:" not in err:
    ok = False
    print("FAIL A: expected an error naming line 2")

# --- case B: a target below -len(subroutine) escapes the 'At line N' error wrapping ------
ex = fresh()
err = run(ex, "set R0 5\njmp -10\nset R0 6\n")
print(f"case B: error={err!r}")
if err is None or "At line 1:" not in err:
    ok = False
    print("FAIL B: expected an error naming line 1 (the jmp); got a bare error raised by the "
          "fetch 'commands[prog_counter]' outside the try block")

# --- case C: error message reports a negative line -----------------------------------------
ex = fresh()
err = run(ex, "jmp -1\nadd R0 R1 R2\n")  # R1, R2 undefined: the add faults
print(f"case C: error={err!r}")
if err is None or "At line 0:" not in err:
    ok = False
    print("FAIL C: expected a fault at line 0 (the jmp); the executor instead ran line 1 with "
          "program counter -1 and reports 'At line -1'")

sys.exit(0 if ok else 1)
