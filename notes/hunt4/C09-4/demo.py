# ---------------------------------------------------------------------------------------
# Small in-process controller: the SDK connection hands every message to a subclass of
# netqasm.backend.executor.Executor that (a) checks that every quantum instruction only
# addresses allocated virtual qubits and (b) plays the network stack for EPR requests.
# Nothing in the netqasm package is modified.
# ---------------------------------------------------------------------------------------
import logging
import sys

from netqasm.backend.executor import Executor
from netqasm.backend.messages import MessageType, deserialize_host_msg
from netqasm.backend.network_stack import BaseNetworkStack
from netqasm.lang.instr.flavour import NVFlavour, VanillaFlavour
from netqasm.lang.parsing import deserialize
from netqasm.qlink_compat import BellState, LinkLayerOKTypeK, ReturnType
from netqasm.sdk.build_types import GenericHardwareConfig, NVHardwareConfig
from netqasm.sdk.connection import BaseNetQASMConnection, DebugConnection, DebugNetworkInfo
from netqasm.sdk.epr_socket import EPRSocket
from netqasm.sdk.qubit import Qubit
from netqasm.sdk.shared_memory import SharedMemoryManager
from netqasm.sdk.transpile import NVSubroutineTranspiler

logging.disable(logging.CRITICAL)


class Hang(RuntimeError):
    pass


class _Stack(BaseNetworkStack):
    def put(self, request):
        pass

    def setup_epr_socket(self, epr_socket_id, remote_node_id, remote_epr_socket_id, timeout=1.0):
        return None

    def get_purpose_id(self, remote_node_id, epr_socket_id):
        return epr_socket_id


class Controller(Executor):
    def __init__(self, name):
        super().__init__(name=name)
        self.network_stack = _Stack()
        self._spins = 0

    @property
    def node_id(self):
        return 0

    def _chk(self, subroutine_id, *addresses):
        for a in addresses:  # raises NotAllocatedError for an unallocated virtual qubit
            self._get_position(subroutine_id=subroutine_id, address=a)

    def _do_single_qubit_instr(self, instr, subroutine_id, address):
        self._chk(subroutine_id, address)

    def _do_single_qubit_rotation(self, instr, subroutine_id, address, angle):
        self._chk(subroutine_id, address)

    def _do_controlled_qubit_rotation(self, instr, subroutine_id, address1, address2, angle):
        self._chk(subroutine_id, address1, address2)

    def _do_two_qubit_instr(self, instr, subroutine_id, address1, address2):
        self._chk(subroutine_id, address1, address2)

    def _do_meas(self, subroutine_id, q_address):
        self._chk(subroutine_id, q_address)
        return 0

    # the base class recurses for ever here; the responses are retried in _do_wait instead
    def _wait_to_handle_epr_responses(self):
        return None

    def _do_wait(self):
        """Called while a wait instruction blocks: deliver the next EPR pair."""
        before = len(self._pending_epr_responses)
        if before:
            self._handle_pending_epr_responses()
            if len(self._pending_epr_responses) < before:
                self._spins = 0
                return None
        nxt = None
        for is_creator, reqs in ((True, self._epr_create_requests), (False, self._epr_recv_requests)):
            for key, lst in reqs.items():
                for data in lst:
                    if nxt is None and getattr(data, "_sent", 0) < data.tot_pairs:
                        nxt = (is_creator, key, data)
        if nxt is None or self._pending_epr_responses:
            self._spins += 1
            if self._spins > 3:
                raise Hang("the subroutine waits for ever (an EPR pair can never be delivered)")
            return None
        is_creator, (remote_node_id, purpose_id), data = nxt
        data._sent = getattr(data, "_sent", 0) + 1
        phys = 0
        while phys in self._used_physical_qubit_addresses:
            phys += 1
        self._spins = 0
        self._handle_epr_response(
            LinkLayerOKTypeK(
                type=ReturnType.OK_K,
                create_id=0,
                logical_qubit_id=phys,
                directionality_flag=0 if is_creator else 1,
                sequence_number=data._sent,
                purpose_id=purpose_id,
                remote_node_id=remote_node_id,
                goodness=0,
                goodness_time=0,
                bell_state=BellState.PHI_PLUS,
            )
        )
        return None


class Conn(BaseNetQASMConnection):
    def __init__(self, budget, nv=False, transpile=False):
        DebugConnection.node_ids = {"alice": 0, "bob": 1}
        SharedMemoryManager.reset_memories()
        BaseNetQASMConnection._app_ids.clear()
        self.controller = Controller("alice")
        self.flavour = NVFlavour() if transpile else VanillaFlavour()
        self.sock = EPRSocket("bob")
        super().__init__(
            app_name="alice",
            node_name="alice",
            max_qubits=budget,
            hardware_config=NVHardwareConfig(budget) if nv else GenericHardwareConfig(budget),
            compiler=NVSubroutineTranspiler if transpile else None,
            epr_sockets=[self.sock],
        )

    def _get_network_info(self):
        return DebugNetworkInfo

    def _commit_serialized_message(self, raw_msg, block=True, callback=None):
        msg = deserialize_host_msg(raw_msg)
        if msg.TYPE == MessageType.INIT_NEW_APP:
            self.controller.init_new_application(app_id=msg.app_id, max_qubits=msg.max_qubits)
        elif msg.TYPE == MessageType.STOP_APP:
            list(self.controller.stop_application(app_id=msg.app_id))
        elif msg.TYPE == MessageType.SUBROUTINE:
            self.controller._spins = 0
            list(self.controller.execute_subroutine(deserialize(msg.subroutine, flavour=self.flavour)))

    def sdk_ids(self):
        """Virtual IDs of the connection's active qubits."""
        return sorted(int.__int__(q._qubit_id) for q in self.active_qubits)

    def ctrl_ids(self):
        """Virtual IDs that are allocated in the controller's unit module."""
        unit_module = self.controller._qubit_unit_modules[self.app_id]
        return sorted(i for i, phys in enumerate(unit_module) if phys is not None)


FAILED = []


def scenario(title, expected, fn):
    print(f"--- {title}")
    print(f"    expected: {expected}")
    try:
        problem = fn()
    except Exception as exc:  # noqa
        first = (str(exc).splitlines() or [""])[0]
        problem = f"{type(exc).__name__}: {first}"
    if problem:
        print(f"    HAPPENED: {problem}")
        FAILED.append(title)
    else:
        print("    ok")


def finish():
    if FAILED:
        print(f"\nVIOLATED in {len(FAILED)} scenario(s)")
        sys.exit(1)
    print("\nproperty held")
    sys.exit(0)


# ---------------------------------------------------------------------------------------
# scenarios
# ---------------------------------------------------------------------------------------
def finish_and_compare(conn, alive):
    try:
        conn.flush()
    except Exception as exc:
        return f"controller: {type(exc).__name__}: {str(exc).splitlines()[0]}"
    ctrl = conn.ctrl_ids()
    if len(ctrl) != alive:
        return f"{alive} qubit(s) should be allocated, controller has {ctrl}"


def keep_pair_from_context_then_new_qubit(nv):
    conn = Conn(budget=3, nv=nv)
    with conn.sock.create_context(number=1) as (q, pair):
        q.H()  # the pair is kept
    conn.flush()
    assert conn.ctrl_ids() == [0]
    a = Qubit(conn)  # second qubit alive: allowed for a budget of three, also on NV
    a.H()
    return finish_and_compare(conn, alive=2)


def helper_qubit_in_context_body(nv):
    conn = Conn(budget=3, nv=nv)
    with conn.sock.recv_context(number=2, sequential=True) as (q, pair):
        a = Qubit(conn)  # helper qubit for this pair
        q.cnot(a)
        a.measure()
        q.measure()
    return finish_and_compare(conn, alive=0)


def helper_qubit_in_post_routine(nv):
    conn = Conn(budget=3, nv=nv)

    def post(_, q, pair):
        a = Qubit(conn)
        q.cnot(a)
        a.measure()
        q.measure()

    conn.sock.create_keep(number=2, sequential=True, post_routine=post)
    return finish_and_compare(conn, alive=0)


for nv in (False, True):
    hw = "NV" if nv else "generic"
    scenario(
        f"{hw}, budget 3: with create_context(number=1) as (q, pair): q.H(); flush; a = Qubit(conn); flush",
        "a gets the lowest unused ID, two qubits are allocated after the flush",
        lambda: keep_pair_from_context_then_new_qubit(nv),
    )
    scenario(
        f"{hw}, budget 3: recv_context(number=2, sequential=True) whose body allocates, uses and measures a helper qubit",
        "at most two qubits alive at any time; the subroutine is built and executes",
        lambda: helper_qubit_in_context_body(nv),
    )
    scenario(
        f"{hw}, budget 3: create_keep(number=2, sequential=True, post_routine=<same body>)",
        "at most two qubits alive at any time; the subroutine is built and executes",
        lambda: helper_qubit_in_post_routine(nv),
    )
finish()
