# ---------------------------------------------------------------------------------
# Minimal in-process "controller": an SDK connection whose messages are executed at
# once by netqasm.backend.executor.Executor. Gates and measurements are recorded,
# measurement outcomes are scripted.
# ---------------------------------------------------------------------------------
import sys

from netqasm.backend.executor import Executor
from netqasm.backend.messages import MessageType, deserialize_host_msg
from netqasm.lang.parsing import deserialize
from netqasm.sdk.connection import BaseNetQASMConnection, DebugNetworkInfo
from netqasm.sdk.qubit import Qubit
from netqasm.sdk.shared_memory import SharedMemoryManager


class RecExecutor(Executor):
    def __init__(self, outcomes, **kw):
        super().__init__(**kw)
        self.trace = []
        self.outcomes = list(outcomes)
        self.steps = 0

    def _execute_command(self, subroutine_id, command):
        self.steps += 1
        if self.steps > 100000:
            raise RuntimeError("step limit exceeded")
        return (yield from super()._execute_command(subroutine_id, command))

    def _do_single_qubit_instr(self, instr, subroutine_id, address):
        if instr.mnemonic != "init":
            self.trace.append((instr.mnemonic, address))
        return None

    def _do_meas(self, subroutine_id, q_address):
        outcome = self.outcomes.pop(0)
        self.trace.append(("meas", q_address, outcome))
        return outcome


class ExecConnection(BaseNetQASMConnection):
    _count = 0

    def __init__(self, outcomes=()):
        ExecConnection._count += 1
        name = f"node{ExecConnection._count}"
        self.executor = RecExecutor(outcomes=outcomes, name=name)
        self.subroutines = []
        super().__init__(app_name=name, node_name=name)

    def _get_network_info(self):
        return DebugNetworkInfo

    def _commit_serialized_message(self, raw_msg, block=True, callback=None):
        msg = deserialize_host_msg(raw_msg)
        if msg.TYPE == MessageType.INIT_NEW_APP:
            self.executor.init_new_application(
                app_id=msg.app_id, max_qubits=msg.max_qubits
            )
        elif msg.TYPE == MessageType.SUBROUTINE:
            subroutine = deserialize(msg.subroutine)
            self.subroutines.append(subroutine)
            self.executor.consume_execute_subroutine(subroutine)

    def ctrl_reg(self, reg):
        """Value of a register on the controller."""
        return self.executor._get_register(self.app_id, reg)

    def ctrl_array(self, address):
        """Contents of an array on the controller."""
        return list(self.executor._app_arrays[self.app_id]._get_array(address))


SharedMemoryManager.reset_memories()
failures = []


def check(what, expected, actual):
    ok = expected == actual
    print(f"{'ok  ' if ok else 'FAIL'} {what}\n       expected: {expected}\n       actual:   {actual}")
    if not ok:
        failures.append(what)

# ---------------------------------------------------------------------------------
# C05, last sentence: "After each flush every Future, RegFuture and Array handle read
# on the host equals the controller's value."
#
# A Future that was read once on the host keeps returning that first value, although
# later subroutines (add / a second measurement into the same Future) change the
# array entry on the controller.
# ---------------------------------------------------------------------------------

print("--- scenario 1: counter in an array entry, incremented in a later subroutine")
conn = ExecConnection()
arr = conn.new_array(1, init_values=[1])
cnt = arr.get_future_index(0)
conn.flush()
check("after flush 1: host Future == controller", conn.ctrl_array(arr.address)[0], int(cnt))

cnt.add(1)
conn.flush()
check("after flush 2: controller entry is 1 + 1", 2, conn.ctrl_array(arr.address)[0])
check("after flush 2: Array handle arr[0] == controller", conn.ctrl_array(arr.address)[0], arr[0])
check("after flush 2: host Future == controller", conn.ctrl_array(arr.address)[0], int(cnt))

cnt.add(5, mod=4)
conn.flush()
check("after flush 3: controller entry is (2 + 5) % 4", 3, conn.ctrl_array(arr.address)[0])
check("after flush 3: host Future == controller", conn.ctrl_array(arr.address)[0], int(cnt))

print("--- scenario 2: two measurements into the same Future, one per subroutine")
conn = ExecConnection(outcomes=[1, 0])
out = conn.new_array(1)
m = out.get_future_index(0)
Qubit(conn).measure(future=m)
conn.flush()
check("after flush 1: host outcome == controller", conn.ctrl_array(out.address)[0], int(m))
Qubit(conn).measure(future=m)
conn.flush()
check("after flush 2: controller holds the second outcome", 0, conn.ctrl_array(out.address)[0])
check("after flush 2: host outcome == controller", conn.ctrl_array(out.address)[0], int(m))

print("--- scenario 3: the same two flushes, but the Future is only read at the end")
conn = ExecConnection()
arr = conn.new_array(1, init_values=[1])
cnt = arr.get_future_index(0)
conn.flush()
cnt.add(1)
conn.flush()
check("(control) unread Future == controller", conn.ctrl_array(arr.address)[0], int(cnt))

if failures:
    print(f"\nVIOLATION: {len(failures)} host reads differ from the controller's value")
    sys.exit(1)
print("\nproperty holds")
