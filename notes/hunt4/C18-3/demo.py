"""C18 / finding 3: a message that was sent on an earlier connection and never received is
handed to the next socket that is opened under the same key.

Run 1: alice sends "old-1", "old-2"; bob receives one message; both close.
Run 2: alice and bob connect again (fresh sockets).  Alice sends nothing.  Bob does a
       non-blocking receive.

Expected: the channel of the new connection is empty -> RuntimeError("No message to receive ...").
"""
import sys
import threading
import time

from netqasm.sdk.classical_communication.thread_socket import ThreadSocket, reset_socket_hub
from netqasm.sdk.classical_communication.thread_socket.socket_hub import _socket_hub

reset_socket_hub()
out = {}


def run(*fs):
    ts = [threading.Thread(target=f, daemon=True) for f in fs]
    [t.start() for t in ts]
    [t.join(10) for t in ts]


def alice1():
    sock = ThreadSocket("alice", "bob")
    sock.send("old-1")
    sock.send("old-2")
    time.sleep(0.5)


def bob1():
    sock = ThreadSocket("bob", "alice")
    out["run 1: bob recv"] = sock.recv(timeout=2)
    time.sleep(0.5)


run(alice1, bob1)
out["between runs: open sockets"] = set(_socket_hub._open_sockets)
out["between runs: rendezvous marks"] = dict(_socket_hub._remote_sockets)


def alice2():
    sock = ThreadSocket("alice", "bob")
    time.sleep(0.8)  # sends nothing
    del sock


def bob2():
    sock = ThreadSocket("bob", "alice")
    time.sleep(0.2)
    try:
        out["run 2: bob recv(block=False)"] = sock.recv(block=False)
    except RuntimeError as exc:
        out["run 2: bob recv(block=False)"] = exc


run(alice2, bob2)
for k, v in out.items():
    print(f"{k:32s}: {v!r}")

print()
print("expected: run 2: RuntimeError (nothing was sent on this connection)")
if isinstance(out.get("run 2: bob recv(block=False)"), RuntimeError):
    print("happened: exactly that")
    sys.exit(0)
print("happened: bob's new socket received a stale message of the previous connection")
sys.exit(1)
