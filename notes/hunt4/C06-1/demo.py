"""C06 finding 1: on the hardware setting (`netqasm run`, i.e. set_is_using_hardware(True))
the NV transpiler cannot compile a rotation whose numerator is a Template.

  direct   : q.rot_X(n=v, d=d); q.measure(); conn.flush()          -> works
  template : q.rot_X(n=Template("a"), d=d); q.measure()
             s = conn.compile()                                       -> AttributeError
             s.instantiate(conn.app_id, {"a": v}); conn.commit_subroutine(s)

Expected (property C06): both send byte-identical messages to the controller.
"""
import sys
import traceback

from netqasm.lang.operand import Template
from netqasm.runtime.settings import set_is_using_hardware
from netqasm.sdk.connection import DebugConnection
from netqasm.sdk.qubit import Qubit
from netqasm.sdk.transpile import NVSubroutineTranspiler


def run(name, templated, value, denom):
    conn = DebugConnection(name, app_id=0, compiler=NVSubroutineTranspiler)
    q = Qubit(conn)
    if templated:
        q.rot_X(n=Template("a"), d=denom)
        q.measure()
        subroutine = conn.compile()
        subroutine.instantiate(conn.app_id, {"a": value})
        conn.commit_subroutine(subroutine)
    else:
        q.rot_X(n=value, d=denom)
        q.measure()
        conn.flush()
    # a later, ordinary flush on the same connection
    Qubit(conn).measure()
    conn.flush()
    return [m.hex() for m in conn.storage]


def main():
    failures = 0
    set_is_using_hardware(True)  # what `netqasm run` (QNodeOS hardware) does
    try:
        for value, denom in [(3, 4), (3, 2)]:
            direct = run(f"direct_{value}_{denom}", False, value, denom)
            try:
                templated = run(f"templ_{value}_{denom}", True, value, denom)
            except Exception:
                failures += 1
                print(f"n={value} d={denom}:")
                print("  expected: compile/instantiate/commit sends the same messages as the flush, i.e.")
                print("            subroutine", direct[1])
                print("  happened: the templated flow raised")
                print("            " + traceback.format_exc().strip().splitlines()[-1])
                continue
            if templated != direct:
                failures += 1
                print(f"n={value} d={denom}: messages differ")
                print("  expected:", direct)
                print("  happened:", templated)
    finally:
        set_is_using_hardware(False)
    if failures:
        print(f"FAIL: {failures} case(s) violate C06")
        return 1
    print("OK")
    return 0


if __name__ == "__main__":
    sys.exit(main())
