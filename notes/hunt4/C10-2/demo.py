"""Small independent harness: runs the subroutines that the netqasm SDK builds on the
package's own classical Executor, with a tiny numpy state-vector simulator for the
quantum part and a scripted link layer that delivers pairs in chosen Bell states."""
import logging
from typing import List, Optional

import numpy as np

from netqasm.backend.executor import Executor
from netqasm.backend.messages import (
    InitNewAppMessage,
    OpenEPRSocketMessage,
    SignalMessage,
    StopAppMessage,
    SubroutineMessage,
)
from netqasm.backend.network_stack import BaseNetworkStack
from netqasm.qlink_compat import (
    Basis,
    BellState,
    LinkLayerOKTypeK,
    LinkLayerOKTypeM,
    ReturnType,
)
from netqasm.sdk.connection import BaseNetQASMConnection, DebugConnection, DebugNetworkInfo
from netqasm.sdk.shared_memory import SharedMemoryManager

logging.getLogger().setLevel(logging.ERROR)

I2 = np.eye(2, dtype=complex)
X = np.array([[0, 1], [1, 0]], dtype=complex)
Y = np.array([[0, -1j], [1j, 0]], dtype=complex)
Z = np.array([[1, 0], [0, -1]], dtype=complex)
H = (X + Z) / np.sqrt(2)
S = np.array([[1, 0], [0, 1j]], dtype=complex)
T = np.array([[1, 0], [0, np.exp(1j * np.pi / 4)]], dtype=complex)
K = np.array([[1, -1j], [1j, -1]], dtype=complex) / np.sqrt(2)
CNOT = np.array([[1, 0, 0, 0], [0, 1, 0, 0], [0, 0, 0, 1], [0, 0, 1, 0]], dtype=complex)
CPHASE = np.diag([1, 1, 1, -1]).astype(complex)
SWAP = np.array([[1, 0, 0, 0], [0, 0, 1, 0], [0, 1, 0, 0], [0, 0, 0, 1]], dtype=complex)


def rot(axis, angle):
    return np.cos(angle / 2) * I2 - 1j * np.sin(angle / 2) * axis


def bell_vec(b: BellState):
    v = np.zeros(4, dtype=complex)
    if b == BellState.PHI_PLUS:
        v[0] = 1
        v[3] = 1
    elif b == BellState.PHI_MINUS:
        v[0] = 1
        v[3] = -1
    elif b == BellState.PSI_PLUS:
        v[1] = 1
        v[2] = 1
    elif b == BellState.PSI_MINUS:
        v[1] = 1
        v[2] = -1
    return v / np.sqrt(2)


class StateVec:
    def __init__(self, seed=0):
        self.labels: list = []
        self.psi = np.array([1.0 + 0j])
        self.rng = np.random.default_rng(seed)

    def add(self, labels, vec=None):
        if vec is None:
            vec = np.zeros(2 ** len(labels), dtype=complex)
            vec[0] = 1
        for lab in labels:
            assert lab not in self.labels, lab
        self.psi = np.kron(self.psi, vec)
        self.labels.extend(labels)

    def _tensor(self):
        return self.psi.reshape([2] * len(self.labels))

    def apply(self, U, labels):
        n = len(self.labels)
        k = len(labels)
        idx = [self.labels.index(lab) for lab in labels]
        t = self._tensor()
        Ut = np.asarray(U, dtype=complex).reshape([2] * (2 * k))
        t = np.tensordot(Ut, t, axes=(list(range(k, 2 * k)), idx))
        # result axes: first k are the new axes for idx, rest are the remaining in order
        rest = [i for i in range(n) if i not in idx]
        order = idx + rest
        inv = np.argsort(order)
        t = np.transpose(t, inv)
        self.psi = t.reshape(-1)

    def prob1(self, label):
        i = self.labels.index(label)
        t = self._tensor()
        t1 = np.take(t, 1, axis=i)
        return float(np.sum(np.abs(t1) ** 2))

    def measure(self, label, forced=None):
        p1 = self.prob1(label)
        if forced is None:
            out = int(self.rng.random() < p1)
        else:
            out = forced
        i = self.labels.index(label)
        t = self._tensor().copy()
        sl = [slice(None)] * len(self.labels)
        sl[i] = 1 - out
        t[tuple(sl)] = 0
        norm = np.linalg.norm(t)
        assert norm > 1e-9
        self.psi = (t / norm).reshape(-1)
        return out

    def remove(self, label):
        self.measure(label)
        i = self.labels.index(label)
        t = self._tensor()
        # after the measurement exactly one of the two slices is non-zero
        t0 = np.take(t, 0, axis=i)
        t1 = np.take(t, 1, axis=i)
        t = t0 if np.linalg.norm(t0) > np.linalg.norm(t1) else t1
        self.labels.pop(i)
        self.psi = t.reshape(-1)

    def reduced_dm(self, labels):
        idx = [self.labels.index(lab) for lab in labels]
        n = len(self.labels)
        rest = [i for i in range(n) if i not in idx]
        t = np.transpose(self._tensor(), idx + rest).reshape(2 ** len(idx), -1)
        return t @ t.conj().T

    def fidelity(self, labels, vec):
        rho = self.reduced_dm(labels)
        return float(np.real(vec.conj() @ rho @ vec))


class StubStack(BaseNetworkStack):
    def put(self, request):
        pass

    def setup_epr_socket(self, epr_socket_id, remote_node_id, remote_epr_socket_id, timeout=1.0):
        return None

    def get_purpose_id(self, remote_node_id, epr_socket_id):
        return epr_socket_id


class SimExecutor(Executor):
    """Executor of the package + numpy quantum memory + scripted link layer."""

    def __init__(self, name, node_id=0, seed=0):
        super().__init__(name=name)
        self._node_id = node_id
        self.network_stack = StubStack()
        self.sv = StateVec(seed)
        # scripted deliveries: list of dicts
        self.deliveries: List[dict] = []
        self.delivered = 0
        self.log: List[str] = []
        self.meas_hook = None
        self._instruction_handlers["meas_basis"] = self._instr_meas_basis
        self._instruction_handlers["breakpoint"] = self._instr_breakpoint

    @property
    def node_id(self):
        return self._node_id

    # ---- memory
    def _reserve_physical_qubit(self, physical_address):
        lab = ("L", physical_address)
        if lab not in self.sv.labels:
            self.sv.add([lab])

    def _clear_phys_qubit_in_memory(self, physical_address):
        lab = ("L", physical_address)
        if lab in self.sv.labels:
            self.sv.remove(lab)
        return None

    def _lab(self, subroutine_id, address):
        return ("L", self._get_position(subroutine_id=subroutine_id, address=address))

    # ---- gates
    def _do_single_qubit_instr(self, instr, subroutine_id, address):
        m = instr.mnemonic
        lab = self._lab(subroutine_id, address)
        if m == "init":
            out = self.sv.measure(lab)
            if out == 1:
                self.sv.apply(X, [lab])
            return None
        U = {"x": X, "y": Y, "z": Z, "h": H, "s": S, "t": T, "k": K}[m]
        self.log.append(f"{m} v{address}")
        self.sv.apply(U, [lab])
        return None

    def _do_single_qubit_rotation(self, instr, subroutine_id, address, angle):
        axis = {"rot_x": X, "rot_y": Y, "rot_z": Z}[instr.mnemonic]
        lab = self._lab(subroutine_id, address)
        self.log.append(f"{instr.mnemonic}({instr.angle_num.value}/2^{instr.angle_denom.value}) v{address}")
        self.sv.apply(rot(axis, angle), [lab])
        return None

    def _do_controlled_qubit_rotation(self, instr, subroutine_id, address1, address2, angle):
        axis = {"crot_x": X, "crot_y": Y, "crot_z": Z}[instr.mnemonic]
        # NV controlled rotation: R(angle) if control 0, R(-angle) if control 1
        U = np.zeros((4, 4), dtype=complex)
        U[:2, :2] = rot(axis, angle)
        U[2:, 2:] = rot(axis, -angle)
        self.log.append(f"{instr.mnemonic} v{address1} v{address2}")
        self.sv.apply(U, [self._lab(subroutine_id, address1), self._lab(subroutine_id, address2)])
        return None

    def _do_two_qubit_instr(self, instr, subroutine_id, address1, address2):
        U = {"cnot": CNOT, "cphase": CPHASE, "mov": SWAP}[instr.mnemonic]
        self.log.append(f"{instr.mnemonic} v{address1} v{address2}")
        self.sv.apply(U, [self._lab(subroutine_id, address1), self._lab(subroutine_id, address2)])
        return None

    def _do_meas(self, subroutine_id, q_address):
        lab = self._lab(subroutine_id, q_address)
        if self.meas_hook is not None:
            self.meas_hook(self, lab, q_address)
        return self.sv.measure(lab)

    def _instr_meas_basis(self, subroutine_id, instr):
        app_id = self._get_app_id(subroutine_id)
        q_address = self._get_register(app_id, instr.qreg)
        lab = self._lab(subroutine_id, q_address)
        d = instr.angle_denom.value
        a = [instr.angle_num_x1.value, instr.angle_num_y.value, instr.angle_num_x2.value]
        a = [v * np.pi / 2**d for v in a]
        if self.meas_hook is not None:
            self.meas_hook(self, lab, q_address)
        self.sv.apply(rot(X, a[0]), [lab])
        self.sv.apply(rot(Y, a[1]), [lab])
        self.sv.apply(rot(X, a[2]), [lab])
        out = self.sv.measure(lab)
        self._set_register(app_id, instr.creg, out)
        self._program_counters[subroutine_id] += 1

    def _instr_breakpoint(self, subroutine_id, instr):
        self._program_counters[subroutine_id] += 1

    # ---- link layer
    def _wait_to_handle_epr_responses(self):
        raise RuntimeError("EPR response cannot be handled now (virtual ID in use / no request)")

    def _do_wait(self):
        if self.delivered >= len(self.deliveries):
            raise RuntimeError("deadlock: waiting but nothing left to deliver")
        d = self.deliveries[self.delivered]
        k = self.delivered
        self.delivered += 1
        if d["type"] == "K":
            phys = self._get_unused_physical_qubit()
            self.sv.add([("L", phys), ("R", k)], bell_vec(d["bell"]))
            self.log.append(f"deliver pair {k} in {d['bell'].name} on phys {phys}")
            resp = LinkLayerOKTypeK(
                type=ReturnType.OK_K,
                create_id=0,
                logical_qubit_id=phys,
                directionality_flag=d.get("flag", 1),
                sequence_number=k,
                purpose_id=d.get("purpose_id", 0),
                remote_node_id=d.get("remote_node_id", 1),
                goodness=d.get("goodness", 0),
                goodness_time=0,
                bell_state=d["bell"],
            )
        else:
            resp = LinkLayerOKTypeM(
                type=ReturnType.OK_M,
                create_id=0,
                measurement_outcome=d["outcome"],
                measurement_basis=d.get("basis", Basis.Z),
                directionality_flag=d.get("flag", 1),
                sequence_number=k,
                purpose_id=d.get("purpose_id", 0),
                remote_node_id=d.get("remote_node_id", 1),
                goodness=0,
                bell_state=d["bell"],
            )
        self._handle_epr_response(resp)
        return None


class SimConnection(BaseNetQASMConnection):
    """Connection that hands its messages directly to a SimExecutor."""

    def __init__(self, app_name, executor: SimExecutor, **kwargs):
        self.executor = executor
        self.flavour = kwargs.pop("flavour", None)
        self.subroutines = []
        super().__init__(app_name, **kwargs)

    def _get_network_info(self):
        return DebugNetworkInfo

    def _commit_serialized_message(self, raw_msg, block=True, callback=None):
        raise AssertionError("not used")

    def _commit_message(self, msg, block=True, callback=None):
        ex = self.executor
        if isinstance(msg, InitNewAppMessage):
            ex.init_new_application(app_id=msg.app_id, max_qubits=msg.max_qubits)
        elif isinstance(msg, OpenEPRSocketMessage):
            pass
        elif isinstance(msg, SubroutineMessage):
            from netqasm.lang.parsing import deserialize
            sub = deserialize(msg.subroutine, flavour=self.flavour)
            self.last_subroutine = sub
            self.subroutines.append(sub)
            ex.consume_execute_subroutine(sub)
        elif isinstance(msg, StopAppMessage):
            list(ex.stop_application(app_id=msg.app_id))
        elif isinstance(msg, SignalMessage):
            pass
        else:
            raise AssertionError(msg)
        if callback is not None:
            callback()


def fresh(name="Alice", seed=0, **conn_kwargs):
    """Return (executor, connection-factory kwargs) for a fresh node 'Alice' (id 0) with peer 'Bob' (id 1)."""
    DebugConnection.node_ids = {"Alice": 0, "Bob": 1}
    SharedMemoryManager.reset_memories()
    BaseNetQASMConnection._app_ids = {}
    BaseNetQASMConnection._app_names = {}
    ex = SimExecutor(name=name, node_id=0, seed=seed)
    return ex


PHI_PLUS_VEC = bell_vec(BellState.PHI_PLUS)


def pair_fidelity(ex: SimExecutor, conn, qubit, pair_index, target=PHI_PLUS_VEC):
    """Fidelity of (local qubit handle, remote partner of pair `pair_index`) with `target`."""
    phys = ex._get_position(app_id=conn.app_id, address=qubit.qubit_id)
    return ex.sv.fidelity([("L", phys), ("R", pair_index)], target)

# =====================================================================================
# DEMO 2 (C10): recv_keep with a post routine (sequential and non-sequential).
# At the moment the post routine gets pair i's qubit, that qubit must be in Phi+ with
# pair i's remote partner; a live bystander qubit must not be touched.
# =====================================================================================
import itertools
import sys

from netqasm.sdk.epr_socket import EPRSocket
from netqasm.sdk.qubit import Qubit


def run_case(bells, n_other, sequential):
    ex = fresh()
    ex.deliveries = [dict(type="K", bell=b) for b in bells]
    seen = []  # (virtual id, fidelity with Phi+) at the moment the post routine measures

    def hook(ex_, lab, vaddr):
        k = len(seen)
        seen.append((vaddr, ex_.sv.fidelity([lab, ("R", k)], PHI_PLUS_VEC)))

    sock = EPRSocket("Bob")
    error = None
    by = []
    with SimConnection("Alice", ex, epr_sockets=[sock]) as conn:
        conn._clear_app_on_exit = False
        others = [Qubit(conn) for _ in range(n_other)]  # live qubits in |0>
        n = len(bells)
        outcomes = conn.new_array(n)

        def post(c, q, pair):
            # consume the pair: measure it (the hook above inspects the state just before)
            q.measure(future=outcomes.get_future_index(pair))

        sock.recv_keep(number=n, post_routine=post, sequential=sequential)
        ex.meas_hook = hook
        try:
            conn.flush()
        except Exception as exc:  # noqa
            error = f"{type(exc).__name__}: {str(exc).splitlines()[0]}"
        ex.meas_hook = None
        for o in others:
            phys = ex._get_position(app_id=conn.app_id, address=o.qubit_id)
            by.append(1 - ex.sv.prob1(("L", phys)))
        conn._builder._pending_commands = []  # nothing more to send when the context closes
    gates = [l for l in ex.log if not l.startswith("deliver")]
    return seen, by, gates, error


def main():
    failures = 0
    cases = 0
    shown = 0
    for sequential in [True, False]:
        for n in [1, 2, 3]:
            for n_other in [0, 1]:
                bad_here = 0
                tot_here = 0
                for bells in itertools.product(list(BellState), repeat=n):
                    seen, by, gates, error = run_case(bells, n_other, sequential)
                    cases += 1
                    tot_here += 1
                    ok = (
                        error is None
                        and len(seen) == n
                        and all(f > 0.999 for _, f in seen)
                        and all(p > 0.999 for p in by)
                    )
                    if not ok:
                        failures += 1
                        bad_here += 1
                        if shown < 6 and bad_here == 1:
                            shown += 1
                            print(f"--- recv_keep(number={n}, post_routine=..., sequential={sequential}), "
                                  f"{n_other} other live qubit(s), link reports {[b.name for b in bells]}")
                            print(f"    gates executed besides the post routine : {[g for g in gates]}")
                            print(f"    expected: every pair in Phi+ when handed to the post routine (fidelity 1.0)"
                                  + (", bystander still |0>" if n_other else ""))
                            print(f"    actual  : (virtual id, fidelity) per pair = {[(v, round(f, 3)) for v, f in seen]}"
                                  + (f", bystander still |0> with prob {[round(p, 3) for p in by]}" if n_other else "")
                                  + (f", run-time error: {error}" if error else ""))
                print(f"sequential={sequential!s:5s} number={n} other_live={n_other}: "
                      f"{bad_here}/{tot_here} Bell tuples violate C10")
    print(f"\n{failures} of {cases} cases violate the property")
    if failures:
        print("FAIL: in the post-routine path the correction is hard-wired to virtual qubit 0")
        sys.exit(1)
    print("OK")


main()
