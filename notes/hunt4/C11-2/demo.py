"""C11 demo 2: on the receiving side the Bell state of pair i is not applied to qubit handle i.

With expect_phi_plus=True (the default) the SDK reads pair i's `bell_state` field from the
entanglement-results array and corrects the received qubit so that the application sees Phi+.
The generated code loads the virtual ID of qubit i into a register and then overwrites that
register with 0, so every correction lands on virtual qubit 0:
  * with one pair and another live qubit, the *other* qubit is rotated and the EPR qubit is not,
  * with several pairs, pair 1, 2, ...'s corrections all land on pair 0's qubit.
(Only on a single-communication-qubit (NV) configuration is 0 the right target.)
"""
import logging
import sys

from netqasm.backend.executor import Executor
from netqasm.backend.messages import (
    InitNewAppMessage,
    OpenEPRSocketMessage,
    SubroutineMessage,
    deserialize_host_msg,
)
from netqasm.backend.network_stack import BaseNetworkStack
from netqasm.lang.parsing.binary import deserialize
from netqasm.qlink_compat import (
    Basis,
    BellState,
    LinkLayerOKTypeK,
    LinkLayerOKTypeM,
    ReturnType,
)
from netqasm.sdk.connection import (
    BaseNetQASMConnection,
    DebugConnection,
    DebugNetworkInfo,
)
from netqasm.sdk.epr_socket import EPRSocket
from netqasm.sdk.shared_memory import SharedMemoryManager

logging.disable(logging.WARNING)

PURPOSE = 103


class Stack(BaseNetworkStack):
    def __init__(self):
        self.requests = []

    def put(self, request):
        self.requests.append(request)

    def setup_epr_socket(self, epr_socket_id, remote_node_id, remote_epr_socket_id, timeout=1.0):
        pass

    def get_purpose_id(self, remote_node_id, epr_socket_id):
        return PURPOSE


class Exec(Executor):
    """Executor on node 0.  Every time a subroutine has to wait, the network stack
    delivers the next scripted response (one response per outstanding pair, in order)."""

    def __init__(self):
        super().__init__(name="Alice")
        self.responses = []
        self.delivered = 0

    @property
    def node_id(self):
        return 0

    def _wait_to_handle_epr_responses(self):
        return  # nothing to sleep on in this single-threaded demo

    def _do_wait(self):
        if not self.responses:
            raise RuntimeError("subroutine waits but the stack has nothing more to deliver")
        self.delivered += 1
        self._handle_epr_response(self.responses.pop(0))


class Conn(BaseNetQASMConnection):
    def __init__(self, app_name, executor, **kwargs):
        self.executor = executor
        super().__init__(app_name, node_name="Alice", **kwargs)

    def _commit_serialized_message(self, raw_msg, block=True, callback=None):
        msg = deserialize_host_msg(raw_msg)
        if isinstance(msg, InitNewAppMessage):
            self.executor.init_new_application(msg.app_id, msg.max_qubits)
        elif isinstance(msg, OpenEPRSocketMessage):
            list(self.executor.setup_epr_socket(msg.epr_socket_id, msg.remote_node_id, msg.remote_epr_socket_id))
        elif isinstance(msg, SubroutineMessage):
            self.executor.consume_execute_subroutine(deserialize(msg.subroutine))

    def _get_network_info(self):
        return DebugNetworkInfo


def fresh():
    SharedMemoryManager.reset_memories()
    DebugConnection.node_ids = {"Alice": 0, "Bob": 1}
    ex = Exec()
    ex.network_stack = Stack()
    return ex


from netqasm.sdk.qubit import Qubit


class RecExec(Exec):
    """Also records the single-qubit rotations that reach the quantum processor."""

    def __init__(self):
        super().__init__()
        self.rotations = []

    def _do_single_qubit_rotation(self, instr, subroutine_id, address, angle):
        self.rotations.append((instr.mnemonic, address))


def fresh2():
    SharedMemoryManager.reset_memories()
    DebugConnection.node_ids = {"Alice": 0, "Bob": 1}
    ex = RecExec()
    ex.network_stack = Stack()
    return ex


def resp_k(seq, phys, bell_state):
    # directionality flag 1: the remote node created, we received
    return LinkLayerOKTypeK(ReturnType.OK_K, 9, phys, 1, seq, PURPOSE, 1, 10, 0, bell_state)


CORRECTION = {
    BellState.PHI_PLUS: [],
    BellState.PHI_MINUS: ["rot_z"],
    BellState.PSI_PLUS: ["rot_x"],
    BellState.PSI_MINUS: ["rot_x", "rot_z"],
}

failures = []


def check(label, got, want):
    ok = got == want
    print(f"  {'ok  ' if ok else 'FAIL'} {label}:\n        expected {want}\n        got      {got}")
    if not ok:
        failures.append(label)


def expected_rotations(qubits, responses):
    out = []
    for q, r in zip(qubits, responses):
        out += [(gate, q.qubit_id) for gate in CORRECTION[r.bell_state]]
    return out


# ---- A: one pair, but the application already holds another qubit ---------------------
print("A: q0 = Qubit(conn); epr = recv_keep()[0]   (pair 0 arrives in state Psi+)")
ex = fresh2()
sock = EPRSocket("Bob", epr_socket_id=3)
responses = [resp_k(0, 20, BellState.PSI_PLUS)]
ex.responses = list(responses)
with Conn("Alice", ex, epr_sockets=[sock]) as conn:
    q0 = Qubit(conn)
    eprs, infos = sock.recv_keep_with_info(number=1)
    conn.flush()
    print(f"  handle of the local qubit has virtual ID {q0.qubit_id}, EPR handle has virtual ID {eprs[0].qubit_id}")
    check("A: handle reads pair 0's Bell state", infos[0].bell_state, BellState.PSI_PLUS)
    check("A: Bell-state correction of pair 0 is applied to the EPR qubit",
          ex.rotations, expected_rotations(eprs, responses))
    q0.measure()
    eprs[0].measure()

# ---- B: three pairs in one request ---------------------------------------------------
print("B: recv_keep(number=3), pairs arrive as Phi+, Phi-, Psi+")
ex = fresh2()
sock = EPRSocket("Bob", epr_socket_id=3)
responses = [resp_k(0, 20, BellState.PHI_PLUS), resp_k(1, 21, BellState.PHI_MINUS), resp_k(2, 22, BellState.PSI_PLUS)]
ex.responses = list(responses)
with Conn("Alice", ex, epr_sockets=[sock]) as conn:
    eprs, infos = sock.recv_keep_with_info(number=3)
    conn.flush()
    check("B: handles read the Bell states of their own pairs", [i.bell_state for i in infos], [r.bell_state for r in responses])
    check("B: correction for pair i is applied to qubit handle i", ex.rotations, expected_rotations(eprs, responses))
    for q in eprs:
        q.measure()

# ---- C: callback form ----------------------------------------------------------------
print("C: recv_keep(number=2, post_routine=...), pairs arrive as Phi+, Phi-")
ex = fresh2()
sock = EPRSocket("Bob", epr_socket_id=3)
responses = [resp_k(0, 20, BellState.PHI_PLUS), resp_k(1, 21, BellState.PHI_MINUS)]
ex.responses = list(responses)
with Conn("Alice", ex, epr_sockets=[sock]) as conn:
    eprs = sock.recv_keep(number=2, post_routine=lambda conn_, q, pair: None)
    conn.flush()
    check("C: correction for pair i is applied to qubit handle i", ex.rotations, expected_rotations(eprs, responses))
    for q in eprs:
        q.measure()

if failures:
    print(f"\nVIOLATION: {len(failures)} checks failed: {failures}")
    sys.exit(1)
print("\nall good")
