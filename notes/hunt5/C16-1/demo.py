"""C16, history-dependent: the SECOND instantiation of a precompiled (templated) subroutine.

A subroutine with a template operand (`rot_x Q0 {n} 1`) is instantiated with a valid
numerator (44) and encoded.  The same Subroutine object is then instantiated again with a
numerator the 8-bit immediate field cannot hold (300).

Expected (C16): the out-of-range operand is rejected - `instantiate` or `bytes()` raises.
Actual: no error at all; the bytes decode to `rot_x Q0 44 1`, i.e. the operand the caller
gave (300) was silently replaced by a different, valid-looking one (the stale 44).

Shown for the three entry points: text assembler, ProtoSubroutine (IR) and the SDK
(`conn.compile()` + `Subroutine.instantiate`, the documented precompilation flow).
"""
import sys

from netqasm.lang.operand import Template
from netqasm.lang.parsing import deserialize
from netqasm.lang.parsing.text import (
    assemble_subroutine,
    parse_text_protosubroutine,
    parse_text_subroutine,
)
from netqasm.sdk.connection import DebugConnection
from netqasm.sdk.qubit import Qubit

TEXT = """
# NETQASM 0.10
# APPID 0
set Q0 0
rot_x Q0 {n} 1
"""

failures = []


def rot_of(raw: bytes) -> str:
    sub = deserialize(raw)
    return [str(i) for i in sub.instructions if i.mnemonic == "rot_x"][0]


def check(name, make_bytes_after_second_instantiate):
    try:
        raw = make_bytes_after_second_instantiate()
    except Exception as err:  # any loud refusal is fine
        print(f"[ok]   {name}: refused with {type(err).__name__}: {err}")
        return
    got = rot_of(raw)
    print(
        f"[FAIL] {name}: asked for numerator 300 (not encodable in 8 bits), expected an "
        f"error, but got bytes without any error that decode to '{got}'"
    )
    failures.append(name)


# 1. text assembler -> Subroutine
def via_text():
    sub = parse_text_subroutine(TEXT)
    sub.instantiate(0, {"n": 44})
    assert rot_of(bytes(sub)) == "rot_x Q0 44 1"
    # sanity: on a fresh object the same value IS rejected
    fresh = parse_text_subroutine(TEXT)
    fresh.instantiate(0, {"n": 300})
    try:
        bytes(fresh)
        raise SystemExit("sanity check failed: fresh object accepted 300")
    except OverflowError:
        pass
    sub.instantiate(0, {"n": 300})  # second use of the same object
    return bytes(sub)


# 2. IR level
def via_proto():
    proto = parse_text_protosubroutine(TEXT)
    proto.instantiate(0, {"n": 44})
    proto.instantiate(0, {"n": 300})
    return bytes(assemble_subroutine(proto))


# 3. SDK precompilation flow
def via_sdk():
    DebugConnection.node_ids = {"Alice": 0}
    conn = DebugConnection("Alice")
    q = Qubit(conn)
    q.rot_X(n=Template("n"), d=1)
    sub = conn.compile()
    sub.instantiate(conn.app_id, {"n": 44})
    conn.commit_subroutine(sub)
    sub.instantiate(conn.app_id, {"n": 300})
    return bytes(sub)


check("text -> Subroutine.instantiate twice", via_text)
check("ProtoSubroutine.instantiate twice", via_proto)
check("SDK compile() + instantiate twice", via_sdk)

if failures:
    print(f"\n{len(failures)} violation(s): out-of-range operand silently replaced by a stale value")
    sys.exit(1)
print("property holds")
