"""C13 finding 4: negative virtual qubit addresses are accepted and alias the end of the unit module.

qalloc / qfree / every qubit look-up only refuse addresses >= the size of the unit module.  A negative
address (registers can hold one: `sub` in a simulator, or a negative entry in the qubit-ID array of
an EPR request) indexes the Python list from the end: in a unit module of 4 qubits, virtual qubit
-1 IS virtual qubit 3.  The application then holds two "allocated virtual qubits" that are one
physical qubit, and freeing one takes the other away.

Expected (property C13): an address outside 0..n-1 is refused like the too-large ones are; no two
allocated virtual qubits map to the same physical qubit; refused operations leave nothing behind.
"""
import sys

from netqasm.backend.executor import Executor
from netqasm.backend.network_stack import BaseNetworkStack
from netqasm.lang.parsing import parse_text_subroutine
from netqasm.sdk.shared_memory import SharedMemoryManager


class Stack(BaseNetworkStack):
    def put(self, request):
        pass

    def setup_epr_socket(self, epr_socket_id, remote_node_id, remote_epr_socket_id, timeout=1.0):
        return None

    def get_purpose_id(self, remote_node_id, epr_socket_id):
        return epr_socket_id


class Controller(Executor):
    @property
    def node_id(self):
        return 0

    def _do_wait(self):
        yield "wait"

    def _wait_to_handle_epr_responses(self):
        return None


def subroutine(app_id, text):
    return parse_text_subroutine(f"# NETQASM 1.0\n# APPID {app_id}\n{text}")


MINUS_ONE = "set R0 0\nset R1 1\nsub Q0 R0 R1\n"  # Q0 = -1

failures = []


def expect(cond, what, got=""):
    print(("ok      " if cond else "VIOLATED") + " " + what + ("" if cond else f"\n           got: {got}"))
    if not cond:
        failures.append(what)


def attempt(ex, app_id, text):
    try:
        ex.consume_execute_subroutine(subroutine(app_id, text))
        return None
    except Exception as exc:
        return f"{type(exc).__name__}: {str(exc).splitlines()[0]}"


SharedMemoryManager.reset_memories()
ex = Controller(name="ctrl")
ex.network_stack = Stack()
ex.init_new_application(app_id=0, max_qubits=4)

err = attempt(ex, 0, MINUS_ONE + "qalloc Q0\n")
expect(err is not None, "qalloc of virtual qubit -1 in a unit module of 4 is refused",
       f"accepted; unit module = {ex._qubit_unit_modules[0]}")
err = attempt(ex, 0, "set Q1 4\nqalloc Q1\n")
expect(err is not None, "(for comparison) qalloc of virtual qubit 4 is refused", "accepted")

err = attempt(ex, 0, "set Q1 3\nqalloc Q1\n")
expect(err is None, "a following valid qalloc of virtual qubit 3 (never allocated) succeeds", err)

positions = {}
for v in (-1, 3):
    try:
        positions[v] = ex._get_position(app_id=0, address=v)
    except Exception as exc:
        positions[v] = type(exc).__name__
expect(
    not (isinstance(positions[-1], int) and positions[-1] == positions[3]),
    "virtual qubits -1 and 3 do not resolve to the same physical qubit",
    f"_get_position: {positions}",
)

# qfree through the alias: free "-1", then the qubit allocated as 3 must still be there
SharedMemoryManager.reset_memories()
ex = Controller(name="ctrl")
ex.network_stack = Stack()
ex.init_new_application(app_id=0, max_qubits=4)
attempt(ex, 0, "set Q1 3\nqalloc Q1\n")
err = attempt(ex, 0, MINUS_ONE + "qfree Q0\n")
expect(err is not None and ex._has_virtual_address(0, 3),
       "qfree of virtual qubit -1 (never allocated) is refused and leaves virtual qubit 3 alone",
       f"qfree -1 -> {err or 'accepted'}; virtual qubit 3 still allocated: {ex._has_virtual_address(0, 3)}")

print()
if failures:
    print(f"{len(failures)} expectation(s) violated")
    sys.exit(1)
print("all expectations hold")
