"""C13 finding 1: stop_application forgets the stopped application's EPR bookkeeping.

Pending receive/create requests (Executor._epr_recv_requests / _epr_create_requests), deferred
responses (Executor._pending_epr_responses) and the suspended subroutines they point to
(Executor._subroutines) survive stop_application.  Later deliveries - to the re-registered
application id, or to a *different* application on a *different* EPR socket - are then served
against that stale state.

Expected (property C13): after stop_application(a) nothing of `a` is left on the controller; a
re-registered `a` starts from scratch; other applications are not affected; used == mapped.
"""
import itertools
import sys

from netqasm.backend.executor import Executor
from netqasm.backend.network_stack import BaseNetworkStack
from netqasm.lang.parsing import parse_text_subroutine
from netqasm.qlink_compat import BellState, LinkLayerOKTypeK, ReturnType
from netqasm.sdk.shared_memory import SharedMemoryManager


class Stack(BaseNetworkStack):
    def put(self, request):
        pass

    def setup_epr_socket(self, epr_socket_id, remote_node_id, remote_epr_socket_id, timeout=1.0):
        return None

    def get_purpose_id(self, remote_node_id, epr_socket_id):
        return epr_socket_id  # one purpose id per EPR socket


class Controller(Executor):
    """The executor as a simulator uses it: waiting yields, a deferred response does not spin."""

    @property
    def node_id(self):
        return 0

    def _do_wait(self):
        yield "wait"

    def _wait_to_handle_epr_responses(self):
        return None


def new_controller():
    SharedMemoryManager.reset_memories()
    ex = Controller(name="ctrl")
    ex.network_stack = Stack()
    return ex


def subroutine(app_id, text):
    return parse_text_subroutine(f"# NETQASM 1.0\n# APPID {app_id}\n{text}")


def recv_keep(app_id, virt_id, sock, then=""):
    """recv_epr for ONE pair that is to be kept in virtual qubit `virt_id`; then wait for it."""
    return subroutine(
        app_id,
        f"""
        set R0 10
        array R0 @0        // entanglement information
        set R0 1
        array R0 @1        // virtual qubit IDs
        set R5 {virt_id}
        store R5 @1[0]
        set R1 1           // remote node
        set R2 {sock}      // EPR socket
        set R3 1
        set R4 0
        recv_epr R1 R2 R3 R4
        wait_all @0[0:10]
        {then}
        """,
    )


def keep_response(ex, sock):
    """A keep-delivery from node 1 on socket `sock`, into a physical qubit the executor hands out."""
    phys = ex._get_unused_physical_qubit()
    return phys, LinkLayerOKTypeK(
        type=ReturnType.OK_K, create_id=0, logical_qubit_id=phys, directionality_flag=1,
        sequence_number=0, purpose_id=sock, remote_node_id=1, goodness=0, goodness_time=0,
        bell_state=BellState.PHI_PLUS,
    )


def mapping(ex):
    return {
        (app, v): p
        for app, um in ex._qubit_unit_modules.items()
        for v, p in enumerate(um)
        if p is not None
    }


failures = []


def expect(cond, what, got):
    print(("ok      " if cond else "VIOLATED") + " " + what + (("" if cond else f"\n           got: {got}")))
    if not cond:
        failures.append(what)


# ---------------------------------------------------------------------------------------------
print("Scenario 1: stop app 0 while its request is pending, register app id 0 again")
ex = new_controller()
ex.init_new_application(app_id=0, max_qubits=2)
old = ex.execute_subroutine(recv_keep(0, virt_id=0, sock=0, then="set R9 99"))
next(old)  # the old incarnation now waits for its pair (virtual qubit 0)
list(ex.stop_application(app_id=0))
expect(
    not any(ex._epr_recv_requests.values()) and not ex._subroutines,
    "after stop_application(0) no request / subroutine of app 0 is left on the controller",
    f"requests={dict(ex._epr_recv_requests)}, subroutines={list(ex._subroutines)}",
)
ex.init_new_application(app_id=0, max_qubits=2)  # same id again
new = ex.execute_subroutine(recv_keep(0, virt_id=1, sock=0))
next(new)  # the new incarnation asks for ONE pair, into virtual qubit 1
phys, resp = keep_response(ex, sock=0)
err = None
try:
    ex._handle_epr_response(resp)
except Exception as exc:  # noqa
    err = exc
expect(
    err is None and mapping(ex) == {(0, 1): phys},
    f"the one delivery ends up in virtual qubit 1 of the new app 0 (physical {phys})",
    f"mapping (app, virtual)->physical = {mapping(ex)}, error = {err!r}",
)
finished = list(itertools.islice(new, 3)) == []
expect(
    (not finished) or ex._has_virtual_address(app_id=0, virtual_address=1),
    "when the new subroutine's wait_all is over, the virtual qubit it asked for (1) is allocated",
    f"wait over: {finished}, virtual qubit 1 allocated: {ex._has_virtual_address(0, 1)}; its own request "
    "is still queued: "
    f"{[(d.subroutine_id, d.virtual_qubit_ids, d.pairs_left) for d in ex._epr_recv_requests[1, 0]]}",
)
from netqasm.lang.parsing import parse_register  # noqa: E402

try:
    list(itertools.islice(old, 3))  # the simulator resumes the subroutine of the STOPPED incarnation
except Exception as exc:  # a refusal would be fine
    print("         (resuming the old subroutine raised", type(exc).__name__ + ")")
r9 = ex._get_register(0, parse_register("R9"))
expect(
    r9 is None,
    "the subroutine of the stopped incarnation does not write registers of the new app 0 (R9 unset)",
    f"R9 of the new app 0 = {r9}",
)

# ---------------------------------------------------------------------------------------------
print("Scenario 2: stop app 0 while a delivery for it is deferred; app 1 uses another socket")
ex = new_controller()
ex.init_new_application(app_id=0, max_qubits=1)
ex.init_new_application(app_id=1, max_qubits=1)
ex.consume_execute_subroutine(subroutine(0, "set Q0 0\nqalloc Q0\n"))  # virtual 0 of app 0 in use
g0 = ex.execute_subroutine(recv_keep(0, virt_id=0, sock=0))
next(g0)
phys0, resp0 = keep_response(ex, sock=0)
ex._handle_epr_response(resp0)  # deferred: virtual qubit 0 of app 0 is still in use
list(ex.stop_application(app_id=0))
expect(
    ex._pending_epr_responses == [],
    "after stop_application(0) no deferred delivery of app 0 is left on the controller",
    f"pending responses: {ex._pending_epr_responses}",
)
g1 = ex.execute_subroutine(recv_keep(1, virt_id=0, sock=1))
next(g1)
phys1, resp1 = keep_response(ex, sock=1)
err = None
try:
    ex._handle_epr_response(resp1)  # a delivery for app 1, on app 1's own socket
except Exception as exc:  # noqa
    err = exc
expect(
    err is None and mapping(ex) == {(1, 0): phys1},
    f"the delivery for app 1 (socket 1) maps virtual qubit 0 of app 1 to physical {phys1}",
    f"mapping = {mapping(ex)}, error = {type(err).__name__}: {str(err).splitlines()[0] if err else ''}",
)
expect(
    ex._used_physical_qubit_addresses == set(mapping(ex).values()),
    "physical qubits marked in use == physical qubits mapped",
    f"in use {sorted(ex._used_physical_qubit_addresses)}, mapped {sorted(mapping(ex).values())}",
)

print()
if failures:
    print(f"{len(failures)} expectation(s) violated")
    sys.exit(1)
print("all expectations hold")
