"""C05 finding 3: the operands of an `if` are looked at when the body is over, so a body that measures again into the
RegFuture the condition is about makes the branch test a register that is only written inside the body.

Program P(first outcome o1):

    r = q1.measure(store_array=False)        # outcome o1
    with r.if_ne(0):                         # (also: conn.if_ne(r, 0, body))
        q2.measure(future=r)                 # "try again", outcome 1
        q3.X()
    flush

Direct execution with o1 == 0: the body is skipped - no second measurement, no X, r == 0.
Direct execution with o1 == 1: the body runs - second measurement, X, r == 1 (second outcome).
"""
import sys

# ---------------------------------------------------------------------------------------------
# Minimal in-process set-up: an SDK connection whose messages are handed to the package's own
# reference Executor (netqasm.backend.executor.Executor).  Only the quantum hooks are filled in:
# they log the gate applications and take measurement outcomes from a script.
# ---------------------------------------------------------------------------------------------
import itertools

from netqasm.backend.executor import Executor
from netqasm.backend.messages import MessageType, deserialize_host_msg
from netqasm.lang.parsing import deserialize
from netqasm.sdk.connection import BaseNetQASMConnection
from netqasm.sdk.network import NetworkInfo

_names = itertools.count()


class LogExecutor(Executor):
    def __init__(self, name, outcomes=()):
        super().__init__(name=name)
        self.oplog = []  # gate applications / measurements, in order
        self.outcomes = list(outcomes)

    def _do_single_qubit_instr(self, instr, subroutine_id, address):
        self.oplog.append((instr.mnemonic, address))

    def _do_single_qubit_rotation(self, instr, subroutine_id, address, angle):
        self.oplog.append((instr.mnemonic, address, round(angle, 6)))

    def _do_two_qubit_instr(self, instr, subroutine_id, address1, address2):
        self.oplog.append((instr.mnemonic, address1, address2))

    def _do_meas(self, subroutine_id, q_address):
        outcome = self.outcomes.pop(0) if self.outcomes else 0
        self.oplog.append(("meas", q_address, outcome))
        return outcome


class _Info(NetworkInfo):
    @classmethod
    def _get_node_id(cls, node_name):
        return 0

    @classmethod
    def _get_node_name(cls, node_id):
        return "node"

    @classmethod
    def get_node_id_for_app(cls, app_name):
        return 0

    @classmethod
    def get_node_name_for_app(cls, app_name):
        return app_name


class Conn(BaseNetQASMConnection):
    def __init__(self, outcomes=(), **kwargs):
        name = f"demo{next(_names)}"
        self.executor = LogExecutor(name, outcomes)
        self.sent = []
        super().__init__(app_name=name, node_name=name, **kwargs)

    def _get_network_info(self):
        return _Info

    def _commit_serialized_message(self, raw_msg, block=True, callback=None):
        msg = deserialize_host_msg(raw_msg)
        if msg.TYPE == MessageType.INIT_NEW_APP:
            self.executor.init_new_application(msg.app_id, msg.max_qubits)
        elif msg.TYPE == MessageType.SUBROUTINE:
            subroutine = deserialize(msg.subroutine)
            self.sent.append(subroutine)
            self.executor.consume_execute_subroutine(subroutine)
        elif msg.TYPE == MessageType.STOP_APP:
            list(self.executor.stop_application(msg.app_id))

    # the controller's own memory (not the host's copy)
    def ctrl_array(self, address):
        return list(self.executor._app_arrays[self.app_id]._get_array(address))

    def ctrl_reg(self, reg):
        return self.executor._get_register(self.app_id, reg)


# ---------------------------------------------------------------------------------------------
from netqasm.sdk.qubit import Qubit

failures = []


def check(what, expected, got):
    ok = expected == got
    print(f"{'ok  ' if ok else 'FAIL'} {what}: expected {expected!r}, got {got!r}")
    if not ok:
        failures.append(what)


def program(o1, form, cond):
    conn = Conn(outcomes=[o1, 1])
    q1, q2, q3 = Qubit(conn), Qubit(conn), Qubit(conn)
    r = q1.measure(store_array=False)
    reg_before = str(r.reg)

    def body(_conn=None):
        q2.measure(future=r)
        q3.X()

    if form == "context":
        with (r.if_ne(0) if cond == "ne0" else r.if_eq(1)):
            body()
    else:
        if cond == "ne0":
            conn.if_ne(r, 0, body)
        else:
            conn.if_eq(r, 1, body)
    error = None
    try:
        conn.flush()
    except Exception as exc:  # noqa
        error = f"{type(exc).__name__}: {str(exc).splitlines()[0]}"
    branch = [str(i) for i in conn.sent[-1].instructions if i.mnemonic in ("beq", "bne")]
    ops = [op for op in conn.executor.oplog if op[0] in ("meas", "x")]
    return reg_before, branch, ops, error


for form in ("context", "callback"):
    # o1 == 0, `if r != 0`: body must be skipped
    reg, branch, ops, error = program(0, form, "ne0")
    print(f"--- {form} form, first outcome 0, `if r != 0`; r was measured into {reg}; branch emitted: {branch}")
    check("operations on the controller", [("meas", 0, 0)], ops)
    check("error from flush", None, error)

    # o1 == 1, `if r == 1`: body must run
    reg, branch, ops, error = program(1, form, "eq1")
    print(f"--- {form} form, first outcome 1, `if r == 1`; r was measured into {reg}; branch emitted: {branch}")
    check("operations on the controller", [("meas", 0, 1), ("meas", 1, 1), ("x", 2)], ops)
    check("error from flush", None, error)

if failures:
    print(f"\n{len(failures)} check(s) failed")
    sys.exit(1)
print("all checks passed")
