"""C07: the expansion of `cnot <carbon> <electron>` lists the SAME two instruction objects twice.

`_map_cnot_carbon_electron` builds the electron Hadamard once (`rot_y e 8 4`, `rot_x e 16 4`) and
does `gates += electron_hadamard` before and after the CPHASE core.  The subroutine the caller
gets back therefore holds each of these objects at two positions.  Any later in-place edit of one
position - here a textbook peephole step that cancels `rot_y e 24 4 ; rot_y e 8 4` (= rotation
by 2 pi) in front of the gate by zeroing both angles - silently rewrites the closing Hadamard
too, and the sequence no longer implements the CNOT.

(The transpiler was already changed so that it does not alias / modify the instruction objects
it is GIVEN; the objects it RETURNS are still aliased.)

Expected: editing instruction k of the returned subroutine changes position k only, so a
unitary-preserving edit leaves the unitary of the whole subroutine unchanged.
"""
import sys

import numpy as np

from netqasm.lang.instr import core, nv
from netqasm.lang.operand import Immediate
from netqasm.lang.parsing.text import parse_text_subroutine
from netqasm.sdk.transpile import NVSubroutineTranspiler

NQ = 2
I2 = np.eye(2, dtype=complex)
PX = np.array([[0, 1], [1, 0]], dtype=complex)
PY = np.array([[0, -1j], [1j, 0]], dtype=complex)
PZ = np.array([[1, 0], [0, -1]], dtype=complex)
PAULI = {"x": PX, "y": PY, "z": PZ}


def rot(axis, n, d):
    a = n * np.pi / 2 ** d
    return np.cos(a / 2) * I2 - 1j * np.sin(a / 2) * PAULI[axis]


def on(q, U):
    return np.kron(U, I2) if q == 0 else np.kron(I2, U)


def ctrl(c, t, U0, U1):
    P0, P1 = np.diag([1, 0]).astype(complex), np.diag([0, 1]).astype(complex)
    if c == 0:
        return np.kron(P0, U0) + np.kron(P1, U1)
    return np.kron(U0, P0) + np.kron(U1, P1)


def unitary(instructions):
    regs, U = {}, np.eye(4, dtype=complex)
    for ins in instructions:
        mn = ins.mnemonic
        if isinstance(ins, core.SetInstruction):
            regs[ins.reg] = ins.imm.value
        elif isinstance(ins, core.RotationInstruction):
            U = on(regs[ins.reg], rot(mn[-1], ins.imm0.value, ins.imm1.value)) @ U
        elif isinstance(ins, core.ControlledRotationInstruction):
            n, d = ins.imm0.value, ins.imm1.value
            U = ctrl(regs[ins.reg0], regs[ins.reg1], rot(mn[-1], n, d), rot(mn[-1], -n, d)) @ U
        elif mn == "cnot":
            U = ctrl(regs[ins.reg0], regs[ins.reg1], I2, PX) @ U
        else:
            raise NotImplementedError(mn)
    return U


def same_up_to_phase(A, B):
    idx = np.unravel_index(np.argmax(np.abs(A)), A.shape)
    if abs(B[idx]) < 1e-9:
        return False
    return np.allclose(A, (A[idx] / B[idx]) * B, atol=1e-8)


def cancel_full_turns(instructions):
    """Peephole: two neighbouring rotations of the same qubit about the same axis whose angles
    add up to a multiple of 2 pi are the identity (up to a global phase): make both `... 0 4`.
    Positions are kept, so branch targets stay valid."""
    done = 0
    for a, b in zip(instructions, instructions[1:]):
        if (
            isinstance(a, core.RotationInstruction)
            and type(a) is type(b)
            and a.reg == b.reg
            and a.angle_denom == b.angle_denom == Immediate(4)
            and a.angle_num.value != 0
            and (a.angle_num.value + b.angle_num.value) % 32 == 0
        ):
            a.angle_num = Immediate(0)
            b.angle_num = Immediate(0)
            done += 1
    return done


TEXT = """# NETQASM 0.0
# APPID 0
set Q0 1
set Q1 0
rot_y Q1 24 4
cnot Q0 Q1
"""


def main():
    want = unitary(parse_text_subroutine(TEXT).instructions)
    out = NVSubroutineTranspiler(parse_text_subroutine(TEXT)).transpile()
    ok_emitted = same_up_to_phase(want, unitary(out.instructions))
    print("as emitted, NV == vanilla up to phase:", ok_emitted)

    ins = out.instructions
    twice = [(i, j) for i in range(len(ins)) for j in range(i + 1, len(ins)) if ins[i] is ins[j]]
    print("positions holding one and the same object:", twice)

    n = cancel_full_turns(ins)
    ok_after = same_up_to_phase(want, unitary(ins))
    print(f"after cancelling {n} pair(s) of rotations that add up to 2 pi: NV == vanilla:", ok_after)
    if ok_emitted and ok_after:
        print("OK")
        return 0
    print("\nExpected: a unitary-preserving edit of positions 2 and 3 leaves the subroutine equivalent")
    print("Happened: position 10 is the same object as position 3 and changed with it:")
    print(out)
    return 1


if __name__ == "__main__":
    sys.exit(main())
