"""C14 demo 1: whether a top-level operation compiles depends on operations that were
already COMPLETED earlier in the same subroutine (since the last flush).

Operation A: a finished nest of loops (depth 12 <= register budget) around one measurement.
Operation B: a plain top-level `create_keep()` issued AFTER A has been closed (nothing is open).

  A ; flush            compiles
  B ; flush            compiles
  A ; flush ; B ; flush   compiles
  A ; B ; flush        expected to compile as well (flush after every 2nd operation)
                       -> RuntimeError("Could not replace constant since no registers left")
"""
import sys
from contextlib import ExitStack

from netqasm.logging.glob import set_log_level
from netqasm.sdk.connection import DebugConnection
from netqasm.sdk.epr_socket import EPRSocket
from netqasm.sdk.qubit import Qubit

set_log_level("ERROR")
DebugConnection.node_ids = {"alice": 0, "bob": 1}


def new_conn():
    sock = EPRSocket("bob")
    conn = DebugConnection("alice", epr_sockets=[sock])
    return conn, sock


def op_a(conn, sock, depth=12):
    """`depth` nested loops around a measurement; completely closed on return."""
    with ExitStack() as stack:
        for _ in range(depth):
            stack.enter_context(conn.loop(2))
        q = Qubit(conn)
        q.H()
        q.measure()


def op_b(conn, sock):
    """A top-level EPR operation (no context is open)."""
    for q in sock.create_keep():
        q.measure()


def op_a2(conn, sock):
    """A shallower, more everyday nest (depth 4): loop > foreach > sequential recv_keep with a
    callback > sequential recv_keep with a callback."""
    arr = conn.new_array(2, [0, 1])
    out = conn.new_array(4)

    def inner_post(c, q, pair):
        q.measure(future=out.get_future_index(pair))

    def outer_post(c, q, pair):
        q.measure(future=out.get_future_index(pair))
        sock.recv_keep(number=2, post_routine=inner_post, sequential=True)

    with conn.loop(2):
        with arr.foreach():
            sock.recv_keep(number=2, post_routine=outer_post, sequential=True)


def run(program):
    """program: list of operations and the string 'flush'. Returns None or the exception."""
    conn, sock = new_conn()
    try:
        for step in program:
            if step == "flush":
                conn.flush()
            else:
                step(conn, sock)
                active = conn.builder._mem_mgr._active_registers
                assert not active, f"registers still reserved after a closed operation: {active}"
    except Exception as exc:  # noqa
        return exc
    return None


failures = 0
for name_a, a in [("12 nested loops", op_a), ("loop>foreach>recv_keep(cb)>recv_keep(cb)", op_a2)]:
    rows = [
        ("A ; flush", [a, "flush"]),
        ("B ; flush", [op_b, "flush"]),
        ("A ; flush ; B ; flush", [a, "flush", op_b, "flush"]),
        ("A ; B ; flush", [a, op_b, "flush"]),
        ("B ; A ; flush", [op_b, a, "flush"]),
    ]
    print(f"A = {name_a},  B = top-level create_keep()")
    for label, program in rows:
        exc = run(program)
        print(f"   {label:28s}: {'compiles' if exc is None else 'FAILS: ' + repr(exc)}")
        if exc is not None:
            failures += 1

if failures:
    print(
        "\nEXPECTED: every line compiles - when B is issued no operation is open, so the registers it\n"
        "          needs must not depend on the (closed) operation A that came before it.\n"
        "HAPPENED: A and B compile separately and with a flush in between, but not in one subroutine."
    )
    sys.exit(1)
print("OK")
