"""C08 / finding 3: the Subroutine object returned by a debug transpilation cannot be executed
(the comments it contains are unknown instructions to the Executor).

Run:  cd /tmp/hunt5/C08/wt && PYTHONPATH=/tmp/hunt5/C08/wt /venv/bin/python /tmp/hunt5/C08/out/3/demo.py
"""
# ---------------------------------------------------------------------------------------
# A minimal state-vector back-end for the package's own Executor (the hooks a simulator
# is meant to fill in).  Every quantum operation looks its qubit up with the executor's
# `_get_position`, exactly like the simulators built on netqasm do.
# ---------------------------------------------------------------------------------------
import cmath
import itertools
import math

import numpy as np

from netqasm.backend.executor import Executor
from netqasm.lang.instr import core

_I = np.eye(2, dtype=complex)
_X = np.array([[0, 1], [1, 0]], dtype=complex)
_Y = np.array([[0, -1j], [1j, 0]], dtype=complex)
_Z = np.array([[1, 0], [0, -1]], dtype=complex)
_GATES = {
    "x": _X,
    "y": _Y,
    "z": _Z,
    "h": (_X + _Z) / math.sqrt(2),
    "k": (_Y + _Z) / math.sqrt(2),
    "s": np.diag([1, 1j]),
    "t": np.diag([1, cmath.exp(1j * math.pi / 4)]),
}
_AXIS = {"x": _X, "y": _Y, "z": _Z}
_names = itertools.count()


def _rot(P, angle):
    return math.cos(angle / 2) * _I - 1j * math.sin(angle / 2) * P


class KetExecutor(Executor):
    NPHYS = 6

    def __init__(self, outcomes_rand):
        super().__init__(name=f"ket{next(_names)}")
        self.ket = np.zeros(2**self.NPHYS, dtype=complex)
        self.ket[0] = 1
        self.rand = list(outcomes_rand)
        self.outcomes = []

    # -- state helpers (physical positions)
    def _ax(self, pos):
        return self.ket.reshape([2] * self.NPHYS), pos

    def _apply1(self, U, pos):
        st = np.moveaxis(self.ket.reshape([2] * self.NPHYS), pos, 0)
        st = np.tensordot(U, st, axes=([1], [0]))
        self.ket = np.moveaxis(st, 0, pos).reshape(-1)

    def _apply_ctrl(self, U0, U1, c, t):
        if c == t:
            raise RuntimeError(f"controlled operation whose control and target are the same physical qubit {c}")
        st = np.moveaxis(self.ket.reshape([2] * self.NPHYS).copy(), [c, t], [0, 1])
        a = np.tensordot(U0, st[0], axes=([1], [0]))
        b = np.tensordot(U1, st[1], axes=([1], [0]))
        self.ket = np.moveaxis(np.stack([a, b]), [0, 1], [c, t]).reshape(-1)

    def _project(self, pos, out):
        st = np.moveaxis(self.ket.reshape([2] * self.NPHYS), pos, 0)
        new = np.zeros_like(st)
        new[out] = st[out]
        new = new / np.linalg.norm(new)
        self.ket = np.moveaxis(new, 0, pos).reshape(-1)

    def _p1(self, pos):
        st = np.moveaxis(self.ket.reshape([2] * self.NPHYS), pos, 0)
        return float(np.sum(np.abs(st[1]) ** 2))

    def _reset(self, pos):
        out = 1 if self._p1(pos) > 0.5 else 0
        self._project(pos, out)
        if out:
            self._apply1(_X, pos)

    # -- hooks of netqasm.backend.executor.Executor
    def _do_single_qubit_instr(self, instr, subroutine_id, address):
        pos = self._get_position(subroutine_id=subroutine_id, address=address)
        if isinstance(instr, core.InitInstruction):
            self._reset(pos)
        else:
            self._apply1(_GATES[instr.mnemonic], pos)

    def _do_single_qubit_rotation(self, instr, subroutine_id, address, angle):
        pos = self._get_position(subroutine_id=subroutine_id, address=address)
        self._apply1(_rot(_AXIS[instr.mnemonic[-1]], angle), pos)

    def _do_controlled_qubit_rotation(
        self, instr, subroutine_id, address1, address2, angle
    ):
        c = self._get_position(subroutine_id=subroutine_id, address=address1)
        t = self._get_position(subroutine_id=subroutine_id, address=address2)
        P = _AXIS[instr.mnemonic[-1]]
        self._apply_ctrl(_rot(P, angle), _rot(P, -angle), c, t)

    def _do_two_qubit_instr(self, instr, subroutine_id, address1, address2):
        a = self._get_position(subroutine_id=subroutine_id, address=address1)
        b = self._get_position(subroutine_id=subroutine_id, address=address2)
        if instr.mnemonic == "cnot":
            self._apply_ctrl(_I, _X, a, b)
        elif instr.mnemonic == "cphase":
            self._apply_ctrl(_I, _Z, a, b)
        elif instr.mnemonic == "mov":
            if a == b:
                raise RuntimeError("mov onto itself")
            st = np.swapaxes(self.ket.reshape([2] * self.NPHYS), a, b)
            self.ket = st.reshape(-1).copy()
        else:
            raise NotImplementedError(instr.mnemonic)

    def _do_meas(self, subroutine_id, q_address):
        pos = self._get_position(subroutine_id=subroutine_id, address=q_address)
        r = self.rand.pop(0)
        out = 1 if r < self._p1(pos) else 0
        self._project(pos, out)
        self.outcomes.append(out)
        return out

    def _clear_phys_qubit_in_memory(self, physical_address):
        self._reset(physical_address)
        yield None

    # -- what an observer can see at the end
    def snapshot(self, app_id, skip_registers=()):
        unit_module = self._qubit_unit_modules[app_id]
        keep = [p for p in unit_module if p is not None]
        virt = [v for v, p in enumerate(unit_module) if p is not None]
        rest = [p for p in range(self.NPHYS) if p not in keep]
        st = np.moveaxis(
            self.ket.reshape([2] * self.NPHYS), keep + rest, list(range(self.NPHYS))
        ).reshape(2 ** len(keep), 2 ** len(rest))
        rho = st @ st.conj().T
        arrays = {
            addr: list(arr)
            for addr, arr in self._app_arrays[app_id]._arrays.items()
        }
        return dict(virt=virt, rho=rho, arrays=arrays, outcomes=list(self.outcomes))


# ---------------------------------------------------------------------------------------
# The demonstration
# ---------------------------------------------------------------------------------------
import sys

from netqasm.lang.instr.flavour import NVFlavour
from netqasm.lang.parsing import deserialize as deserialize_subroutine
from netqasm.lang.parsing.text import parse_text_subroutine
from netqasm.sdk.transpile import NVSubroutineTranspiler

PROGRAM = """
# NETQASM 1.0
# APPID 0
set Q0 0
qalloc Q0
init Q0
set Q0 1
qalloc Q0
init Q0
set Q0 2
qalloc Q0
init Q0
set Q0 1
h Q0
set R0 0
LOOP:
set R1 3
beq R0 R1 EXIT
set Q0 1
set Q1 2
cnot Q0 Q1
set R1 1
add R0 R0 R1
jmp LOOP
EXIT:
"""


def run(subroutine):
    executor = KetExecutor(outcomes_rand=[])
    executor.init_new_application(0, 3)
    executor.consume_execute_subroutine(subroutine)
    return executor.snapshot(0)


expected = run(parse_text_subroutine(PROGRAM))
print("vanilla program: runs")
failures = 0
for debug in (False, True):
    for via_bytes in (False, True):
        transpiled = NVSubroutineTranspiler(parse_text_subroutine(PROGRAM), debug=debug).transpile()
        how = "encoded and decoded again" if via_bytes else "the Subroutine object it returned"
        if via_bytes:
            transpiled = deserialize_subroutine(bytes(transpiled), flavour=NVFlavour())
        try:
            got = run(transpiled)
        except Exception as exc:  # noqa
            failures += 1
            print(
                f"debug={debug}, executing {how}: EXPECTED the same end state, but the run aborted "
                f"with\n    {type(exc).__name__}: {str(exc).splitlines()[0]}"
            )
            continue
        same = np.allclose(got["rho"], expected["rho"], atol=1e-7)
        print(f"debug={debug}, executing {how}:", "same end state" if same else "DIFFERENT end state")
        failures += not same

if failures:
    print(f"\nFAIL: {failures} scenario(s)")
    sys.exit(1)
print("\nOK")
