"""C19: with a tolerance below about 1.9e-7 the decomposition silently drops its fine steps
(every step whose exponent is 32 or more) and returns a sequence that misses the tolerance.

Exponents up to 255 fit in the rotation instruction's 8-bit denominator field, so the dropped
steps were perfectly encodable.
"""
import math
import sys
from fractions import Fraction

from netqasm.lang.encoding import IMMEDIATE_BITS
from netqasm.sdk.toolbox import get_angle_spec_from_float

# pi to far more digits than a double holds, so that the check is independent of the code under test
PI = Fraction(
    "3.14159265358979323846264338327950288419716939937510582097494459230781640628620899"
)


def error(angle: float, nds) -> float:
    """Distance between sum(n * pi / 2^d) and `angle` on the circle (mod 2 pi), exactly."""
    total = sum((Fraction(n, 2**d) for n, d in nds), Fraction(0)) * PI
    diff = (total - Fraction(angle)) % (2 * PI)
    return float(min(diff, 2 * PI - diff))


cases = [
    # (angle, tolerance)
    (1.5e-7, 1e-8),  # within tolerance of nothing, yet nothing is emitted
    (0.3, 1e-9),  # the last step of an ordinary angle is dropped
    (-1.0, 1e-9),  # negative
    (5.0, 1e-9),
    (1.0, 1e-8),
    (math.pi / 4 + 1.5e-7, 1e-7),  # dyadic multiple of pi plus a little
    (2 * math.pi + 1.3e-7, 1e-9),  # just beyond a full turn
    (1e6 + 0.123, 1e-9),  # far beyond 2 pi
]

failures = 0
for angle, tol in cases:
    nds = get_angle_spec_from_float(angle, tol=tol)
    fields_ok = all(
        type(n) is int and type(d) is int and 0 <= n < 2**IMMEDIATE_BITS and 0 <= d < 2**IMMEDIATE_BITS
        for n, d in nds
    )
    err = error(angle, nds)
    ok = fields_ok and err <= tol
    print(
        f"angle={angle!r:<22} tol={tol:g}: steps={nds}\n"
        f"    expected |sum - angle| (mod 2 pi) <= {tol:g}, got {err:.3e}"
        f"  -> {'ok' if ok else 'VIOLATION'}"
    )
    if not ok:
        failures += 1

# The same tolerances are met when the tolerance is coarse enough that no step reaches exponent 32
assert error(0.3, get_angle_spec_from_float(0.3, tol=1e-6)) <= 1e-6

# How common is it?  A deterministic sweep over [-10, 10] at the finest tolerance of the domain.
sweep = [(-10 + 20 * k / 1999) for k in range(2000)]
missed = [a for a in sweep if error(a, get_angle_spec_from_float(a, tol=1e-9)) > 1e-9]
worst = max(error(a, get_angle_spec_from_float(a, tol=1e-9)) for a in sweep)
print(f"\nsweep of {len(sweep)} angles in [-10, 10] with tol=1e-9: {len(missed)} miss the tolerance, worst error {worst:.3e}")
if missed:
    failures += 1

if failures:
    print(f"\n{failures} checks failed: the returned sequence misses the stated tolerance")
    sys.exit(1)
print("all requests met their tolerance")
