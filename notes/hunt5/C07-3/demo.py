"""C07: the matrices published for rot_y / crot_y (and the H, K, S, T, Z, CNOT... expansions built
from them) stop being the operators their mnemonics denote once a consumer has touched an array
that `netqasm.util.quantum_gates.gate_to_matrix` handed out.

`gate_to_matrix(GenericInstr.Y)` returns the module-level array `Y` itself - the very object
that sits in `PAULIS`, from which `get_rotation_matrix` / `get_controlled_rotation_matrix` build
every rotation matrix of every `nv.*` and `vanilla.*` rotation instruction.  A simulator that
post-processes the returned matrix in place (here: complex conjugate, `out=` the same array)
silently changes what all later `to_matrix()` calls in the process return.

Expected: to_matrix() of an instruction depends only on the instruction.
"""
import sys

import numpy as np

from netqasm.lang.instr import nv, vanilla
from netqasm.lang.ir import GenericInstr
from netqasm.lang.parsing.text import parse_text_subroutine
from netqasm.sdk.transpile import NVSubroutineTranspiler
from netqasm.util.quantum_gates import gate_to_matrix

I2 = np.eye(2, dtype=complex)
PY = np.array([[0, -1j], [1j, 0]], dtype=complex)
REF_H = np.array([[1, 1], [1, -1]], dtype=complex) / np.sqrt(2)


def ref_rot_y(n, d):
    angle = n * np.pi / 2 ** d
    return np.cos(angle / 2) * I2 - 1j * np.sin(angle / 2) * PY


def same_up_to_phase(A, B):
    idx = np.unravel_index(np.argmax(np.abs(A)), A.shape)
    if abs(B[idx]) < 1e-9:
        return False
    return np.allclose(A, (A[idx] / B[idx]) * B, atol=1e-8)


def nv_h_matrix():
    """matrix of what the NV transpiler emits for `h Q0`, from the published matrices"""
    sub = parse_text_subroutine("# NETQASM 0.0\n# APPID 0\nset Q0 0\nh Q0\n")
    out = NVSubroutineTranspiler(sub).transpile()
    U = I2
    for ins in out.instructions:
        if hasattr(ins, "to_matrix"):
            U = ins.to_matrix() @ U
    return U


def checks():
    sub = parse_text_subroutine("# NETQASM 0.0\n# APPID 0\nset Q0 0\nrot_y Q0 8 4\n")
    van = sub.instructions[1]
    assert isinstance(van, vanilla.RotYInstruction)
    nvi = nv.RotYInstruction(reg=van.reg, imm0=van.imm0, imm1=van.imm1)
    crot = nv.ControlledRotYInstruction(reg0=van.reg, reg1=van.reg, imm0=van.imm0, imm1=van.imm1)
    return {
        "vanilla rot_y 8 4 == R_y(pi/2)": same_up_to_phase(van.to_matrix(), ref_rot_y(8, 4)),
        "nv rot_y 8 4 == R_y(pi/2)": same_up_to_phase(nvi.to_matrix(), ref_rot_y(8, 4)),
        "nv crot_y 8 4 target part == R_y(pi/2)": same_up_to_phase(
            crot.to_matrix_target_only(), ref_rot_y(8, 4)),
        "NV expansion of h == H": same_up_to_phase(nv_h_matrix(), REF_H),
    }


def main():
    before = checks()
    print("fresh process:", before)

    # --- a consumer of the published matrices (e.g. a simulator backend) ---------------------
    m = gate_to_matrix(GenericInstr.Y)
    np.conjugate(m, out=m)  # wants Y* for its own bookkeeping; works on "its" array in place
    # ------------------------------------------------------------------------------------------

    after = checks()
    print("after a consumer edited the array it got from gate_to_matrix(Y):", after)
    if all(before.values()) and all(after.values()):
        print("OK")
        return 0
    print("\nExpected: the same answers as in the fresh process")
    print("Happened: rot_y / crot_y now publish the rotation about -Y, the H expansion is no longer H")
    print("gate_to_matrix(ROT_Y, angle=(8, 4)) =\n",
          np.round(gate_to_matrix(GenericInstr.ROT_Y, angle=(8, 4)), 3))
    return 1


if __name__ == "__main__":
    sys.exit(main())
