"""C07: a carbon-carbon CNOT / CPHASE issued after the electron was released.

The NV expansion of a carbon-carbon gate borrows the electron (virtual qubit 0): it emits
`set Qs 0` and three-CROT swaps around the gate.  It does so no matter whether the application
still owns virtual qubit 0.  After the electron was measured (the SDK frees it - on NV this is the
ordinary way to read out anything) the emitted sequence addresses a qubit the application does
not have, and netqasm's own Executor refuses it (NotAllocatedError), while the vanilla gate it
replaces runs fine on the same Executor.

Expected: both subroutines run and leave carbons 1, 2 in the same (Bell) state.
"""
import sys
from copy import deepcopy

import numpy as np

from netqasm.backend.executor import Executor
from netqasm.lang.instr import core
from netqasm.lang.parsing.text import assemble_subroutine
from netqasm.sdk.connection import DebugConnection
from netqasm.sdk.qubit import Qubit
from netqasm.sdk.shared_memory import SharedMemoryManager
from netqasm.sdk.transpile import NVSubroutineTranspiler

NQ = 3  # physical qubits
I2 = np.eye(2, dtype=complex)
PX = np.array([[0, 1], [1, 0]], dtype=complex)
PY = np.array([[0, -1j], [1j, 0]], dtype=complex)
PZ = np.array([[1, 0], [0, -1]], dtype=complex)
PAULI = {"x": PX, "y": PY, "z": PZ}
GATES = {
    "x": PX, "y": PY, "z": PZ, "h": (PX + PZ) / np.sqrt(2), "k": (PY + PZ) / np.sqrt(2),
    "s": np.diag([1, 1j]), "t": np.diag([1, np.exp(1j * np.pi / 4)]),
}


def rot(axis, angle):
    return np.cos(angle / 2) * I2 - 1j * np.sin(angle / 2) * PAULI[axis]


def on(q, U):
    m = np.eye(1, dtype=complex)
    for i in range(NQ):
        m = np.kron(m, U if i == q else I2)
    return m


def ctrl(c, t, U0, U1):
    assert c != t
    m0 = np.eye(1, dtype=complex)
    m1 = np.eye(1, dtype=complex)
    for i in range(NQ):
        m0 = np.kron(m0, np.diag([1, 0]) if i == c else (U0 if i == t else I2))
        m1 = np.kron(m1, np.diag([0, 1]) if i == c else (U1 if i == t else I2))
    return m0 + m1


class SimExecutor(Executor):
    """netqasm's Executor + a 3-qubit state vector.  Qubits are looked up the way every
    simulator backend does it: through Executor._get_position (virtual -> physical)."""

    def __init__(self):
        super().__init__(name="sim")
        self.state = np.zeros(2 ** NQ, dtype=complex)
        self.state[0] = 1
        self.rng = np.random.default_rng(7)

    def _measure(self, pos):
        p1 = sum(abs(a) ** 2 for i, a in enumerate(self.state) if (i >> (NQ - 1 - pos)) & 1)
        out = int(self.rng.random() < p1)
        proj = on(pos, np.diag([1 - out, out]).astype(complex))
        self.state = proj @ self.state
        self.state /= np.linalg.norm(self.state)
        return out

    def _do_single_qubit_instr(self, instr, subroutine_id, address):
        pos = self._get_position(subroutine_id, address)
        if isinstance(instr, core.InitInstruction):
            if self._measure(pos):
                self.state = on(pos, PX) @ self.state
        else:
            self.state = on(pos, GATES[instr.mnemonic]) @ self.state

    def _do_single_qubit_rotation(self, instr, subroutine_id, address, angle):
        pos = self._get_position(subroutine_id, address)
        self.state = on(pos, rot(instr.mnemonic[-1], angle)) @ self.state

    def _do_controlled_qubit_rotation(self, instr, subroutine_id, address1, address2, angle):
        c, t = self._get_positions(subroutine_id, [address1, address2])
        ax = instr.mnemonic[-1]
        self.state = ctrl(c, t, rot(ax, angle), rot(ax, -angle)) @ self.state

    def _do_two_qubit_instr(self, instr, subroutine_id, address1, address2):
        c, t = self._get_positions(subroutine_id, [address1, address2])
        U1 = {"cnot": PX, "cphase": PZ}[instr.mnemonic]
        self.state = ctrl(c, t, I2, U1) @ self.state

    def _do_meas(self, subroutine_id, q_address):
        return self._measure(self._get_position(subroutine_id, q_address))

    def carbons(self):
        """reduced state of virtual qubits 1 and 2"""
        p1 = self._get_position(app_id=0, address=1)
        p2 = self._get_position(app_id=0, address=2)
        rest = [i for i in range(NQ) if i not in (p1, p2)]
        psi = self.state.reshape([2] * NQ)
        psi = np.transpose(psi, [p1, p2] + rest).reshape(4, -1)
        return psi @ psi.conj().T


def build():
    with DebugConnection("Alice", compiler=NVSubroutineTranspiler) as conn:
        e = Qubit(conn)  # virtual qubit 0: the electron
        c1 = Qubit(conn)  # carbon 1
        c2 = Qubit(conn)  # carbon 2
        e.measure()  # measures and releases the electron
        c1.H()
        c1.cnot(c2)  # carbon-carbon gate: the transpiler borrows the electron
        proto = conn.builder.subrt_pop_pending_subroutine()
        vanilla = assemble_subroutine(deepcopy(proto))
        nv = conn.builder.subrt_compile_subroutine(proto)
    return vanilla, nv


def execute(subroutine):
    SharedMemoryManager.reset_memories()
    ex = SimExecutor()
    ex.init_new_application(app_id=0, max_qubits=3)
    ex.consume_execute_subroutine(subroutine)
    return ex.carbons()


def main():
    vanilla, nv = build()
    want = execute(vanilla)
    print("vanilla subroutine: runs; carbons 1,2 end in rho with diag",
          np.round(np.real(np.diag(want)), 3))
    try:
        got = execute(nv)
    except Exception as exc:  # noqa
        first = str(exc).splitlines()[0]
        print("NV subroutine     : FAILED at run time:", type(exc).__name__, first)
        print("\nExpected: the NV expansion of `cnot carbon1 carbon2` implements the same unitary")
        print("Happened: it acts on virtual qubit 0, which the application released before")
        print(nv)
        return 1
    if not np.allclose(want, got, atol=1e-8):
        print("NV subroutine leaves the carbons in a different state")
        return 1
    print("NV subroutine     : same state. OK")
    return 0


if __name__ == "__main__":
    sys.exit(main())
