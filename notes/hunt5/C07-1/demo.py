"""C07: the role (electron / carbon) of a two-qubit gate's operands is decided from the last
`set Qn <imm>` the transpiler walked past - even when the register has been overwritten since.

The SDK addresses a qubit whose ID is only known at run time (a `FutureQubit`, handed to the
`post_routine` of a sequential `create_keep`) with `load Q0 @ids[i]`.  NVSubroutineTranspiler
records Q-register values only for `set`; any other write (`load`, `add`, ...) leaves the OLD value
in its table.  So what the gate expands to depends on what happened to Q0 *earlier in the
subroutine*: here an H on carbon 1 (`set Q0 1`) precedes the EPR loop, the transpiler therefore
takes the freshly entangled electron (virtual ID 0, loaded into Q0) for "carbon 1", and expands
`cnot electron carbon2` as a carbon-carbon gate: `set Q2 0` + SWAP(Q2, Q0) ... with Q2 == Q0 == 0
at run time, i.e. controlled rotations whose control and target are the same qubit.

Expected: between the same non-unitary events, the NV subroutine applies the same unitary (up to
a global phase) as the vanilla subroutine it was made from.
"""
import sys
from copy import deepcopy

import numpy as np

from netqasm.lang.instr import core
from netqasm.lang.operand import Register
from netqasm.lang.parsing.text import assemble_subroutine
from netqasm.sdk.connection import DebugConnection
from netqasm.sdk.epr_socket import EPRSocket
from netqasm.sdk.qubit import Qubit
from netqasm.sdk.transpile import NVSubroutineTranspiler

NQ = 3  # virtual qubits 0 (electron), 1, 2 (carbons)
I2 = np.eye(2, dtype=complex)
PX = np.array([[0, 1], [1, 0]], dtype=complex)
PY = np.array([[0, -1j], [1j, 0]], dtype=complex)
PZ = np.array([[1, 0], [0, -1]], dtype=complex)
PAULI = {"x": PX, "y": PY, "z": PZ}
GATES = {
    "x": PX, "y": PY, "z": PZ, "h": (PX + PZ) / np.sqrt(2), "k": (PY + PZ) / np.sqrt(2),
    "s": np.diag([1, 1j]), "t": np.diag([1, np.exp(1j * np.pi / 4)]),
}


class SameQubit(Exception):
    pass


def rot(axis, n, d):
    angle = n * np.pi / 2 ** d
    return np.cos(angle / 2) * I2 - 1j * np.sin(angle / 2) * PAULI[axis]


def on(q, U):
    m = np.eye(1, dtype=complex)
    for i in range(NQ):
        m = np.kron(m, U if i == q else I2)
    return m


def ctrl(c, t, U0, U1):
    if c == t:
        raise SameQubit(f"control and target are both virtual qubit {c}")
    m0 = np.eye(1, dtype=complex)
    m1 = np.eye(1, dtype=complex)
    for i in range(NQ):
        m0 = np.kron(m0, np.diag([1, 0]) if i == c else (U0 if i == t else I2))
        m1 = np.kron(m1, np.diag([0, 1]) if i == c else (U1 if i == t else I2))
    return m0 + m1


def interpret(subroutine):
    """Run the classical part for real, collect the unitary applied between two
    non-unitary quantum events (qalloc, init, meas, qfree, create_epr, wait_all)."""
    regs, arrays = {}, {}
    segments, U = [], np.eye(2 ** NQ, dtype=complex)
    instrs = subroutine.instructions
    pc = 0

    def val(x):
        return regs[x] if isinstance(x, Register) else x.value

    while pc < len(instrs):
        ins = instrs[pc]
        pc += 1
        mn = ins.mnemonic
        if isinstance(ins, core.SetInstruction):
            regs[ins.reg] = ins.imm.value
        elif isinstance(ins, core.ArrayInstruction):
            arrays[ins.address.address] = [None] * regs[ins.size]
        elif isinstance(ins, core.StoreInstruction):
            arrays[ins.entry.address.address][regs[ins.entry.index]] = regs[ins.reg]
        elif isinstance(ins, core.LoadInstruction):
            regs[ins.reg] = arrays[ins.entry.address.address][regs[ins.entry.index]]
        elif isinstance(ins, core.AddInstruction):
            regs[ins.reg0] = regs[ins.reg1] + regs[ins.reg2]
        elif isinstance(ins, core.SubInstruction):
            regs[ins.reg0] = regs[ins.reg1] - regs[ins.reg2]
        elif isinstance(ins, core.JmpInstruction):
            pc = ins.line.value
        elif isinstance(ins, core.BranchBinaryInstruction):
            a, b = regs[ins.reg0], regs[ins.reg1]
            if {"beq": a == b, "bne": a != b, "blt": a < b, "bge": a >= b}[mn]:
                pc = ins.line.value
        elif isinstance(ins, core.BranchUnaryInstruction):
            if {"bez": regs[ins.reg] == 0, "bnz": regs[ins.reg] != 0}[mn]:
                pc = ins.line.value
        elif isinstance(ins, core.SingleQubitInstruction):
            U = on(regs[ins.reg], GATES[mn]) @ U
        elif isinstance(ins, core.RotationInstruction):
            U = on(regs[ins.reg], rot(mn[-1], ins.imm0.value, ins.imm1.value)) @ U
        elif isinstance(ins, core.ControlledRotationInstruction):
            n, d = ins.imm0.value, ins.imm1.value
            try:
                U = ctrl(regs[ins.reg0], regs[ins.reg1], rot(mn[-1], n, d), rot(mn[-1], -n, d)) @ U
            except SameQubit as exc:
                raise SameQubit(f"line {pc - 1}: `{ins}` with {ins.reg0}={regs[ins.reg0]}, "
                                f"{ins.reg1}={regs[ins.reg1]}: {exc}")
        elif isinstance(ins, core.TwoQubitInstruction):
            U = ctrl(regs[ins.reg0], regs[ins.reg1], I2, {"cnot": PX, "cphase": PZ}[mn]) @ U
        elif mn in ("qalloc", "init", "meas", "qfree", "create_epr", "wait_all"):
            if mn == "meas":
                regs[ins.creg] = 0
            segments.append((mn, U))
            U = np.eye(2 ** NQ, dtype=complex)
        elif mn in ("ret_arr", "ret_reg"):
            pass
        else:
            raise NotImplementedError(mn)
    segments.append(("end", U))
    return segments


def same_up_to_phase(A, B):
    idx = np.unravel_index(np.argmax(np.abs(A)), A.shape)
    if abs(B[idx]) < 1e-9:
        return False
    return np.allclose(A, (A[idx] / B[idx]) * B, atol=1e-8)


def build():
    DebugConnection.node_ids = {"Alice": 0, "Bob": 1}
    epr_socket = EPRSocket("Bob")
    with DebugConnection("Alice", epr_sockets=[epr_socket], compiler=NVSubroutineTranspiler) as conn:
        e = Qubit(conn)  # virtual 0 = electron
        c1 = Qubit(conn)  # carbon 1
        c2 = Qubit(conn)  # carbon 2
        e.measure()  # electron is free again for entanglement
        c1.H()  # <- the earlier use of Q0 (`set Q0 1`) the transpiler remembers

        def post(_conn, q, _pair):  # q: FutureQubit, lives on the electron (virtual 0)
            q.cnot(c2)  # `load Q0 @ids[pair]; set Q1 2; cnot Q0 Q1`
            q.measure()

        epr_socket.create_keep(number=2, sequential=True, post_routine=post)
        proto = conn.builder.subrt_pop_pending_subroutine()
        vanilla = assemble_subroutine(deepcopy(proto))
        nv = conn.builder.subrt_compile_subroutine(proto)
    return vanilla, nv


def main():
    vanilla, nv = build()
    want = interpret(vanilla)
    print(f"vanilla subroutine: {len(want)} unitary segments, all well defined")
    try:
        got = interpret(nv)
    except SameQubit as exc:
        print("NV subroutine     :", exc)
        print("\nExpected: `cnot <electron> <carbon 2>` becomes crot_x Q0 Q1 / rot_z Q0 / rot_x Q1")
        print("Happened: expanded as a carbon-carbon gate that borrows the electron it acts on:")
        lines = str(nv).splitlines()
        start = next(i for i, ln in enumerate(lines) if " load Q0" in ln)
        print("\n".join(lines[start:start + 6]) + "\n   ...")
        return 1
    if [m for m, _ in want] != [m for m, _ in got]:
        print("different event structure")
        return 1
    for k, ((m, A), (_, B)) in enumerate(zip(want, got)):
        if not same_up_to_phase(A, B):
            print(f"segment {k} (before {m}): NV unitary differs from the vanilla one")
            return 1
    print("NV subroutine     : every segment equals the vanilla one up to a global phase. OK")
    return 0


if __name__ == "__main__":
    sys.exit(main())
