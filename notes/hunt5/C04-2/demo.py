"""C04 / finding 2: negative values are used as Python "from the end" positions.

A register that holds a negative number (e.g. the result of `sub`) and is used as array
index, as virtual qubit address, or a negative branch target, is not refused: it selects an
element counted from the END of the array / unit module / instruction list.
Later, correct, instructions then fault (or read wrong data) because of it.
"""
import sys

from netqasm.backend.executor import Executor
from netqasm.lang.encoding import RegisterName
from netqasm.lang.parsing import parse_text_subroutine
from netqasm.sdk.shared_memory import SharedMemoryManager

HEADER = "# NETQASM 1.0\n# APPID 0\n"
failures = []


def fresh(max_qubits):
    SharedMemoryManager.reset_memories()
    ex = Executor(name="node")
    ex.init_new_application(app_id=0, max_qubits=max_qubits)
    return ex


def run(ex, text):
    """-> None if the subroutine ran to its end, else the first line of the error message"""
    try:
        ex.consume_execute_subroutine(parse_text_subroutine(HEADER + text))
    except Exception as exc:  # noqa
        return f"{type(exc).__name__}: " + str(exc).split("\n")[0]
    return None


def reg(ex, index, name=RegisterName.R):
    return ex._registers[0][name][index]


# ---------------------------------------------------------------- (a) array index
ex = fresh(1)
assert run(ex, """
set R0 3
array R0 @0
set R1 10
set R2 0
store R1 @0[R2]
set R1 20
set R2 1
store R1 @0[R2]
set R1 30
set R2 2
store R1 @0[R2]
""") is None
err = run(ex, """
set R3 0
set R4 1
sub R3 R3 R4
set R5 99
store R5 @0[R3]
""")
arr = list(ex._app_arrays[0]._get_array(0))
print("(a) store through index register holding 0 - 1 = -1 into an array of length 3")
print("    expected: fault 'At line 4' (index outside the array), array stays [10, 20, 30]")
print(f"    got     : error={err!r}, array={arr}")
if err is None or not err.split(": ", 1)[1].startswith("At line 4") or arr != [10, 20, 30]:
    failures.append(f"(a) store @0[-1] was executed: array is {arr}, error {err!r}")

# ---------------------------------------------------------------- (b) qubit address
ex = fresh(2)
err1 = run(ex, """
set Q0 0
set Q1 1
sub Q0 Q0 Q1
qalloc Q0
""")
unit_module = list(ex._qubit_unit_modules[0])
print("(b) qalloc with virtual address -1 in a unit module of 2 qubits")
print("    expected: fault 'At line 3' (address outside the unit module), nothing allocated")
print(f"    got     : error={err1!r}, unit module={unit_module}")
if err1 is None or "At line 3" not in err1 or unit_module != [None, None]:
    failures.append(f"(b) qalloc -1 allocated a qubit: unit module {unit_module}, error {err1!r}")
err2 = run(ex, """
set Q1 1
qalloc Q1
""")
print("    afterwards the first ever `qalloc` of virtual address 1:")
print("    expected: succeeds")
print(f"    got     : {err2!r}")
if err2 is not None:
    failures.append(f"(b) first qalloc of address 1 faults as double allocation: {err2!r}")

# ---------------------------------------------------------------- (c) branch target
ex = fresh(1)
assert run(ex, "set R0 0\nset R1 1\nset R2 2\n") is None
err = run(ex, """
add R0 R0 R1
bge R0 R2 4
jmp -1
set R7 77
""")
r0, r7 = reg(ex, 0), reg(ex, 7)
print("(c) `jmp -1` at line 2 of a 4-line subroutine")
print("    expected: execution ends at line 2 (fault naming line 2, or plain termination);")
print("              line 0 ran once (R0 == 1) and line 3 never ran (R7 undefined)")
print(f"    got     : error={err!r}, R0={r0}, R7={r7}")
if r0 != 1 or r7 is not None or (err is not None and "At line 2" not in err):
    failures.append(
        f"(c) jmp -1 executed the LAST line and restarted at line 0: R0={r0}, R7={r7}, error {err!r}"
    )
err = run(ex, "set R0 0\njmp -7\n")
print("    `jmp -7` at line 1 of a 2-line subroutine: expected an error naming line 1 (or termination)")
print(f"    got     : {err!r}")
if err is not None and "At line 1" not in err:
    failures.append(f"(c) error for jmp -7 does not name the line: {err!r}")

if failures:
    print("\nVIOLATION:")
    for f in failures:
        print(" -", f)
    sys.exit(1)
print("OK")
