"""C15: a field value that is an instance of an int subclass carrying its value in
__int__/__index__/__eq__ (the SDK's own Future, once it is resolved) is written into every
message as the raw int payload 0, silently.  bytes(msg) therefore does not deserialise to a
message with the same field values."""
import sys

from netqasm.backend.messages import (
    InitNewAppMessage,
    OpenEPRSocketMessage,
    ReturnArrayMessage,
    ReturnRegMessage,
    deserialize_host_msg,
    deserialize_return_msg,
)
from netqasm.lang.encoding import Register
from netqasm.sdk.connection import DebugConnection
from netqasm.sdk.qubit import Qubit
from netqasm.sdk.shared_memory import SharedMemory


class Conn(DebugConnection):
    """DebugConnection with one persistent shared memory (as every real connection has)."""

    _mem = None

    @property
    def shared_memory(self):
        if self._mem is None:
            self._mem = SharedMemory()
        return self._mem


failures = []


def check(what, expected, got):
    ok = expected == got
    print(f"{'ok  ' if ok else 'FAIL'} {what}: expected {expected!r}, got {got!r}")
    if not ok:
        failures.append(what)


with Conn("alice") as conn:
    # history: a first subroutine measures a qubit; the controller returns outcome 3 -> the
    # Future `m` the host still holds is now resolved and "behaves like an int" (futures.py)
    m = Qubit(conn).measure()
    conn.flush()
    conn.shared_memory.init_new_array(m._address, new_array=[3])
    assert m.value == 3 and int(m) == 3 and m == 3
    assert isinstance(m, int) and -(2**31) <= m < 2**31  # inside every declared width used below

    # controller -> host: the message object itself holds the values 3 / [3, None, 7] ...
    ret = ReturnArrayMessage(address=m, values=[m, None, 7])
    assert ret.address == 3 and ret.values == [3, None, 7]
    back = deserialize_return_msg(bytes(ret))
    # ... and its own bytes say 0 / [0, None, 7]
    check("ReturnArrayMessage.address (vs. the message's own field)", ret.address, back.address)
    check("ReturnArrayMessage.values  (vs. the message's own field)", ret.values, back.values)

    # the fixed-size messages lose the value already when the field is stored (so they are
    # self-consistent, but do not carry the value they were made with)
    back = deserialize_return_msg(bytes(ReturnRegMessage(Register(0, 1, 0), m)))
    check("ReturnRegMessage.value", 3, back.value)
    msg = OpenEPRSocketMessage(
        app_id=conn.app_id, epr_socket_id=m, remote_node_id=m, remote_epr_socket_id=m, min_fidelity=m
    )
    back = deserialize_host_msg(bytes(msg))
    check("OpenEPRSocketMessage.epr_socket_id", 3, back.epr_socket_id)
    check("OpenEPRSocketMessage.remote_node_id", 3, back.remote_node_id)
    check("OpenEPRSocketMessage.remote_epr_socket_id", 3, back.remote_epr_socket_id)
    check("OpenEPRSocketMessage.min_fidelity", 3, back.min_fidelity)
    back = deserialize_host_msg(bytes(InitNewAppMessage(app_id=m, max_qubits=m)))
    check("InitNewAppMessage.app_id", 3, back.app_id)
    check("InitNewAppMessage.max_qubits", 3, back.max_qubits)

sys.exit(1 if failures else 0)
