"""C16, value class "int subclass that carries its value in __int__", subroutine header and
hardware-mode rotation numerator: the value that is range-CHECKED is not the value that is ENCODED.

For register indices, addresses and command fields the code first takes `int(x)` and then checks and
encodes that one value.  Two places still check the object itself (its raw int / its comparison
operators) and only afterwards convert:

* `Subroutine.cstructs`: `assert_fits(self.app_id, APP_ID)` followed by `app_id=int(self.app_id)`
  (and the same for the two version bytes);
* `sdk.transpile.get_hardware_num_denom`: `assert_fits(instr.angle_num.value, IMMEDIATE)` followed by
  arithmetic on the object.

Expected (C16): app id 70000 / numerator 300 is rejected with an error, like it is for a plain int.
Actual: accepted; the header is encoded with app id 4464 (= 70000 mod 65536), the rotation with
numerator 0.
"""
import sys

from netqasm.lang.encoding import RegisterName
from netqasm.lang.instr import core, vanilla
from netqasm.lang.operand import Immediate, Register
from netqasm.lang.parsing import deserialize
from netqasm.lang.subroutine import Subroutine


class Tagged(int):
    """An int subclass whose integer value is what __int__ returns (the raw int stays 0),
    the same construction as the SDK's Future, but without overriding the comparisons."""

    def __new__(cls, value):
        self = int.__new__(cls, 0)
        self._v = value
        return self

    def __int__(self):
        return self._v


failures = 0

# --- sanity: in an instruction field the same object IS rejected by its integer value -------------
try:
    bytes(Subroutine([core.SetInstruction(reg=Register(RegisterName.R, 0), imm=Immediate(Tagged(2**32)))], app_id=0))
    print("[FAIL] sanity: set R0 <2**32> accepted")
    failures += 1
except OverflowError:
    print("[ok]   set R0 Tagged(2**32): refused (checked by int(value))")

# --- 1. app id ------------------------------------------------------------------------------------
sub = Subroutine(instructions=[], app_id=Tagged(70000))
try:
    raw = bytes(sub)
except OverflowError as err:
    print(f"[ok]   app id Tagged(70000): refused ({err})")
else:
    print(
        f"[FAIL] app id Tagged(70000) (int() == {int(sub.app_id)}): expected OverflowError, got header "
        f"{raw.hex()} which decodes to app id {deserialize(raw).app_id}"
    )
    failures += 1

# --- 2. version byte ------------------------------------------------------------------------------
sub = Subroutine(instructions=[], app_id=0, netqasm_version=(0, Tagged(300)))
try:
    raw = bytes(sub)
except OverflowError as err:
    print(f"[ok]   version (0, Tagged(300)): refused ({err})")
else:
    print(f"[FAIL] version (0, Tagged(300)): expected OverflowError, decodes to {deserialize(raw).netqasm_version}")
    failures += 1

# --- 3. hardware-mode rotation numerator ------------------------------------------------------------
from netqasm.runtime.settings import set_is_using_hardware
from netqasm.sdk.transpile import NVSubroutineTranspiler
from netqasm.lang.instr.flavour import NVFlavour

set_is_using_hardware(True)
try:
    q0 = Register(RegisterName.Q, 0)
    sub = Subroutine(
        instructions=[
            core.SetInstruction(reg=q0, imm=Immediate(0)),
            vanilla.RotXInstruction(reg=q0, imm0=Immediate(Tagged(300)), imm1=Immediate(4)),
        ],
        app_id=0,
    )
    try:
        raw = bytes(NVSubroutineTranspiler(sub).transpile())
    except OverflowError as err:
        print(f"[ok]   hardware-mode rot_x Q0 Tagged(300) 4: refused ({err})")
    else:
        print(
            "[FAIL] hardware-mode rot_x Q0 Tagged(300) 4: expected OverflowError, got "
            f"'{deserialize(raw, flavour=NVFlavour()).instructions[1]}'"
        )
        failures += 1
finally:
    set_is_using_hardware(False)

if failures:
    print(f"\n{failures} violation(s)")
    sys.exit(1)
print("property holds")
