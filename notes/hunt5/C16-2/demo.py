"""C16, direct construction at the encoding layer: the range check of `encoding.Command`
only looks at keyword arguments.

`encoding.Command.__init__` was given a guard ("instead of letting ctypes silently truncate")
that checks every integer field - but it iterates over `kwargs` only.  ctypes structures also
take their fields positionally, in `_fields_` order, and those values go straight to ctypes.

Expected (C16): building a command with an operand the field cannot hold raises OverflowError,
however the fields are passed.
Actual: with positional arguments the value is silently truncated and the bytes decode to a
different, valid-looking instruction.
"""
import sys

from netqasm.lang import encoding
from netqasm.lang.instr import core
from netqasm.lang.operand import Register
from netqasm.lang.encoding import RegisterName

R0 = Register(RegisterName.R, 0).cstruct
Q0 = Register(RegisterName.Q, 0).cstruct

# (description, command class, positional args, keyword form, instruction class used to decode)
CASES = [
    ("jmp 4294967301         (32-bit integer)", encoding.ImmCommand, (9, 2**32 + 5),
     dict(id=9, imm=2**32 + 5), core.JmpInstruction),
    ("set R0 2147483648      (32-bit integer)", encoding.RegImmCommand, (4, R0, 2**31),
     dict(id=4, reg=R0, imm=2**31), core.SetInstruction),
    ("breakpoint 300 -1      (8-bit immediates)", encoding.ImmImmCommand, (100, 300, -1),
     dict(id=100, imm0=300, imm1=-1), core.BreakpointInstruction),
]

failures = 0
for descr, cmd_cls, args, kwargs, instr_cls in CASES:
    # keyword form: must be (and is) refused
    try:
        cmd_cls(**kwargs)
        print(f"[FAIL] {descr}: keyword form accepted")
        failures += 1
    except OverflowError:
        pass
    # positional form: must be refused as well
    try:
        raw = bytes(cmd_cls(*args))
    except OverflowError as err:
        print(f"[ok]   {descr}: positional form refused ({err})")
        continue
    decoded = instr_cls.deserialize_from(raw)
    print(
        f"[FAIL] {descr}: keyword form raises OverflowError, but the positional form "
        f"{cmd_cls.__name__}{args!r} gives bytes {raw.hex()} = '{decoded}' without any error"
    )
    failures += 1

# For information only (same layer, same silent truncation, not counted):
cmd = encoding.ImmCommand(id=9, imm=1)
cmd.imm = 2**32 + 7  # re-use of a command object the caller still holds
print("info: field assignment after construction: jmp 4294967303 ->", core.JmpInstruction.deserialize_from(bytes(cmd)))
print("info: encoding.Register(0, 16) ->", bytes(encoding.Register(0, 16)).hex(), "(R0)")
print("info: encoding.Address(2**32 + 1) ->", encoding.Address(2**32 + 1).address)

if failures:
    print(f"\n{failures} violation(s)")
    sys.exit(1)
print("property holds")
