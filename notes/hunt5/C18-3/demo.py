"""C18 finding 3: a message that was not read before both endpoints closed is handed to the
NEXT connection that uses the same key: non-blocking receive on a brand-new (empty) channel
returns a stale message, and the new connection's first message is not the first one received.
"""
import gc
import sys
import threading

from netqasm.sdk import ThreadSocket
from netqasm.sdk.classical_communication import reset_socket_hub


def connect_pair():
    box = {}
    t = threading.Thread(target=lambda: box.update(v=ThreadSocket("bob", "alice")), daemon=True)
    t.start()
    a = ThreadSocket("alice", "bob")
    t.join()
    return a, box.pop("v")


reset_socket_hub()
failures = []

# first connection: alice sends two messages, bob only reads the first, both close
a1, b1 = connect_pair()
a1.send("old-1")
a1.send("old-2")
assert b1.recv(timeout=2) == "old-1"
del a1, b1
gc.collect()

# second connection, new socket objects on both sides
a2, b2 = connect_pair()
try:
    stale = b2.recv(block=False)
except RuntimeError:
    print("ok: non-blocking receive on the new, empty channel reports emptiness")
else:
    print("FAIL expected: RuntimeError (nothing was sent on this connection yet)")
    print(f"     happened: recv(block=False) returned {stale!r}, sent on the previous connection")
    failures.append("stale on empty channel")

# and in the other order: leftover first, then the new connection's message
del a2, b2
gc.collect()
a3, b3 = connect_pair()
a3.send("left-over")
del a3, b3
gc.collect()
a4, b4 = connect_pair()
a4.send("new-1")
got = b4.recv(timeout=2)
if got != "new-1":
    print(f"FAIL expected first message received on the new connection: 'new-1', happened: {got!r}")
    failures.append("order / exactly-once on new connection")
else:
    print("ok: new connection receives its own first message first")

if failures:
    print("VIOLATION:", failures)
    sys.exit(1)
print("all good")
