"""C04 / finding 3: the instruction logger of an executor is looked up in a class-level
registry by node name and stays bound to the FIRST executor that had that name.

A second executor for the same node name (new controller after a stop / a second simulation run
in the same process), created with the documented `instr_log_dir` option, gets the logger of the
first one.  That logger evaluates the operands of every executed instruction against the OLD
executor, so the new executor cannot run anything: each subroutine "faults" at line 0 after
the first instruction was executed - although no instruction faulted.

The base `InstrLogger` leaves two hooks to the simulator (`_get_node_name`, `_get_qubit_groups`);
they are filled in trivially here, everything else is the unmodified base executor.
"""
import sys
import tempfile

from netqasm.backend.executor import Executor
from netqasm.lang.encoding import RegisterName
from netqasm.lang.parsing import parse_text_subroutine
from netqasm.logging.output import InstrLogger
from netqasm.sdk.shared_memory import SharedMemoryManager


class Logger(InstrLogger):
    def _get_node_name(self):
        return self._executor.name

    @classmethod
    def _get_qubit_groups(cls):
        return None


class LoggingExecutor(Executor):
    instr_logger_class = Logger


PROGRAM = """# NETQASM 1.0
# APPID 0
set R0 1
set R1 2
add R2 R0 R1
ret_reg R2
"""


def run(ex):
    try:
        ex.consume_execute_subroutine(parse_text_subroutine(PROGRAM))
    except Exception as exc:  # noqa
        return f"{type(exc).__name__}: " + str(exc).split("\n")[0]
    return None


def r2(ex):
    return ex._registers[0][RegisterName.R][2]


log_dir = tempfile.mkdtemp()
failures = []
SharedMemoryManager.reset_memories()

# first life of node "alice"
first = LoggingExecutor(name="alice", instr_log_dir=log_dir)
first.init_new_application(app_id=0, max_qubits=1)
err = run(first)
print(f"first executor 'alice'  : error={err!r}, R2={r2(first)}")
assert err is None and r2(first) == 3
list(first.stop_application(app_id=0))

# second life of node "alice": same name, same option, same program
second = LoggingExecutor(name="alice", instr_log_dir=log_dir)
second.init_new_application(app_id=0, max_qubits=1)
err = run(second)
print("second executor 'alice' : expected error=None, R2=3")
print(f"                          got      error={err!r}, R2={r2(second)}")
print("   its logger is bound to the first executor:", second._instr_logger._executor is first)
if err is not None or r2(second) != 3:
    failures.append(f"second executor with the same name stops at line 0: {err!r}, R2={r2(second)}")

# control: same history with another name works
third = LoggingExecutor(name="bob", instr_log_dir=log_dir)
third.init_new_application(app_id=0, max_qubits=1)
err = run(third)
print(f"control, executor 'bob' : error={err!r}, R2={r2(third)}")
assert err is None and r2(third) == 3

if failures:
    print("\nVIOLATION:")
    for f in failures:
        print(" -", f)
    sys.exit(1)
print("OK")
