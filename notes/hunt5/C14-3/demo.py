"""C14 demo 3: leaving a loop_until context through an exception raised before the exit condition
was set never releases the loop register of that context (and replaces the exception by a bare
AssertionError).  The library itself does this for EPR requests with `min_fidelity_all_at_end`:
a request it refuses (more pairs than qubits -> ValueError) is refused inside the loop_until
context that wraps it.  Each such refusal costs one register for the rest of the connection's
life; flushing does not give it back.
"""
import sys

from netqasm.logging.glob import set_log_level
from netqasm.sdk.connection import DebugConnection
from netqasm.sdk.constraint import ValueAtMostConstraint
from netqasm.sdk.epr_socket import EPRSocket
from netqasm.sdk.qubit import Qubit

set_log_level("ERROR")
DebugConnection.node_ids = {"alice": 0, "bob": 1}


def reserved(conn):
    return sorted(str(r) for r in conn.builder._mem_mgr._active_registers)


def valid_tail(conn, sock):
    """Valid operations only; must compile whenever nothing is open."""
    with conn.loop_until(3) as loop:
        q = Qubit(conn)
        m = q.measure()
        loop.set_exit_condition(ValueAtMostConstraint(m, 0))
    for q in sock.create_keep(number=2, min_fidelity_all_at_end=80, max_tries=2):
        q.measure()
    conn.flush()


def refused_epr(conn, sock):
    # 6 pairs do not fit in 5 qubits: the SDK refuses this request (ValueError)
    sock.create_keep(number=6, min_fidelity_all_at_end=80, max_tries=2)


def refused_recv(conn, sock):
    sock.recv_keep(number=6, min_fidelity_all_at_end=80, max_tries=2)


def failing_body(conn, sock):
    with conn.loop_until(3) as loop:
        q = Qubit(conn)
        m = q.measure()
        q.X()  # the qubit was just measured: QubitNotActiveError, a normal loud refusal
        loop.set_exit_condition(ValueAtMostConstraint(m, 0))


def unresolved_bound(conn, sock):
    # same pattern in the plain loop context: the bound is a Future that has no value yet, which is
    # refused (NoValueError) when the context is closed - before its loop register is released
    q = Qubit(conn)
    m = q.measure()
    with conn.loop(m):
        q2 = Qubit(conn)
        q2.measure()


bad = 0
for refused in (refused_epr, refused_recv, failing_body, unresolved_bound):
    sock = EPRSocket("bob")
    conn = DebugConnection("alice", epr_sockets=[sock], max_qubits=5)
    valid_tail(conn, sock)  # fine on the fresh connection
    kinds = set()
    for i in range(16):
        try:
            refused(conn, sock)
        except Exception as exc:  # noqa
            kinds.add(type(exc).__name__)
        if i % 4 == 3:
            conn.flush()
    left = reserved(conn)
    try:
        valid_tail(conn, sock)
        outcome = "valid program still compiles"
    except Exception as exc:  # noqa
        outcome = f"valid program now FAILS: {exc!r}"
        bad += 1
    print(f"{refused.__name__:16s}: 16 refusals (seen as {sorted(kinds)}), registers reserved with nothing "
          f"open: {len(left)}, stale context entries: {len(conn.builder._pre_context_registers)}\n"
          f"{'':18s}-> {outcome}")
    if left and "FAILS" not in outcome:
        bad += 1

if bad:
    print(
        "\nEXPECTED: the refusals are reported as such (ValueError, QubitNotActiveError, NoValueError) and leave no\n"
        "          register reserved, so the valid program keeps compiling.\n"
        "HAPPENED: each refusal keeps the context's loop register (and, for loop_until, surfaces as a bare\n"
        "          AssertionError)."
    )
    sys.exit(1)
print("OK")
