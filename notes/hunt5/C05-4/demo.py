"""C05 finding 4: a control-flow statement that is refused takes the statements queued *before* it with it.

    acc = conn.new_array(init_values=[0]); a = acc.get_future_index(0)
    n   = conn.new_array(init_values=[2]).get_future_index(0)
    a.add(10)                        # accepted, pending
    try:
        with conn.loop(n):           # refused: "... has no value yet, consider flusing the current subroutine"
            a.add(1)
    except NoValueError:
        conn.flush()                 # do as told
        with conn.loop(n):           # n is known now: 2 iterations
            a.add(1)
    conn.flush()

Expected on the controller: acc == [12] (10 + 2 x 1).  A refused statement should leave the program built so far alone.
"""
import sys

# ---------------------------------------------------------------------------------------------
# Minimal in-process set-up: an SDK connection whose messages are handed to the package's own
# reference Executor (netqasm.backend.executor.Executor).  Only the quantum hooks are filled in:
# they log the gate applications and take measurement outcomes from a script.
# ---------------------------------------------------------------------------------------------
import itertools

from netqasm.backend.executor import Executor
from netqasm.backend.messages import MessageType, deserialize_host_msg
from netqasm.lang.parsing import deserialize
from netqasm.sdk.connection import BaseNetQASMConnection
from netqasm.sdk.network import NetworkInfo

_names = itertools.count()


class LogExecutor(Executor):
    def __init__(self, name, outcomes=()):
        super().__init__(name=name)
        self.oplog = []  # gate applications / measurements, in order
        self.outcomes = list(outcomes)

    def _do_single_qubit_instr(self, instr, subroutine_id, address):
        self.oplog.append((instr.mnemonic, address))

    def _do_single_qubit_rotation(self, instr, subroutine_id, address, angle):
        self.oplog.append((instr.mnemonic, address, round(angle, 6)))

    def _do_two_qubit_instr(self, instr, subroutine_id, address1, address2):
        self.oplog.append((instr.mnemonic, address1, address2))

    def _do_meas(self, subroutine_id, q_address):
        outcome = self.outcomes.pop(0) if self.outcomes else 0
        self.oplog.append(("meas", q_address, outcome))
        return outcome


class _Info(NetworkInfo):
    @classmethod
    def _get_node_id(cls, node_name):
        return 0

    @classmethod
    def _get_node_name(cls, node_id):
        return "node"

    @classmethod
    def get_node_id_for_app(cls, app_name):
        return 0

    @classmethod
    def get_node_name_for_app(cls, app_name):
        return app_name


class Conn(BaseNetQASMConnection):
    def __init__(self, outcomes=(), **kwargs):
        name = f"demo{next(_names)}"
        self.executor = LogExecutor(name, outcomes)
        self.sent = []
        super().__init__(app_name=name, node_name=name, **kwargs)

    def _get_network_info(self):
        return _Info

    def _commit_serialized_message(self, raw_msg, block=True, callback=None):
        msg = deserialize_host_msg(raw_msg)
        if msg.TYPE == MessageType.INIT_NEW_APP:
            self.executor.init_new_application(msg.app_id, msg.max_qubits)
        elif msg.TYPE == MessageType.SUBROUTINE:
            subroutine = deserialize(msg.subroutine)
            self.sent.append(subroutine)
            self.executor.consume_execute_subroutine(subroutine)
        elif msg.TYPE == MessageType.STOP_APP:
            list(self.executor.stop_application(msg.app_id))

    # the controller's own memory (not the host's copy)
    def ctrl_array(self, address):
        return list(self.executor._app_arrays[self.app_id]._get_array(address))

    def ctrl_reg(self, reg):
        return self.executor._get_register(self.app_id, reg)


# ---------------------------------------------------------------------------------------------
from netqasm.sdk.futures import NoValueError

failures = []


def check(what, expected, got):
    ok = expected == got
    print(f"{'ok  ' if ok else 'FAIL'} {what}: expected {expected!r}, got {got!r}")
    if not ok:
        failures.append(what)


# --- (a) loop bound not known yet -------------------------------------------------------------
conn = Conn()
acc = conn.new_array(init_values=[0])
a = acc.get_future_index(0)
n = conn.new_array(init_values=[2]).get_future_index(0)
a.add(10)
try:
    with conn.loop(n):
        a.add(1)
    refused = None
except NoValueError as exc:
    refused = str(exc)
print("refusal:", refused)
conn.flush()
check("(a) acc on the controller after the flush that follows the refusal", [10], conn.ctrl_array(acc.address))
with conn.loop(n):
    a.add(1)
conn.flush()
check("(a) acc on the controller at the end", [12], conn.ctrl_array(acc.address))
check("(a) registers still reserved by the builder", set(), set(map(str, conn.builder._mem_mgr._active_registers)))

# --- (b) an operand type that `if` does not take ------------------------------------------------
conn = Conn()
acc = conn.new_array(init_values=[0])
a = acc.get_future_index(0)
a.add(10)
try:
    with a.if_eq(1.5):
        a.add(1)
    refused = None
except TypeError as exc:
    refused = str(exc)
print("refusal:", refused)
a.add(5)
conn.flush()
check("(b) acc on the controller (10 + 5)", [15], conn.ctrl_array(acc.address))
check("(b) registers still reserved by the builder", set(), set(map(str, conn.builder._mem_mgr._active_registers)))

if failures:
    print(f"\n{len(failures)} check(s) failed")
    sys.exit(1)
print("all checks passed")
