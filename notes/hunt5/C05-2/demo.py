"""C05 finding 2: a flush releases the measurement registers that live RegFuture handles still refer to.

Program P (outcomes of the two measurements: 1 then 0):

    m1 = q1.measure(store_array=False)
    [flush]                                   # <- only difference between the two runs
    m2 = q2.measure(store_array=False)
    with m1.if_eq(1):
        q3.X()
    flush

Direct execution: m1 == 1, m2 == 0, X is applied to q3 - wherever the flush is put.
"""
import sys

# ---------------------------------------------------------------------------------------------
# Minimal in-process set-up: an SDK connection whose messages are handed to the package's own
# reference Executor (netqasm.backend.executor.Executor).  Only the quantum hooks are filled in:
# they log the gate applications and take measurement outcomes from a script.
# ---------------------------------------------------------------------------------------------
import itertools

from netqasm.backend.executor import Executor
from netqasm.backend.messages import MessageType, deserialize_host_msg
from netqasm.lang.parsing import deserialize
from netqasm.sdk.connection import BaseNetQASMConnection
from netqasm.sdk.network import NetworkInfo

_names = itertools.count()


class LogExecutor(Executor):
    def __init__(self, name, outcomes=()):
        super().__init__(name=name)
        self.oplog = []  # gate applications / measurements, in order
        self.outcomes = list(outcomes)

    def _do_single_qubit_instr(self, instr, subroutine_id, address):
        self.oplog.append((instr.mnemonic, address))

    def _do_single_qubit_rotation(self, instr, subroutine_id, address, angle):
        self.oplog.append((instr.mnemonic, address, round(angle, 6)))

    def _do_two_qubit_instr(self, instr, subroutine_id, address1, address2):
        self.oplog.append((instr.mnemonic, address1, address2))

    def _do_meas(self, subroutine_id, q_address):
        outcome = self.outcomes.pop(0) if self.outcomes else 0
        self.oplog.append(("meas", q_address, outcome))
        return outcome


class _Info(NetworkInfo):
    @classmethod
    def _get_node_id(cls, node_name):
        return 0

    @classmethod
    def _get_node_name(cls, node_id):
        return "node"

    @classmethod
    def get_node_id_for_app(cls, app_name):
        return 0

    @classmethod
    def get_node_name_for_app(cls, app_name):
        return app_name


class Conn(BaseNetQASMConnection):
    def __init__(self, outcomes=(), **kwargs):
        name = f"demo{next(_names)}"
        self.executor = LogExecutor(name, outcomes)
        self.sent = []
        super().__init__(app_name=name, node_name=name, **kwargs)

    def _get_network_info(self):
        return _Info

    def _commit_serialized_message(self, raw_msg, block=True, callback=None):
        msg = deserialize_host_msg(raw_msg)
        if msg.TYPE == MessageType.INIT_NEW_APP:
            self.executor.init_new_application(msg.app_id, msg.max_qubits)
        elif msg.TYPE == MessageType.SUBROUTINE:
            subroutine = deserialize(msg.subroutine)
            self.sent.append(subroutine)
            self.executor.consume_execute_subroutine(subroutine)
        elif msg.TYPE == MessageType.STOP_APP:
            list(self.executor.stop_application(msg.app_id))

    # the controller's own memory (not the host's copy)
    def ctrl_array(self, address):
        return list(self.executor._app_arrays[self.app_id]._get_array(address))

    def ctrl_reg(self, reg):
        return self.executor._get_register(self.app_id, reg)


# ---------------------------------------------------------------------------------------------
from netqasm.sdk.qubit import Qubit

failures = []


def check(what, expected, got):
    ok = expected == got
    print(f"{'ok  ' if ok else 'FAIL'} {what}: expected {expected!r}, got {got!r}")
    if not ok:
        failures.append(what)


def program(flush_in_between):
    conn = Conn(outcomes=[1, 0])
    q1 = Qubit(conn)
    m1 = q1.measure(store_array=False)
    if flush_in_between:
        conn.flush()
    q2 = Qubit(conn)
    m2 = q2.measure(store_array=False)
    q3 = Qubit(conn)
    with m1.if_eq(1):
        q3.X()
    conn.flush()
    n_x = len([op for op in conn.executor.oplog if op[0] == "x"])
    return str(m1.reg), str(m2.reg), n_x, int(m1), int(m2)


for flush_in_between in (False, True):
    print(f"--- flush between the two measurements: {flush_in_between}")
    reg1, reg2, n_x, m1, m2 = program(flush_in_between)
    print(f"     m1 lives in {reg1}, m2 lives in {reg2}")
    check("m1 and m2 live in different registers", True, reg1 != reg2)
    check("number of X applications (m1 == 1)", 1, n_x)
    check("m1 read on the host", 1, m1)
    check("m2 read on the host", 0, m2)

if failures:
    print(f"\n{len(failures)} check(s) failed")
    sys.exit(1)
print("all checks passed")
