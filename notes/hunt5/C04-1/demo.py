"""C04 / finding 1: `ret_arr` publishes the executor's own list object to the shared memory.

After a `ret_arr @0` the host-visible array and the executor's private array are the
SAME Python list.  Every later `store` / `undef` on @0 (in the same or in a later
subroutine, without any further `ret_arr`) silently changes what the host sees, and
anything the host does to the list it got back changes the executor's memory.
"""
import sys

from netqasm.backend.executor import Executor
from netqasm.lang.encoding import RegisterName
from netqasm.lang.parsing import parse_text_subroutine
from netqasm.sdk.shared_memory import SharedMemoryManager

HEADER = "# NETQASM 1.0\n# APPID 0\n"

SUB1 = HEADER + """
set R0 2
array R0 @0
set R1 7
set R2 0
store R1 @0[R2]
set R2 1
store R1 @0[R2]
ret_arr @0
"""

# Second subroutine of the same application: works on the array, returns NOTHING.
SUB2 = HEADER + """
set R1 9
set R2 0
store R1 @0[R2]
set R2 1
undef @0[R2]
"""

# Third subroutine: reads entry 0 of the private array into R5
SUB3 = HEADER + """
set R2 0
load R5 @0[R2]
"""

SharedMemoryManager.reset_memories()
ex = Executor(name="node")
ex.init_new_application(app_id=0, max_qubits=1)
host_mem = SharedMemoryManager.get_shared_memory("node", key=0)  # what the host holds

failures = []

ex.consume_execute_subroutine(parse_text_subroutine(SUB1))
seen_after_ret = host_mem.get_array_part(0, slice(0, 2))
print("host view after subroutine 1 (ret_arr @0):", seen_after_ret)
if seen_after_ret != [7, 7]:
    failures.append("ret_arr did not publish [7, 7]")

ex.consume_execute_subroutine(parse_text_subroutine(SUB2))
seen_later = host_mem.get_array_part(0, slice(0, 2))
print("host view after subroutine 2 (store/undef, NO ret_arr):")
print("   expected [7, 7]   (shared memory only changes on ret_reg / ret_arr)")
print("   got     ", seen_later)
if seen_later != [7, 7]:
    failures.append(
        f"shared memory changed from [7, 7] to {seen_later} without any ret_arr"
    )

# The other direction: the host edits the list it was handed
returned = host_mem[0]  # SharedMemory.__getitem__(address) -> the returned array
returned[0] = 123
ex.consume_execute_subroutine(parse_text_subroutine(SUB3))
r5 = ex._registers[0][RegisterName.R][5]
print("executor loads @0[0] after the host edited its copy of the returned array:")
print("   expected 9 (value stored by subroutine 2), got", r5)
if r5 != 9:
    failures.append(f"host-side edit of the returned array reached the executor: load gave {r5}")

if failures:
    print("\nVIOLATION:")
    for f in failures:
        print(" -", f)
    sys.exit(1)
print("OK")
