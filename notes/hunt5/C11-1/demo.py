"""C11 / finding 1: a request that is still outstanding when its application is stopped
stays at the head of the executor's request queue and captures the link-layer responses
of the next application that uses the same EPR socket.

Run:  cd /tmp/hunt5/C11/wt && PYTHONPATH=/tmp/hunt5/C11/wt /venv/bin/python /tmp/hunt5/C11/out/1/demo.py
"""
import sys

from netqasm.backend.executor import Executor
from netqasm.backend.messages import deserialize_host_msg
from netqasm.backend.network_stack import BaseNetworkStack
from netqasm.backend.qnodeos import QNodeController
from netqasm.qlink_compat import Basis, BellState, LinkLayerOKTypeM, ReturnType
from netqasm.sdk.connection import BaseNetQASMConnection
from netqasm.sdk.epr_socket import EPRSocket
from netqasm.sdk.network import NetworkInfo

NODE_IDS = {"alice": 0, "bob": 1}


# ---------------------------------------------------------------- minimal backend
class Stack(BaseNetworkStack):
    def put(self, request):
        pass

    def setup_epr_socket(self, epr_socket_id, remote_node_id, remote_epr_socket_id, timeout=1.0):
        return None

    def get_purpose_id(self, remote_node_id, epr_socket_id):
        return epr_socket_id


class Exec(Executor):
    node_id = 0  # alice

    def _wait_to_handle_epr_responses(self):
        return None  # the base class would recurse for ever; a simulator sleeps here

    def _do_wait(self):
        yield "waiting"  # give control back to the driver while a wait_all is not satisfied


class Controller(QNodeController):
    @classmethod
    def _get_executor_class(cls, flavour=None):
        return Exec

    def stop(self):
        pass

    def _mark_message_finished(self, msg_id, msg):
        pass


class Info(NetworkInfo):
    @classmethod
    def _get_node_id(cls, node_name):
        return NODE_IDS[node_name]

    @classmethod
    def _get_node_name(cls, node_id):
        return {v: k for k, v in NODE_IDS.items()}[node_id]

    @classmethod
    def get_node_id_for_app(cls, app_name):
        return NODE_IDS[app_name]

    @classmethod
    def get_node_name_for_app(cls, app_name):
        return app_name


class Conn(BaseNetQASMConnection):
    """Hands every message to the controller.  A subroutine that starts to wait is parked
    (this is what flush(block=False) means); `poll()` lets it continue."""

    def __init__(self, app_name, controller, **kw):
        self.controller = controller
        self.parked = []
        super().__init__(app_name=app_name, node_name=controller.name, **kw)

    def _get_network_info(self):
        return Info

    def _commit_serialized_message(self, raw_msg, block=True, callback=None):
        gen = self.controller.handle_netqasm_message(0, deserialize_host_msg(raw_msg))
        self.parked.append(gen)
        self.poll()

    def poll(self):
        for gen in list(self.parked):
            try:
                next(gen)  # runs until the subroutine waits (again) or ends
            except StopIteration:
                self.parked.remove(gen)
        self.controller._executor._handle_pending_epr_responses()


# ---------------------------------------------------------------- the history
ctrl = Controller("alice")
ctrl.network_stack = Stack()
ex = ctrl._executor

# Run 1: alice waits for a pair from bob on EPR socket 3.  Bob never starts; alice gives up.
sock1 = EPRSocket("bob", epr_socket_id=3, remote_epr_socket_id=3)
conn1 = Conn("alice", ctrl, epr_sockets=[sock1])
res1 = sock1.recv_measure(number=1)
conn1.flush(block=False)
assert conn1.parked, "the subroutine of run 1 should be waiting for the pair"
conn1.close()  # sends StopAppMessage: the application is cleared on the node
assert conn1.app_id not in ex._app_arrays

# Run 2: the application is registered again and uses the same socket.
sock2 = EPRSocket("bob", epr_socket_id=3, remote_epr_socket_id=3)
conn2 = Conn("alice", ctrl, epr_sockets=[sock2])
assert conn2.app_id == conn1.app_id
scores = conn2.new_array(init_values=[5, 6, 7, 8, 9, 10, 11, 12, 13, 14])  # data of the application
res2 = sock2.recv_measure(number=1)
conn2.flush(block=False)

# Now bob creates the pair: the link layer reports it to alice's node.
response = LinkLayerOKTypeM(
    type=ReturnType.OK_M,
    create_id=21,
    measurement_outcome=1,
    measurement_basis=Basis.Z,
    directionality_flag=1,  # the request came from the remote node
    sequence_number=4,
    purpose_id=3,
    remote_node_id=NODE_IDS["bob"],
    goodness=77,
    bell_state=BellState.PSI_PLUS,
)
problems = []
try:
    ex._handle_epr_response(response)
except Exception as exc:  # what the network stack would see
    problems.append(f"the executor raised {type(exc).__name__}: {exc}")
for _ in range(5):
    conn2.poll()

if conn2.parked:
    problems.append("the subroutine of run 2 still waits for its pair although the response was delivered")
got = (
    res2[0].raw_measurement_outcome.value,
    res2[0].remote_node_id.value,
    res2[0].generation_duration.value,
    res2[0].raw_bell_state.value,
)
want = (1, NODE_IDS["bob"], 77, BellState.PSI_PLUS.value)
print("result handle of run 2 (outcome, remote node, duration, Bell state)")
print("  expected:", want)
print("  got     :", got)
if got != want:
    problems.append("the result handle of run 2 does not read the response of its pair")
node_scores = ex._app_arrays[conn2.app_id][scores.address, :]
print("application array of run 2 on the node")
print("  expected: [5, 6, 7, 8, 9, 10, 11, 12, 13, 14]")
print("  got     :", node_scores)
if node_scores != [5, 6, 7, 8, 9, 10, 11, 12, 13, 14]:
    problems.append("the response was written into an unrelated array of run 2 (address taken from the request of run 1)")
print("receive requests still queued for (bob, socket 3):", len(ex._epr_recv_requests[(1, 3)]))

if problems:
    print("VIOLATION:")
    for p in problems:
        print(" -", p)
    sys.exit(1)
print("ok")
