"""C18 finding 2: after one side has reconnected while the other stayed open, a rendezvous
mark is left behind in the hub for ever.  From then on an endpoint of that pair that starts
FIRST does not wait for its partner: the constructor returns at once, unconnected, and its
first send raises ConnectionError.  ("two endpoints find each other whichever side starts first")
"""
import gc
import sys
import threading
import time

from netqasm.sdk import ThreadSocket
from netqasm.sdk.classical_communication import reset_socket_hub
from netqasm.sdk.classical_communication.thread_socket.socket_hub import _socket_hub


def start(fn):
    box = {}

    def run():
        try:
            box["v"] = fn()
        except BaseException as exc:
            box["e"] = exc

    t = threading.Thread(target=run, daemon=True)
    t.start()
    return t, box


def session(first, second, socket_id):
    """`first` opens its socket and sends right away; `second` shows up 0.5 s later and receives."""

    def early():
        s = ThreadSocket(first, second, socket_id=socket_id)
        s.send("hello")
        time.sleep(1.0)  # stay open until the other side has read

    def late():
        s = ThreadSocket(second, first, socket_id=socket_id)
        return s.recv(timeout=3)

    t1, box1 = start(early)
    time.sleep(0.5)
    t2, box2 = start(late)
    t1.join()
    t2.join()
    gc.collect()
    if "e" in box1:
        return f"early side raised {type(box1['e']).__name__}: {box1['e']}"
    if "e" in box2:
        return f"late side raised {type(box2['e']).__name__}: {box2['e']}"
    return box2["v"]


reset_socket_hub()

# control: on an unused socket id both start orders work
print("fresh id, alice first:", session("alice", "bob", socket_id=7))
print("fresh id, bob first:  ", session("bob", "alice", socket_id=8))

# history on socket id 0: alice stays, bob connects, leaves, connects again, leaves; alice leaves
t, box = start(lambda: ThreadSocket("bob", "alice"))
a1 = ThreadSocket("alice", "bob")
t.join()
b1 = box.pop("v")
b1.send("1")
assert a1.recv(timeout=2) == "1"
del b1
gc.collect()
b2 = ThreadSocket("bob", "alice", timeout=2)  # alice is still open: connects at once
b2.send("2")
assert a1.recv(timeout=2) == "2"
del b2
gc.collect()
del a1
gc.collect()
print("hub after every socket was closed: open =", set(_socket_hub._open_sockets),
      " marks =", dict(_socket_hub._remote_sockets))

# (alice first is tried first: a session in which bob happens to start first overwrites the
# left-over mark and hides the defect)
res_alice_first = session("alice", "bob", socket_id=0)
res_bob_first = session("bob", "alice", socket_id=0)
print("after history, bob first:  ", res_bob_first)
print("after history, alice first:", res_alice_first)

if res_bob_first != "hello" or res_alice_first != "hello":
    print("VIOLATION: expected 'hello' to be delivered in both start orders "
          "(as on a fresh socket id); the side that starts first did not wait for its partner")
    sys.exit(1)
print("all good")
