"""C10 demo 4: the result objects of recv_measure keep the raw outcome / Bell state they
read first.  When the (pre-compiled) subroutine is run again, `measurement_outcome` is
post-processed with the Bell state of an EARLIER pair (or is the earlier outcome itself).

Run as:  cd /tmp/hunt5/C10/wt && PYTHONPATH=/tmp/hunt5/C10/wt /venv/bin/python /tmp/hunt5/C10/out/4/demo.py
"""
import sys

# ---------------------------------------------------------------------------------------
# Mini harness (self-contained): an Executor that keeps a tiny quantum state per physical
# qubit, a scripted link layer, and a host connection that runs subroutines synchronously.
# ---------------------------------------------------------------------------------------
import itertools

import numpy as np

from netqasm.backend.executor import Executor
from netqasm.backend.messages import (
    InitNewAppMessage,
    OpenEPRSocketMessage,
    SignalMessage,
    StopAppMessage,
    deserialize_host_msg,
)
from netqasm.backend.network_stack import BaseNetworkStack
from netqasm.lang.instr import core
from netqasm.lang.parsing import deserialize
from netqasm.qlink_compat import (
    Basis,
    BellState,
    LinkLayerOKTypeK,
    LinkLayerOKTypeM,
    ReturnType,
)
from netqasm.sdk.connection import BaseNetQASMConnection, DebugNetworkInfo

S2 = np.sqrt(2)
BELL = {
    BellState.PHI_PLUS: np.array([1, 0, 0, 1], dtype=complex) / S2,
    BellState.PHI_MINUS: np.array([1, 0, 0, -1], dtype=complex) / S2,
    BellState.PSI_PLUS: np.array([0, 1, 1, 0], dtype=complex) / S2,
    BellState.PSI_MINUS: np.array([0, 1, -1, 0], dtype=complex) / S2,
}


class Slot:
    """State of one physical qubit: alone (2-vector) or with its remote partner (4-vector,
    local qubit first). Only single-qubit gates are needed here."""

    def __init__(self, vec, bell=None):
        self.vec = np.array(vec, dtype=complex)
        self.bell = bell

    def apply(self, U):
        U = np.array(U, dtype=complex)
        if len(self.vec) == 4:
            U = np.kron(U, np.eye(2))
        self.vec = U @ self.vec

    def fidelity(self, target):
        return float(abs(np.vdot(np.array(target, dtype=complex), self.vec)) ** 2)


class Stack(BaseNetworkStack):
    def put(self, request):
        pass

    def setup_epr_socket(self, epr_socket_id, remote_node_id, remote_epr_socket_id, timeout=1):
        pass

    def get_purpose_id(self, remote_node_id, epr_socket_id):
        return epr_socket_id


class MiniExecutor(Executor):
    def __init__(self, name, node_id=0):
        super().__init__(name=name)
        self._nid = node_id
        self.network_stack = Stack()
        self.slots = {}  # physical address -> Slot
        self.link = []  # scripted link layer: responses delivered when the program waits
        self.accepted = []  # Slots of the pairs handed to the application, in order
        self._phys = itertools.count(100)

    @property
    def node_id(self):
        return self._nid

    def _slot(self, subroutine_id, address):
        return self.slots[self._get_position(subroutine_id=subroutine_id, address=address)]

    def _reserve_physical_qubit(self, physical_address):
        self.slots.setdefault(physical_address, Slot([1, 0]))

    def _clear_phys_qubit_in_memory(self, physical_address):
        self.slots.pop(physical_address, None)

    def _do_single_qubit_instr(self, instr, subroutine_id, address):
        if isinstance(instr, core.InitInstruction):
            self._slot(subroutine_id, address).vec = np.array([1, 0], dtype=complex)
        else:
            self._slot(subroutine_id, address).apply(instr.to_matrix())

    def _do_single_qubit_rotation(self, instr, subroutine_id, address, angle):
        self._slot(subroutine_id, address).apply(instr.to_matrix())

    def _wait_to_handle_epr_responses(self):
        pass

    def _do_wait(self):
        if not self.link:
            raise RuntimeError("deadlock: the program waits, the link has nothing to deliver")
        self.link.pop(0)()

    def _instr_qfree(self, subroutine_id, instr):
        yield from super()._instr_qfree(subroutine_id, instr)
        self._handle_pending_epr_responses()

    # -- scripted link layer (this node is the receiver: directionality_flag=1)
    def script_keep(self, bell, goodness=0, purpose_id=0, remote_node_id=1):
        def deliver():
            phys = next(self._phys)
            slot = Slot(BELL[bell], bell)
            self.slots[phys] = slot
            self.accepted.append(slot)
            self._handle_epr_response(
                LinkLayerOKTypeK(ReturnType.OK_K, 0, phys, 1, 0, purpose_id, remote_node_id, goodness, 0, bell)
            )

        self.link.append(deliver)

    def script_measure(self, bell, outcome, basis=Basis.Z, creator=False, purpose_id=0, remote_node_id=1):
        def deliver():
            self._handle_epr_response(
                LinkLayerOKTypeM(
                    ReturnType.OK_M, 0, outcome, basis, 0 if creator else 1, 0, purpose_id, remote_node_id, 0, bell
                )
            )

        self.link.append(deliver)


class MiniConnection(BaseNetQASMConnection):
    node_ids = {"Alice": 0, "Bob": 1}

    def __init__(self, app_name, executor, **kwargs):
        self.executor = executor
        self.subroutines = []
        super().__init__(app_name, node_name=executor.name, **kwargs)

    def _get_network_info(self):
        return _Info

    def _commit_serialized_message(self, raw_msg, block=True, callback=None):
        msg = deserialize_host_msg(raw_msg)
        ex = self.executor
        if isinstance(msg, InitNewAppMessage):
            ex.init_new_application(app_id=msg.app_id, max_qubits=msg.max_qubits)
        elif isinstance(msg, StopAppMessage):
            list(ex.stop_application(app_id=msg.app_id))
        elif isinstance(msg, (OpenEPRSocketMessage, SignalMessage)):
            pass
        else:
            sub = deserialize(msg.subroutine)
            self.subroutines.append(sub)
            list(ex.execute_subroutine(sub))


class _Info(DebugNetworkInfo):
    @classmethod
    def _get_node_id(cls, node_name):
        return MiniConnection.node_ids[node_name]

    @classmethod
    def get_node_id_for_app(cls, app_name):
        return MiniConnection.node_ids[app_name]

    @classmethod
    def get_node_name_for_app(cls, app_name):
        return app_name


_names = itertools.count()


def new_node(node_id=0):
    return MiniExecutor(f"demo-node-{next(_names)}", node_id=node_id)


# ---------------------------------------------------------------------------------------
from netqasm.sdk.epr_socket import EPRSocket

# Z basis (the default of create_measure): measuring Phi+ gives equal outcomes on both sides.
# The link delivers X|Phi+> = Psi+ instead -> the receiver's raw outcome is the opposite of the
# creator's, and the SDK must flip it back.
FLIP_IN_Z = {BellState.PHI_PLUS: 0, BellState.PHI_MINUS: 0, BellState.PSI_PLUS: 1, BellState.PSI_MINUS: 1}

problems = 0


def scenario(title, rounds, peek):
    """rounds: [(bell, raw outcome of the receiver)], one per run of the same subroutine.
    peek(result) is what the host looks at after every run but the last."""
    global problems
    ex = new_node()
    sock = EPRSocket("Bob")
    with MiniConnection("Alice", ex, epr_sockets=[sock]) as conn:
        (result,) = sock.recv_measure(number=1)
        subroutine = conn.compile()  # pre-compiled once, committed once per round
        for k, (bell, raw) in enumerate(rounds):
            ex.script_measure(bell, raw)
            conn.commit_subroutine(subroutine)
            in_memory = conn.shared_memory.get_array_part(result.raw_bell_state._address, slice(0, 10))
            assert in_memory[2] == raw and in_memory[9] == bell.value  # the node did return the new values
            if k < len(rounds) - 1:
                peek(result)
        got = result.measurement_outcome
        bell, raw = rounds[-1]
        want = raw ^ FLIP_IN_Z[bell]
        ok = got == want
        problems += not ok
        print(
            f"{title}: last run delivered {bell.name} with raw outcome {raw}; measurement_outcome = {got}, "
            f"expected {want} (as if Phi+ had been measured)  -> {'ok' if ok else 'VIOLATION'}"
        )


B = BellState
scenario("first run of the subroutine", [(B.PSI_PLUS, 1)], peek=None)
scenario("second run, host read the outcome of the first run", [(B.PHI_PLUS, 0), (B.PSI_PLUS, 0)],
         peek=lambda r: r.measurement_outcome)
scenario("second run, host only looked at the Bell state of the first run", [(B.PHI_PLUS, 0), (B.PSI_PLUS, 1)],
         peek=lambda r: r.bell_state)
scenario("third run, host only looked at the Bell state before", [(B.PSI_MINUS, 1), (B.PSI_PLUS, 0), (B.PHI_MINUS, 1)],
         peek=lambda r: r.bell_state)

if problems:
    print(
        f"\n{problems} scenario(s): the post-processed outcome of a measure-directly pair was computed from the "
        "Bell state (or raw outcome) of a pair of an earlier run, so the outcomes no longer have the statistics "
        "of measuring Phi+."
    )
    sys.exit(1)
print("post-processed outcomes always follow the pair they belong to")
