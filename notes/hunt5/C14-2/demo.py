"""C14 demo 2: an SDK call that is REFUSED because of one operand (numpy integer, float, ...)
keeps the temporary register it had already reserved for the other operand - forever, flushes
do not give it back.  After 16 refusals no valid operation that needs a temporary compiles.

Entry points shown:  Future.add(other)            (other = numpy.int64 -> NotImplementedError)
                     Future.add(other, mod=...)   (mod   = numpy.int64 -> NotImplementedError)
                     future.if_eq(other) / conn.if_eq(future, other, body)
                                                  (other = numpy.int64 -> TypeError)
"""
import sys

import numpy as np

from netqasm.logging.glob import set_log_level
from netqasm.sdk.connection import DebugConnection
from netqasm.sdk.qubit import Qubit

set_log_level("ERROR")


def reserved(conn):
    return sorted(str(r) for r in conn.builder._mem_mgr._active_registers)


def refused_add(conn, fut):
    fut.add(np.int64(1))


def refused_add_mod(conn, fut):
    fut.add(fut, mod=np.int64(2))


def refused_if_ctx(conn, fut):
    q = Qubit(conn)
    try:
        with fut.if_eq(np.int64(1)):
            q.X()
    finally:
        q.measure()


def refused_if_cb(conn, fut):
    q = Qubit(conn)
    try:
        conn.if_lt(fut, np.int64(1), lambda c: q.X())
    finally:
        q.measure()


def valid_tail(conn):
    """A short, perfectly valid program; must compile on any connection with nothing open."""
    arr = conn.new_array(2, [1, 2])
    f = arr.get_future_index(0)
    f.add(1)
    q = Qubit(conn)
    with f.if_eq(1):
        q.X()
    with arr.foreach() as v:
        v.add(1)
    q.measure()
    conn.flush()


bad = 0
for refused in (refused_add, refused_add_mod, refused_if_ctx, refused_if_cb):
    conn = DebugConnection("alice")
    valid_tail(conn)  # fine on the fresh connection
    arr = conn.new_array(1, [0])
    fut = arr.get_future_index(0)
    n_refused = 0
    for i in range(16):
        try:
            refused(conn, fut)
        except (NotImplementedError, TypeError):
            n_refused += 1
        except RuntimeError:  # the pool is already empty: even the refusal cannot be reached
            break
        if i % 4 == 3:
            conn.flush()  # periodic flushes do not help
    left = reserved(conn)
    try:
        valid_tail(conn)
        outcome = "valid program still compiles"
    except Exception as exc:  # noqa
        outcome = f"valid program now FAILS: {exc!r}"
        bad += 1
    print(f"{refused.__name__:16s}: {n_refused} refusals, registers still reserved with nothing open: "
          f"{len(left)} -> {outcome}")
    if left and "FAILS" not in outcome:
        bad += 1

if bad:
    print(
        "\nEXPECTED: a refused call leaves the register pool as it found it (0 reserved while nothing\n"
        "          is open), so the valid program keeps compiling however many calls were refused.\n"
        "HAPPENED: every refusal costs 1-2 registers for the rest of the connection's life."
    )
    sys.exit(1)
print("OK")
