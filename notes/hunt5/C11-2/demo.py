"""C11 / finding 2: the number of pairs given as a resolved Future (an int subclass, e.g. a value that
an earlier subroutine returned) reaches the network stack as 2, but the application gets back 0 result
handles (create_measure / recv_measure / create_rsp), resp. an AssertionError (create_keep / recv_keep).

Run:  cd /tmp/hunt5/C11/wt && PYTHONPATH=/tmp/hunt5/C11/wt /venv/bin/python /tmp/hunt5/C11/out/2/demo.py
"""
import sys

from netqasm.backend.executor import Executor
from netqasm.backend.messages import deserialize_host_msg
from netqasm.backend.network_stack import BaseNetworkStack
from netqasm.backend.qnodeos import QNodeController
from netqasm.qlink_compat import (
    Basis,
    BellState,
    LinkLayerOKTypeK,
    LinkLayerOKTypeM,
    RequestType,
    ReturnType,
)
from netqasm.sdk.connection import BaseNetQASMConnection
from netqasm.sdk.epr_socket import EPRSocket
from netqasm.sdk.network import NetworkInfo

NODE_IDS = {"alice": 0, "bob": 1}


# ---------------------------------------------------------------- minimal backend
class Stack(BaseNetworkStack):
    def __init__(self):
        self.requests = []
        self.answered = 0

    def put(self, request):
        self.requests.append(request)

    def setup_epr_socket(self, epr_socket_id, remote_node_id, remote_epr_socket_id, timeout=1.0):
        return None

    def get_purpose_id(self, remote_node_id, epr_socket_id):
        return epr_socket_id

    def deliver(self, executor):
        """Answer every request that has not been answered yet, pair by pair."""
        while self.answered < len(self.requests):
            req = self.requests[self.answered]
            self.answered += 1
            for i in range(req.number):
                if req.type == RequestType.K:
                    executor._handle_epr_response(
                        LinkLayerOKTypeK(
                            type=ReturnType.OK_K,
                            create_id=self.answered,
                            logical_qubit_id=i,
                            directionality_flag=0,
                            sequence_number=i,
                            purpose_id=req.purpose_id,
                            remote_node_id=req.remote_node_id,
                            goodness=70 + i,
                            goodness_time=0,
                            bell_state=BellState.PHI_PLUS,
                        )
                    )
                    continue
                executor._handle_epr_response(
                    LinkLayerOKTypeM(
                        type=ReturnType.OK_M,
                        create_id=self.answered,
                        measurement_outcome=(i + 1) % 2,
                        measurement_basis=Basis.Z,
                        directionality_flag=0,
                        sequence_number=i,
                        purpose_id=req.purpose_id,
                        remote_node_id=req.remote_node_id,
                        goodness=70 + i,
                        bell_state=BellState.PHI_PLUS,
                    )
                )


class Exec(Executor):
    node_id = 0

    def _wait_to_handle_epr_responses(self):
        return None

    def _do_wait(self):
        yield "waiting"


class Controller(QNodeController):
    @classmethod
    def _get_executor_class(cls, flavour=None):
        return Exec

    def stop(self):
        pass

    def _mark_message_finished(self, msg_id, msg):
        pass


class Info(NetworkInfo):
    @classmethod
    def _get_node_id(cls, node_name):
        return NODE_IDS[node_name]

    @classmethod
    def _get_node_name(cls, node_id):
        return {v: k for k, v in NODE_IDS.items()}[node_id]

    @classmethod
    def get_node_id_for_app(cls, app_name):
        return NODE_IDS[app_name]

    @classmethod
    def get_node_name_for_app(cls, app_name):
        return app_name


class Conn(BaseNetQASMConnection):
    def __init__(self, app_name, controller, **kw):
        self.controller = controller
        super().__init__(app_name=app_name, node_name=controller.name, **kw)

    def _get_network_info(self):
        return Info

    def _commit_serialized_message(self, raw_msg, block=True, callback=None):
        executor = self.controller._executor
        waits = 0
        for _ in self.controller.handle_netqasm_message(0, deserialize_host_msg(raw_msg)):
            # the subroutine waits: let the link layer answer
            self.controller.network_stack.deliver(executor)
            executor._handle_pending_epr_responses()
            waits += 1
            if waits > 100:
                raise TimeoutError("the subroutine keeps waiting")


# ---------------------------------------------------------------- the history
ctrl = Controller("alice")
stack = Stack()
ctrl.network_stack = stack
sock = EPRSocket("bob", epr_socket_id=3, remote_epr_socket_id=3)
problems = []

with Conn("alice", ctrl, epr_sockets=[sock]) as conn:
    # An earlier subroutine leaves a value in shared memory (here simply an array entry; a measurement
    # outcome or a counter works the same).  After the flush the Future "behaves like an int".
    rounds = conn.new_array(init_values=[2]).get_future_index(0)
    conn.flush()
    assert isinstance(rounds, int) and rounds == 2 and rounds + 1 == 3

    results = sock.create_measure(number=rounds)
    conn.flush()

    req = stack.requests[-1]
    print("network stack received: type", req.type.name, "number", req.number)
    print("result handles the application got back: expected 2, got", len(results))
    if req.number != 2:
        problems.append("the stack did not receive number=2")
    if len(results) != 2:
        problems.append(
            f"create_measure(number=<Future with value 2>) asked the stack for {req.number} pairs "
            f"but returned {len(results)} result handles"
        )
    else:
        got = [(r.raw_measurement_outcome.value, r.generation_duration.value) for r in results]
        print("  outcomes/durations:", got)
        if got != [(1, 70), (0, 71)]:
            problems.append(f"handles read {got}, the responses carried [(1, 70), (0, 71)]")

    # the keep variant refuses the same (valid) value
    try:
        qubits = sock.create_keep(number=rounds)
        print("create_keep returned", len(qubits), "qubits")
        if len(qubits) != 2:
            problems.append(f"create_keep(number=<Future 2>) returned {len(qubits)} qubit handles")
        for q in qubits:
            q.measure()
    except AssertionError as exc:
        print("create_keep(number=<Future with value 2>) raised AssertionError:", exc)
        problems.append("create_keep(number=<Future 2>) fails with an AssertionError about an array of length 0")

if problems:
    print("VIOLATION:")
    for p in problems:
        print(" -", p)
    sys.exit(1)
print("ok")
