"""C06 - a refused ProtoSubroutine.instantiate() leaves half of its values behind.

Older route to a templated subroutine: take the pending operations from the builder as a
ProtoSubroutine, fill in the templates, send with commit_protosubroutine().
An instantiate() call that is refused (a value is missing -> KeyError) has already written
the values it did find into the commands.  The corrected call that follows cannot replace
them: the controller gets a mix of the refused call's and the valid call's values.
"""
import sys

from netqasm.backend.messages import SubroutineMessage, deserialize_host_msg
from netqasm.lang.operand import Template
from netqasm.lang.parsing.binary import deserialize
from netqasm.sdk.connection import DebugConnection
from netqasm.sdk.qubit import Qubit


def sent(conn):
    out = []
    for raw in conn.storage:
        msg = deserialize_host_msg(raw)
        if isinstance(msg, SubroutineMessage):
            subrt = deserialize(msg.subroutine)
            out.append([str(i) for i in subrt.instructions])
    return out


# reference: the operations written with the values, flushed
ref = DebugConnection("ref")
q = Qubit(ref)
ref.flush()
q.rot_Z(n=2, d=4)
q.rot_X(n=3, d=4)
ref.flush()
ref.close()

pre = DebugConnection("pre")
q = Qubit(pre)
pre.flush()
q.rot_Z(n=Template("a"), d=4)
q.rot_X(n=Template("b"), d=4)
proto = pre.builder.subrt_pop_pending_subroutine()
try:
    proto.instantiate(pre.app_id, {"a": 1})  # "b" forgotten: refused
    print("(the incomplete call was not refused)")
except KeyError as exc:
    print(f"instantiate(a=1) without a value for b is refused: KeyError {exc}")
proto.instantiate(pre.app_id, {"a": 2, "b": 3})  # the valid call
pre.commit_protosubroutine(proto)
pre.close()

print("then instantiate(a=2, b=3), commit")
print("expected (flush):", sent(ref)[1:])
print("happened        :", sent(pre)[1:])
if pre.storage != ref.storage:
    print("-> VIOLATION: a=1 of the refused call was sent instead of a=2")
    sys.exit(1)
sys.exit(0)
