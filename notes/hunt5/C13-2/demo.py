"""C13 finding 2: a keep-delivery that is refused leaves its physical qubit marked in use.

Executor._handle_epr_ok_k_response adds the delivered physical qubit to
_used_physical_qubit_addresses BEFORE _allocate_physical_qubit checks the virtual address.  When
that check refuses (virtual ID outside the unit module), the physical qubit stays "in use" although
no virtual qubit maps to it - also after valid operations that follow, and even after
stop_application of the application.

Expected (property C13): the set of physical qubits marked in use is exactly the set currently
mapped, after every operation (a refused one must not leave anything behind); stopping an
application releases all of its qubits.
"""
import sys

from netqasm.backend.executor import Executor
from netqasm.backend.network_stack import BaseNetworkStack
from netqasm.lang.parsing import parse_text_subroutine
from netqasm.qlink_compat import BellState, LinkLayerOKTypeK, ReturnType
from netqasm.sdk.shared_memory import SharedMemoryManager


class Stack(BaseNetworkStack):
    def put(self, request):
        pass

    def setup_epr_socket(self, epr_socket_id, remote_node_id, remote_epr_socket_id, timeout=1.0):
        return None

    def get_purpose_id(self, remote_node_id, epr_socket_id):
        return epr_socket_id


class Controller(Executor):
    @property
    def node_id(self):
        return 0

    def _do_wait(self):
        yield "wait"

    def _wait_to_handle_epr_responses(self):
        return None


def subroutine(app_id, text):
    return parse_text_subroutine(f"# NETQASM 1.0\n# APPID {app_id}\n{text}")


def recv_keep(app_id, virt_id, sock=0):
    return subroutine(
        app_id,
        f"""
        set R0 10
        array R0 @0
        set R0 1
        array R0 @1
        set R5 {virt_id}
        store R5 @1[0]
        set R1 1
        set R2 {sock}
        set R3 1
        set R4 0
        recv_epr R1 R2 R3 R4
        wait_all @0[0:10]
        """,
    )


def keep_response(phys, sock=0):
    return LinkLayerOKTypeK(
        type=ReturnType.OK_K, create_id=0, logical_qubit_id=phys, directionality_flag=1,
        sequence_number=0, purpose_id=sock, remote_node_id=1, goodness=0, goodness_time=0,
        bell_state=BellState.PHI_PLUS,
    )


def mapped(ex):
    return sorted(p for um in ex._qubit_unit_modules.values() for p in um if p is not None)


failures = []


def expect_consistent(ex, when):
    used, mp = sorted(ex._used_physical_qubit_addresses), mapped(ex)
    ok = used == mp
    print(("ok      " if ok else "VIOLATED") + f" {when}: in use {used}, mapped {mp}")
    if not ok:
        failures.append(when)


SharedMemoryManager.reset_memories()
ex = Controller(name="ctrl")
ex.network_stack = Stack()
ex.init_new_application(app_id=0, max_qubits=2)
ex.init_new_application(app_id=1, max_qubits=2)

# app 0 asks to keep a pair in virtual qubit 2 - one past its unit module of 2 qubits
g = ex.execute_subroutine(recv_keep(0, virt_id=2))
next(g)
expect_consistent(ex, "after the request")
try:
    ex._handle_epr_response(keep_response(phys=0))
    print("the delivery was accepted?!")
except ValueError as exc:
    print("         delivery refused, as it should be:", str(exc).splitlines()[0])
expect_consistent(ex, "after the refused delivery")

# valid operations that follow: the other application allocates a qubit
ex.consume_execute_subroutine(subroutine(1, "set Q0 0\nqalloc Q0\n"))
expect_consistent(ex, "after a valid qalloc of app 1")
# stopping both applications must release everything
list(ex.stop_application(app_id=0))
list(ex.stop_application(app_id=1))
expect_consistent(ex, "after stopping every application")

print()
if failures:
    print(f"{len(failures)} expectation(s) violated")
    sys.exit(1)
print("all expectations hold")
