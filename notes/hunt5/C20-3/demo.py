"""C20 / finding 3: the Future returned by parity_meas keeps the outcome of the first execution.

`conn.compile()` turns the queued operations into a Subroutine that the application may send more
than once (`conn.commit_subroutine(sub)`).  The Future that parity_meas returned reports the
parity of the *first* execution for ever: after the second execution it disagrees with the outcome
the controller actually produced and with the post-measurement state of the qubits.
"""
import sys

# ---------------------------------------------------------------------------
# A minimal in-process state-vector backend: the package's own Executor and
# QNodeController, with only the quantum hooks filled in, and a connection that
# hands every serialized message straight to that controller.
# ---------------------------------------------------------------------------
import numpy as np

from netqasm.backend.executor import Executor
from netqasm.backend.messages import deserialize_host_msg
from netqasm.backend.qnodeos import QNodeController
from netqasm.lang import instr as ins
from netqasm.sdk.connection import BaseNetQASMConnection
from netqasm.sdk.network import NetworkInfo
from netqasm.util.quantum_gates import get_rotation_matrix


class SVExecutor(Executor):
    def __init__(self, *a, **kw):
        super().__init__(*a, **kw)
        self.phys = []  # physical qubit IDs, in tensor order
        self.state = np.ones((), dtype=complex)
        self.rng = np.random.default_rng(2024)
        self.forced = []  # outcomes to force for the next `meas` instructions
        self.meas_log = []  # (virtual id, outcome, probability of that outcome)

    def _apply(self, mat, targets):
        k, n = len(targets), len(self.phys)
        axes = [self.phys.index(t) for t in targets]
        mat = np.asarray(mat, dtype=complex).reshape((2,) * (2 * k))
        st = np.tensordot(mat, self.state, axes=(list(range(k, 2 * k)), axes))
        rest = [i for i in range(n) if i not in axes]
        self.state = np.transpose(st, np.argsort(axes + rest))

    def _measure(self, p, forced=None):
        ax = self.phys.index(p)
        st = np.moveaxis(self.state, ax, 0)
        p0 = float(np.sum(np.abs(st[0]) ** 2))
        out = int(self.rng.random() >= p0) if forced is None else forced
        prob = [p0, 1 - p0][out]
        new = np.zeros_like(st)
        new[out] = st[out] / np.sqrt(prob)
        self.state = np.moveaxis(new, 0, ax)
        return out, prob

    def _reserve_physical_qubit(self, p):
        self.state = np.tensordot(self.state, np.array([1, 0], dtype=complex), axes=0)
        self.phys.append(p)

    def _clear_phys_qubit_in_memory(self, p):
        out, _ = self._measure(p)
        self.state = np.take(self.state, out, axis=self.phys.index(p))
        self.phys.remove(p)

    def _pos(self, subroutine_id, address):
        return self._get_position(subroutine_id=subroutine_id, address=address)

    def _do_single_qubit_instr(self, instr, subroutine_id, address):
        p = self._pos(subroutine_id, address)
        if isinstance(instr, ins.core.InitInstruction):
            out, _ = self._measure(p)
            if out == 1:
                self._apply([[0, 1], [1, 0]], [p])
        else:
            self._apply(instr.to_matrix(), [p])

    def _do_single_qubit_rotation(self, instr, subroutine_id, address, angle):
        axis = {"rot_x": [1, 0, 0], "rot_y": [0, 1, 0], "rot_z": [0, 0, 1]}[instr.mnemonic]
        self._apply(get_rotation_matrix(axis, angle), [self._pos(subroutine_id, address)])

    def _do_controlled_qubit_rotation(self, instr, subroutine_id, address1, address2, angle):
        self._apply(instr.to_matrix(), [self._pos(subroutine_id, address1), self._pos(subroutine_id, address2)])

    def _do_two_qubit_instr(self, instr, subroutine_id, address1, address2):
        self._apply(instr.to_matrix(), [self._pos(subroutine_id, address1), self._pos(subroutine_id, address2)])

    def _do_meas(self, subroutine_id, q_address):
        forced = self.forced.pop(0) if self.forced else None
        out, prob = self._measure(self._pos(subroutine_id, q_address), forced)
        self.meas_log.append((q_address, out, prob))
        return out

    # helpers for the check: state of / for the given virtual qubits (all that are allocated)
    def get_state(self, app_id, virt_ids):
        ps = [self._get_position(app_id=app_id, address=v) for v in virt_ids]
        assert sorted(ps) == sorted(self.phys), (ps, self.phys)
        return np.transpose(self.state, [self.phys.index(p) for p in ps]).reshape(-1)

    def set_state(self, app_id, virt_ids, vec):
        ps = [self._get_position(app_id=app_id, address=v) for v in virt_ids]
        assert sorted(ps) == sorted(self.phys), (ps, self.phys)
        self.phys = ps
        self.state = np.asarray(vec, dtype=complex).reshape((2,) * len(ps))


class SVController(QNodeController):
    @classmethod
    def _get_executor_class(cls, flavour=None):
        return SVExecutor

    def stop(self):
        pass

    def _mark_message_finished(self, msg_id, msg):
        pass


class _NetInfo(NetworkInfo):
    @classmethod
    def _get_node_id(cls, node_name):
        return 0

    @classmethod
    def _get_node_name(cls, node_id):
        return "node"

    @classmethod
    def get_node_id_for_app(cls, app_name):
        return 0

    @classmethod
    def get_node_name_for_app(cls, app_name):
        return app_name


class SVConnection(BaseNetQASMConnection):
    def __init__(self, app_name="app", flavour=None, **kw):
        self.controller = SVController(name=app_name, flavour=flavour)
        super().__init__(app_name, node_name=app_name, **kw)

    @property
    def executor(self):
        return self.controller._executor

    def _commit_serialized_message(self, raw_msg, block=True, callback=None):
        list(self.controller.handle_netqasm_message(0, deserialize_host_msg(raw_msg)))

    def _get_network_info(self):
        return _NetInfo
# ---------------------------------------------------------------------------

from netqasm.sdk.qubit import Qubit
from netqasm.sdk.toolbox import parity_meas

X = np.array([[0, 1], [1, 0]], dtype=complex)
XX = np.kron(X, X)

conn = SVConnection("alice")
ex = conn.executor
q0, q1 = Qubit(conn), Qubit(conn)
conn.flush()

# One subroutine: a Z measurement of q0 (randomises the XX parity again), then the parity -XX.
parity_meas([q0, q1], "ZI")
m = parity_meas([q0, q1], "-XX")
sub = conn.compile()

failures = 0
# Both raw outcomes of the ancilla have probability 1/2; fix them to make the demo deterministic.
for run, raw in enumerate([1, 0, 1, 0], start=1):
    ex.forced = [0, raw]
    conn.commit_subroutine(sub)
    _, outcome, prob = ex.meas_log[-1]
    state = ex.get_state(conn.app_id, [q0.qubit_id, q1.qubit_id])
    exp_minus_xx = -np.real(np.vdot(state, XX @ state))  # eigenvalue of -XX in the post-measurement state
    parity_of_state = 0 if exp_minus_xx > 0 else 1
    in_memory = conn.shared_memory.get_array_part(m._address, 0)
    print(
        f"run {run}: ancilla outcome {outcome} (p={prob:.2f}); post-measurement state has <-XX> = {exp_minus_xx:+.0f}"
        f" -> parity {parity_of_state}; shared memory says {in_memory}; int(m) = {int(m)}"
    )
    if int(m) != parity_of_state:
        failures += 1

print("expected: after every execution int(m) is the parity of -XX that was measured in that execution")
if failures:
    print(f"VIOLATION: in {failures} of 4 executions the value returned by parity_meas contradicts the measurement")
    sys.exit(1)
print("ok")
