"""C08 / finding 2: after the electron (virtual ID 0) has been given back, every gate between two
carbons is transpiled into a program that aborts, because the expansion borrows qubit 0.

Run:  cd /tmp/hunt5/C08/wt && PYTHONPATH=/tmp/hunt5/C08/wt /venv/bin/python /tmp/hunt5/C08/out/2/demo.py
"""
# ---------------------------------------------------------------------------------------
# A minimal state-vector back-end for the package's own Executor (the hooks a simulator
# is meant to fill in).  Every quantum operation looks its qubit up with the executor's
# `_get_position`, exactly like the simulators built on netqasm do.
# ---------------------------------------------------------------------------------------
import cmath
import itertools
import math

import numpy as np

from netqasm.backend.executor import Executor
from netqasm.lang.instr import core

_I = np.eye(2, dtype=complex)
_X = np.array([[0, 1], [1, 0]], dtype=complex)
_Y = np.array([[0, -1j], [1j, 0]], dtype=complex)
_Z = np.array([[1, 0], [0, -1]], dtype=complex)
_GATES = {
    "x": _X,
    "y": _Y,
    "z": _Z,
    "h": (_X + _Z) / math.sqrt(2),
    "k": (_Y + _Z) / math.sqrt(2),
    "s": np.diag([1, 1j]),
    "t": np.diag([1, cmath.exp(1j * math.pi / 4)]),
}
_AXIS = {"x": _X, "y": _Y, "z": _Z}
_names = itertools.count()


def _rot(P, angle):
    return math.cos(angle / 2) * _I - 1j * math.sin(angle / 2) * P


class KetExecutor(Executor):
    NPHYS = 6

    def __init__(self, outcomes_rand):
        super().__init__(name=f"ket{next(_names)}")
        self.ket = np.zeros(2**self.NPHYS, dtype=complex)
        self.ket[0] = 1
        self.rand = list(outcomes_rand)
        self.outcomes = []

    # -- state helpers (physical positions)
    def _ax(self, pos):
        return self.ket.reshape([2] * self.NPHYS), pos

    def _apply1(self, U, pos):
        st = np.moveaxis(self.ket.reshape([2] * self.NPHYS), pos, 0)
        st = np.tensordot(U, st, axes=([1], [0]))
        self.ket = np.moveaxis(st, 0, pos).reshape(-1)

    def _apply_ctrl(self, U0, U1, c, t):
        if c == t:
            raise RuntimeError(f"controlled operation whose control and target are the same physical qubit {c}")
        st = np.moveaxis(self.ket.reshape([2] * self.NPHYS).copy(), [c, t], [0, 1])
        a = np.tensordot(U0, st[0], axes=([1], [0]))
        b = np.tensordot(U1, st[1], axes=([1], [0]))
        self.ket = np.moveaxis(np.stack([a, b]), [0, 1], [c, t]).reshape(-1)

    def _project(self, pos, out):
        st = np.moveaxis(self.ket.reshape([2] * self.NPHYS), pos, 0)
        new = np.zeros_like(st)
        new[out] = st[out]
        new = new / np.linalg.norm(new)
        self.ket = np.moveaxis(new, 0, pos).reshape(-1)

    def _p1(self, pos):
        st = np.moveaxis(self.ket.reshape([2] * self.NPHYS), pos, 0)
        return float(np.sum(np.abs(st[1]) ** 2))

    def _reset(self, pos):
        out = 1 if self._p1(pos) > 0.5 else 0
        self._project(pos, out)
        if out:
            self._apply1(_X, pos)

    # -- hooks of netqasm.backend.executor.Executor
    def _do_single_qubit_instr(self, instr, subroutine_id, address):
        pos = self._get_position(subroutine_id=subroutine_id, address=address)
        if isinstance(instr, core.InitInstruction):
            self._reset(pos)
        else:
            self._apply1(_GATES[instr.mnemonic], pos)

    def _do_single_qubit_rotation(self, instr, subroutine_id, address, angle):
        pos = self._get_position(subroutine_id=subroutine_id, address=address)
        self._apply1(_rot(_AXIS[instr.mnemonic[-1]], angle), pos)

    def _do_controlled_qubit_rotation(
        self, instr, subroutine_id, address1, address2, angle
    ):
        c = self._get_position(subroutine_id=subroutine_id, address=address1)
        t = self._get_position(subroutine_id=subroutine_id, address=address2)
        P = _AXIS[instr.mnemonic[-1]]
        self._apply_ctrl(_rot(P, angle), _rot(P, -angle), c, t)

    def _do_two_qubit_instr(self, instr, subroutine_id, address1, address2):
        a = self._get_position(subroutine_id=subroutine_id, address=address1)
        b = self._get_position(subroutine_id=subroutine_id, address=address2)
        if instr.mnemonic == "cnot":
            self._apply_ctrl(_I, _X, a, b)
        elif instr.mnemonic == "cphase":
            self._apply_ctrl(_I, _Z, a, b)
        elif instr.mnemonic == "mov":
            if a == b:
                raise RuntimeError("mov onto itself")
            st = np.swapaxes(self.ket.reshape([2] * self.NPHYS), a, b)
            self.ket = st.reshape(-1).copy()
        else:
            raise NotImplementedError(instr.mnemonic)

    def _do_meas(self, subroutine_id, q_address):
        pos = self._get_position(subroutine_id=subroutine_id, address=q_address)
        r = self.rand.pop(0)
        out = 1 if r < self._p1(pos) else 0
        self._project(pos, out)
        self.outcomes.append(out)
        return out

    def _clear_phys_qubit_in_memory(self, physical_address):
        self._reset(physical_address)
        yield None

    # -- what an observer can see at the end
    def snapshot(self, app_id, skip_registers=()):
        unit_module = self._qubit_unit_modules[app_id]
        keep = [p for p in unit_module if p is not None]
        virt = [v for v, p in enumerate(unit_module) if p is not None]
        rest = [p for p in range(self.NPHYS) if p not in keep]
        st = np.moveaxis(
            self.ket.reshape([2] * self.NPHYS), keep + rest, list(range(self.NPHYS))
        ).reshape(2 ** len(keep), 2 ** len(rest))
        rho = st @ st.conj().T
        arrays = {
            addr: list(arr)
            for addr, arr in self._app_arrays[app_id]._arrays.items()
        }
        return dict(virt=virt, rho=rho, arrays=arrays, outcomes=list(self.outcomes))


# ---------------------------------------------------------------------------------------
# The demonstration
# ---------------------------------------------------------------------------------------
import sys

from netqasm.backend.messages import SubroutineMessage, deserialize_host_msg
from netqasm.lang.instr.flavour import NVFlavour, VanillaFlavour
from netqasm.lang.parsing import deserialize as deserialize_subroutine
from netqasm.sdk.build_types import NVHardwareConfig
from netqasm.sdk.connection import DebugConnection
from netqasm.sdk.qubit import Qubit
from netqasm.sdk.transpile import NVSubroutineTranspiler

MAX_QUBITS = 3


def application(conn, second_subroutine):
    """GHZ state on three NV qubits (electron a, carbons b and c); the electron is measured
    (which gives it back), afterwards a gate is done between the two carbons."""
    a, b, c = Qubit(conn), Qubit(conn), Qubit(conn)
    a.H()
    a.cnot(b)
    b.cnot(c)
    if second_subroutine:
        conn.flush()
    a.measure()  # measures and frees the electron (virtual ID 0)
    b.cnot(c)  # a gate between the two carbons, AFTER the electron was given back


def subroutines(nv: bool, second_subroutine: bool):
    if nv:
        kwargs = dict(compiler=NVSubroutineTranspiler)
    else:
        # same builder decisions (NV hardware layout), but no transpilation
        kwargs = dict(hardware_config=NVHardwareConfig(MAX_QUBITS))
    with DebugConnection("Alice", max_qubits=MAX_QUBITS, **kwargs) as conn:
        application(conn, second_subroutine)
    flavour = NVFlavour() if nv else VanillaFlavour()
    result = []
    for raw in conn.storage:
        msg = deserialize_host_msg(raw)
        if isinstance(msg, SubroutineMessage):
            result.append(deserialize_subroutine(msg.subroutine, flavour=flavour))
    return conn.app_id, result


def run(app_id, subs):
    executor = KetExecutor(outcomes_rand=[0.3, 0.7, 0.1])
    executor.init_new_application(app_id, MAX_QUBITS)
    for sub in subs:
        executor.consume_execute_subroutine(sub)
    return executor.snapshot(app_id)


failures = 0
for second_subroutine in (False, True):
    title = "electron freed in an EARLIER part of the same subroutine"
    if second_subroutine:
        title = "same, with a flush before the measurement (two subroutines)"
    print(f"=== {title}")
    app_id, vanilla_subs = subroutines(nv=False, second_subroutine=second_subroutine)
    expected = run(app_id, vanilla_subs)
    print(
        f"vanilla program : runs; outcomes {expected['outcomes']}, "
        f"qubits left {expected['virt']}, arrays {expected['arrays']}"
    )
    app_id, nv_subs = subroutines(nv=True, second_subroutine=second_subroutine)
    try:
        got = run(app_id, nv_subs)
    except Exception as exc:  # noqa
        failures += 1
        print(
            "NV transpilation: EXPECTED the same end state, but the run aborted with\n"
            f"    {type(exc).__name__}: {str(exc).splitlines()[0]}"
        )
        line = int(str(exc).split("At line ")[1].split(":")[0])
        for i in range(max(0, line - 7), line + 2):
            mark = "  <-- aborts here" if i == line else ""
            print(f"    {i:3d}  {nv_subs[-1].instructions[i]}{mark}")
        continue
    same = (
        got["virt"] == expected["virt"]
        and got["arrays"] == expected["arrays"]
        and got["outcomes"] == expected["outcomes"]
        and np.allclose(got["rho"], expected["rho"], atol=1e-7)
    )
    print("NV transpilation: runs;", "same end state" if same else "DIFFERENT end state")
    failures += not same

# Control: as long as the electron is still allocated the very same carbon-carbon gate is fine


def control(conn, _):
    a, b, c = Qubit(conn), Qubit(conn), Qubit(conn)
    a.H()
    a.cnot(b)
    b.cnot(c)
    b.cnot(c)
    a.measure()


application = control  # noqa
app_id, vanilla_subs = subroutines(False, False)
expected = run(app_id, vanilla_subs)
app_id, nv_subs = subroutines(True, False)
got = run(app_id, nv_subs)
ok = got["outcomes"] == expected["outcomes"] and np.allclose(got["rho"], expected["rho"])
print("=== control (carbon-carbon gate while the electron is still allocated):",
      "same end state" if ok else "DIFFERENT")

if failures:
    print(f"\nFAIL: {failures} scenario(s) in which the NV subroutine does not behave like the vanilla one")
    sys.exit(1)
print("\nOK")
