"""C04 / finding 4: with instruction logging switched on, look-ups made by the logger AFTER an
instruction has been executed are reported as a fault OF that instruction, and the subroutine is
abandoned - although the instruction is correct and has been carried out.

 (i)  `load R1 @0[R1]`  (index register == destination register): the logger evaluates the operand
      `@0[R1]` again with the NEW value of R1.
 (ii) `set Q0 5` in an application with 2 qubits (a Q-bank register used for a classical value):
      the logger looks up "virtual qubit 5" in the unit module.

The base `InstrLogger` leaves two hooks to the simulator (`_get_node_name`, `_get_qubit_groups`);
they are filled in trivially here, everything else is the unmodified base executor.
"""
import sys
import tempfile

from netqasm.backend.executor import Executor
from netqasm.lang.encoding import RegisterName
from netqasm.lang.parsing import parse_text_subroutine
from netqasm.logging.output import InstrLogger
from netqasm.sdk.shared_memory import SharedMemoryManager


class Logger(InstrLogger):
    def _get_node_name(self):
        return self._executor.name

    @classmethod
    def _get_qubit_groups(cls):
        return None


class LoggingExecutor(Executor):
    instr_logger_class = Logger


HEADER = "# NETQASM 1.0\n# APPID 0\n"

PROGRAM_1 = HEADER + """
set R0 2
array R0 @0
set R1 1
set R2 5
store R2 @0[R1]
load R1 @0[R1]
set R3 1
ret_reg R3
"""

PROGRAM_2 = HEADER + """
set Q0 5
set R3 1
ret_reg R3
"""


def run(executor_class, name, program, **kwargs):
    SharedMemoryManager.reset_memories()
    ex = executor_class(name=name, **kwargs)
    ex.init_new_application(app_id=0, max_qubits=2)
    err = None
    try:
        ex.consume_execute_subroutine(parse_text_subroutine(program))
    except Exception as exc:  # noqa
        err = f"{type(exc).__name__}: " + str(exc).split("\n")[0]
    regs = ex._registers[0]
    shared = ex._shared_memories[0].get_register("R3")
    return err, regs[RegisterName.R][1], regs[RegisterName.R][3], shared


failures = []
log_dir = tempfile.mkdtemp()

for label, program, node in [
    ("(i)  load R1 @0[R1]", PROGRAM_1, "n1"),
    ("(ii) set Q0 5 (2 qubits)", PROGRAM_2, "n2"),
]:
    plain = run(Executor, node + "-plain", program)
    logged = run(LoggingExecutor, node, program, instr_log_dir=log_dir)
    print(label)
    print("   without logging (error, R1, R3, returned R3):", plain)
    print("   with logging    (error, R1, R3, returned R3):", logged)
    assert plain[0] is None and plain[2] == 1 and plain[3] == 1
    if logged != plain:
        failures.append(f"{label}: with instr_log_dir the subroutine is cut short: {logged[0]!r}")

if failures:
    print("\nVIOLATION (logging must not change what a subroutine does):")
    for f in failures:
        print(" -", f)
    sys.exit(1)
print("OK")
