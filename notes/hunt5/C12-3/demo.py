"""C12 finding 3: a request for zero pairs is accepted, never retired, and blocks its queue.

One subroutine posts two receive requests on the same socket: the first with an empty
result array (length 0 -> 0 pairs; the same happens for any length below 10 and for a
create request whose `number` argument is 0), the second for 1 pair, then waits for the
second.  The remote creates one (measure-type) pair.

Expected (C12): "a request is retired after exactly its number of pairs" - the zero-pair
request is retired at once (or refused loudly when posted); the response is consumed by
the oldest OUTSTANDING request, the second one: slice 0 of its array is filled, it is
retired, the wait resumes.
"""
import sys

from netqasm.backend.executor import Executor
from netqasm.backend.network_stack import BaseNetworkStack
from netqasm.lang.parsing import parse_text_subroutine
from netqasm.qlink_compat import Basis, BellState, LinkLayerOKTypeM, ReturnType
from netqasm.sdk.shared_memory import SharedMemoryManager


class Stack(BaseNetworkStack):
    def __init__(self):
        self.requests = []

    def put(self, request):
        self.requests.append(request)

    def setup_epr_socket(self, epr_socket_id, remote_node_id, remote_epr_socket_id, timeout=1.0):
        yield None

    def get_purpose_id(self, remote_node_id, epr_socket_id):
        return epr_socket_id


class Exec(Executor):
    @property
    def node_id(self):
        return 0

    def _wait_to_handle_epr_responses(self):
        pass

    def _do_wait(self):
        yield "wait"


def M(seq, direction):
    return LinkLayerOKTypeM(
        type=ReturnType.OK_M, create_id=0, measurement_outcome=1, measurement_basis=Basis.Z,
        directionality_flag=direction, sequence_number=seq, purpose_id=0, remote_node_id=1,
        goodness=1, bell_state=BellState.PHI_PLUS,
    )


def run_until_wait(gen):
    for v in gen:
        if v == "wait":
            return "waiting"
    return "finished"


RECV = """# NETQASM 1.0
# APPID 0
set R1 1
set R2 0
set R9 0
array R9 @2
set R5 2
recv_epr R1 R2 R3 R5
set R9 10
array R9 @5
set R5 5
recv_epr R1 R2 R3 R5
wait_all @5[0:10]
"""

CREATE = """# NETQASM 1.0
# APPID 0
set R1 1
set R2 0
set R9 20
array R9 @1
set R9 1
store R9 @1[0]
set R9 0
store R9 @1[1]
set R9 0
array R9 @2
set R4 1
set R5 2
create_epr R1 R2 R3 R4 R5
set R9 20
array R9 @4
set R9 1
store R9 @4[0]
store R9 @4[1]
set R9 10
array R9 @5
set R4 4
set R5 5
create_epr R1 R2 R3 R4 R5
wait_all @5[0:10]
"""

problems = []
for role, text, direction in (("recv", RECV, 1), ("create", CREATE, 0)):
    SharedMemoryManager.reset_memories()
    ex = Exec(name="node0")
    ex.network_stack = Stack()
    ex.init_new_application(app_id=0, max_qubits=5)
    g = ex.execute_subroutine(parse_text_subroutine(text))
    assert run_until_wait(g) == "waiting"
    queues = ex._epr_recv_requests if role == "recv" else ex._epr_create_requests
    print(f"[{role}] queue after both requests were posted (tot_pairs, pairs_left):",
          [(d.tot_pairs, d.pairs_left) for d in queues[1, 0]])
    if role == "create":
        print(f"[{role}] numbers handed to the network stack:", [r.number for r in ex.network_stack.requests])
    try:
        ex._handle_epr_response(M(seq=5, direction=direction))
        print(f"[{role}] response delivered")
    except Exception as exc:
        print(f"[{role}] delivery raised {type(exc).__name__}: {str(exc).splitlines()[0]}")
        problems.append(f"{role}: delivering the pair raised {type(exc).__name__}")
    ex._handle_pending_epr_responses()
    state = run_until_wait(g)
    q = [(d.tot_pairs, d.pairs_left) for d in queues[1, 0]]
    res = ex._app_arrays[0]._arrays[5]
    print(f"[{role}] result array of the 1-pair request:", res, "(expected sequence number 5 at index 5)")
    print(f"[{role}] queue:", q, "(expected [])")
    print(f"[{role}] pending responses:", len(ex._pending_epr_responses), "(expected 0)")
    print(f"[{role}] wait_all:", state, "(expected finished)")
    if res[5] != 5:
        problems.append(f"{role}: the pair did not fill slice 0 of the 1-pair request's result array")
    if q:
        problems.append(f"{role}: requests not retired after exactly their number of pairs: {q}")
    if state != "finished":
        problems.append(f"{role}: the wait never resumes although the pair was delivered "
                        f"(and consumed: {len(ex._pending_epr_responses)} pending)")

if problems:
    print("\nVIOLATION of C12:")
    for p in problems:
        print(" -", p)
    sys.exit(1)
print("OK")
