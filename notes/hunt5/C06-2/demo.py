"""C06 - with the NV transpiler in hardware mode a templated rotation cannot be pre-compiled.

`netqasm run` (execution on QNodeOS) switches on hardware mode
(`netqasm.runtime.settings.set_is_using_hardware(True)`).  In that mode the NV transpiler
rescales every rotation angle to a multiple of pi/16 and reads `angle_num.value` to do so;
a template operand has no value, so `compile()` dies with an AttributeError.  The pending
operations are lost and the builder's bookkeeping is not reset, so the next flush declares
an array whose measurement never reaches the controller.
Flushing the same operations written with the value works.
"""
import sys
import traceback

from netqasm.backend.messages import SubroutineMessage, deserialize_host_msg
from netqasm.lang.instr.flavour import NVFlavour
from netqasm.lang.operand import Template
from netqasm.lang.parsing.binary import deserialize
from netqasm.runtime.settings import set_is_using_hardware
from netqasm.sdk.connection import DebugConnection
from netqasm.sdk.qubit import Qubit
from netqasm.sdk.transpile import NVSubroutineTranspiler


def sent(conn):
    out = []
    for raw in conn.storage:
        msg = deserialize_host_msg(raw)
        if isinstance(msg, SubroutineMessage):
            subrt = deserialize(msg.subroutine, flavour=NVFlavour())
            out.append([str(i) for i in subrt.instructions])
    return out


set_is_using_hardware(True)  # what `netqasm run` does

# reference: the operations written with the value, flushed.
# (5 * pi / 2^4: already in the form the hardware wants, so no rescaling is involved)
ref = DebugConnection("ref", compiler=NVSubroutineTranspiler)
q = Qubit(ref)
ref.flush()
q.rot_Z(n=5, d=4)
m = q.measure()
ref.flush()
ref.close()

# same operations with a template operand: compile, fill in, commit
pre = DebugConnection("pre", compiler=NVSubroutineTranspiler)
q = Qubit(pre)
pre.flush()
q.rot_Z(n=Template("angle"), d=4)
m = q.measure()
error = None
try:
    subrt = pre.compile()
    subrt.instantiate(pre.app_id, arguments={"angle": 5})
    pre.commit_subroutine(subrt)
except Exception as exc:
    error = exc
    traceback.print_exc()
pre.close()

print("NV transpiler, hardware mode: rot_Z(5 * pi / 2^4), measure")
print("expected (flush)            :", sent(ref)[1:])
print("compile/instantiate/commit  :", sent(pre)[1:])
if error is not None:
    print(f"-> VIOLATION: compile() raised {type(error).__name__}: {error}")
    print("   (and the closing flush declared the array of a measurement that was never sent)")
    sys.exit(1)
if pre.storage != ref.storage:
    print("-> VIOLATION: the controller received something else")
    sys.exit(1)
sys.exit(0)
