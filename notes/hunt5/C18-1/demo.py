"""C18 finding 1: the finalizer of an OLD / never-connected socket object disconnects the
NEW socket that uses the same (app, remote, id) key.

A ThreadSocket has no close(); it is disconnected when the object is released.  The hub
tracks "open" purely by key, so releasing socket object S1 removes the key from the hub
even when another, live object S2 registered that key in the meantime.
"""
import gc
import sys
import threading

from netqasm.sdk import ThreadSocket
from netqasm.sdk.classical_communication import reset_socket_hub

failures = []


def start(fn):
    box = {}

    def run():
        try:
            box["v"] = fn()
        except BaseException as exc:  # pragma: no cover
            box["e"] = exc

    t = threading.Thread(target=run, daemon=True)
    t.start()
    return t, box


def check_roundtrip(name, a, b):
    """a and b are both alive and were both returned by a successful constructor"""
    try:
        a.send("ping")
        got = b.recv(timeout=2)
        b.send("pong")
        got2 = a.recv(timeout=2)
    except Exception as exc:
        print(f"[{name}] FAIL expected: ping/pong delivered between the two live sockets")
        print(f"[{name}]      happened: {type(exc).__name__}: {exc}")
        print(f"[{name}]      a.connected={a.connected} b.connected={b.connected}")
        failures.append(name)
        return
    if (got, got2) != ("ping", "pong"):
        print(f"[{name}] FAIL expected ('ping', 'pong'), got {(got, got2)}")
        failures.append(name)
    else:
        print(f"[{name}] ok")


# --- scenario 1: reconnect by re-binding the variable ------------------------------------
reset_socket_hub()
t, box = start(lambda: ThreadSocket("bob", "alice"))
a = ThreadSocket("alice", "bob")
t.join()
b = box.pop("v")
a.send("first connection")
assert b.recv(timeout=2) == "first connection"
# alice reconnects: the new socket is built (and connects to the still-open bob) BEFORE the
# old object is released by the assignment
a = ThreadSocket("alice", "bob", timeout=2)
gc.collect()
check_roundtrip("reconnect by re-binding", a, b)
del a, b
gc.collect()

# --- scenario 2: connect timed out, retried inside the except block ----------------------
reset_socket_hub()
t = None
try:
    a = ThreadSocket("alice", "bob", timeout=0.2)  # bob is not there yet: refused
except TimeoutError:
    # (the exception being handled keeps the half-built socket object alive)
    t, box = start(lambda: ThreadSocket("bob", "alice"))
    a = ThreadSocket("alice", "bob", timeout=5)  # valid retry, succeeds
    t.join()
    b = box.pop("v")
    assert a.connected and b.connected
# leaving the handler released the timed-out object; its __del__ "disconnects" key alice->bob
gc.collect()
check_roundtrip("retry after connect timeout", a, b)

if failures:
    print("VIOLATION:", failures)
    sys.exit(1)
print("all good")
