"""C20 / finding 4 (NV hardware configuration): parity_meas inside a loop or a conditional.

For NV the builder relocates the qubit on virtual ID 0 when another qubit has to be measured
(Builder._build_cmds_free_up_qubit_location) and renumbers the caller's Qubit handle - once, while the
Python code of the body is being recorded.  The recorded body, however, runs n times (loop) or not
at all (conditional).  The second iteration therefore addresses a qubit that the first one moved
away, and after a branch that was not taken the handle points to a qubit that does not exist.
The same programs are fine on a generic (vanilla) connection.
"""
import sys

# ---------------------------------------------------------------------------
# A minimal in-process state-vector backend: the package's own Executor and
# QNodeController, with only the quantum hooks filled in, and a connection that
# hands every serialized message straight to that controller.
# ---------------------------------------------------------------------------
import numpy as np

from netqasm.backend.executor import Executor
from netqasm.backend.messages import deserialize_host_msg
from netqasm.backend.qnodeos import QNodeController
from netqasm.lang import instr as ins
from netqasm.sdk.connection import BaseNetQASMConnection
from netqasm.sdk.network import NetworkInfo
from netqasm.util.quantum_gates import get_rotation_matrix


class SVExecutor(Executor):
    def __init__(self, *a, **kw):
        super().__init__(*a, **kw)
        self.phys = []  # physical qubit IDs, in tensor order
        self.state = np.ones((), dtype=complex)
        self.rng = np.random.default_rng(2024)
        self.forced = []  # outcomes to force for the next `meas` instructions
        self.meas_log = []  # (virtual id, outcome, probability of that outcome)

    def _apply(self, mat, targets):
        k, n = len(targets), len(self.phys)
        axes = [self.phys.index(t) for t in targets]
        mat = np.asarray(mat, dtype=complex).reshape((2,) * (2 * k))
        st = np.tensordot(mat, self.state, axes=(list(range(k, 2 * k)), axes))
        rest = [i for i in range(n) if i not in axes]
        self.state = np.transpose(st, np.argsort(axes + rest))

    def _measure(self, p, forced=None):
        ax = self.phys.index(p)
        st = np.moveaxis(self.state, ax, 0)
        p0 = float(np.sum(np.abs(st[0]) ** 2))
        out = int(self.rng.random() >= p0) if forced is None else forced
        prob = [p0, 1 - p0][out]
        new = np.zeros_like(st)
        new[out] = st[out] / np.sqrt(prob)
        self.state = np.moveaxis(new, 0, ax)
        return out, prob

    def _reserve_physical_qubit(self, p):
        self.state = np.tensordot(self.state, np.array([1, 0], dtype=complex), axes=0)
        self.phys.append(p)

    def _clear_phys_qubit_in_memory(self, p):
        out, _ = self._measure(p)
        self.state = np.take(self.state, out, axis=self.phys.index(p))
        self.phys.remove(p)

    def _pos(self, subroutine_id, address):
        return self._get_position(subroutine_id=subroutine_id, address=address)

    def _do_single_qubit_instr(self, instr, subroutine_id, address):
        p = self._pos(subroutine_id, address)
        if isinstance(instr, ins.core.InitInstruction):
            out, _ = self._measure(p)
            if out == 1:
                self._apply([[0, 1], [1, 0]], [p])
        else:
            self._apply(instr.to_matrix(), [p])

    def _do_single_qubit_rotation(self, instr, subroutine_id, address, angle):
        axis = {"rot_x": [1, 0, 0], "rot_y": [0, 1, 0], "rot_z": [0, 0, 1]}[instr.mnemonic]
        self._apply(get_rotation_matrix(axis, angle), [self._pos(subroutine_id, address)])

    def _do_controlled_qubit_rotation(self, instr, subroutine_id, address1, address2, angle):
        self._apply(instr.to_matrix(), [self._pos(subroutine_id, address1), self._pos(subroutine_id, address2)])

    def _do_two_qubit_instr(self, instr, subroutine_id, address1, address2):
        self._apply(instr.to_matrix(), [self._pos(subroutine_id, address1), self._pos(subroutine_id, address2)])

    def _do_meas(self, subroutine_id, q_address):
        forced = self.forced.pop(0) if self.forced else None
        out, prob = self._measure(self._pos(subroutine_id, q_address), forced)
        self.meas_log.append((q_address, out, prob))
        return out

    # helpers for the check: state of / for the given virtual qubits (all that are allocated)
    def get_state(self, app_id, virt_ids):
        ps = [self._get_position(app_id=app_id, address=v) for v in virt_ids]
        assert sorted(ps) == sorted(self.phys), (ps, self.phys)
        return np.transpose(self.state, [self.phys.index(p) for p in ps]).reshape(-1)

    def set_state(self, app_id, virt_ids, vec):
        ps = [self._get_position(app_id=app_id, address=v) for v in virt_ids]
        assert sorted(ps) == sorted(self.phys), (ps, self.phys)
        self.phys = ps
        self.state = np.asarray(vec, dtype=complex).reshape((2,) * len(ps))


class SVController(QNodeController):
    @classmethod
    def _get_executor_class(cls, flavour=None):
        return SVExecutor

    def stop(self):
        pass

    def _mark_message_finished(self, msg_id, msg):
        pass


class _NetInfo(NetworkInfo):
    @classmethod
    def _get_node_id(cls, node_name):
        return 0

    @classmethod
    def _get_node_name(cls, node_id):
        return "node"

    @classmethod
    def get_node_id_for_app(cls, app_name):
        return 0

    @classmethod
    def get_node_name_for_app(cls, app_name):
        return app_name


class SVConnection(BaseNetQASMConnection):
    def __init__(self, app_name="app", flavour=None, **kw):
        self.controller = SVController(name=app_name, flavour=flavour)
        super().__init__(app_name, node_name=app_name, **kw)

    @property
    def executor(self):
        return self.controller._executor

    def _commit_serialized_message(self, raw_msg, block=True, callback=None):
        list(self.controller.handle_netqasm_message(0, deserialize_host_msg(raw_msg)))

    def _get_network_info(self):
        return _NetInfo
# ---------------------------------------------------------------------------

from netqasm.lang.instr.flavour import NVFlavour
from netqasm.sdk.build_types import NVHardwareConfig
from netqasm.sdk.qubit import Qubit
from netqasm.sdk.toolbox import parity_meas
from netqasm.sdk.transpile import NVSubroutineTranspiler


def connect(kind, name):
    if kind == "nv":
        return SVConnection(
            name,
            flavour=NVFlavour(),
            compiler=NVSubroutineTranspiler,
            hardware_config=NVHardwareConfig(5),
            max_qubits=5,
        )
    return SVConnection(name)


def loop_program(kind):
    """|000>, then twice the parity -ZZ of the first two qubits: must be 1 both times, state unchanged."""
    conn = connect(kind, f"loop_{kind}")
    qs = [Qubit(conn) for _ in range(3)]
    conn.flush()
    with conn.loop(2):
        m = parity_meas(qs[:2], "-ZZ")
    conn.flush()
    state = conn.executor.get_state(conn.app_id, [q.qubit_id for q in qs])
    return int(m) == 1 and abs(abs(state[0]) - 1) < 1e-9 and len(conn.executor.meas_log) == 2


def branch_program(kind):
    """|000>; flag = Z-parity of q0 (= 0); `if flag == 1: parity_meas([q1, q2], 'ZZ')` is skipped;
    afterwards the parity -Z of q0 must be 1."""
    conn = connect(kind, f"branch_{kind}")
    qs = [Qubit(conn) for _ in range(3)]
    conn.flush()
    flag = parity_meas([qs[0]], "Z")
    with flag.if_eq(1):
        parity_meas([qs[1], qs[2]], "ZZ")
    m = parity_meas([qs[0]], "-Z")
    conn.flush()
    return int(flag) == 0 and int(m) == 1


failures = 0
for name, prog in [("parity_meas in conn.loop(2)", loop_program), ("parity_meas after a skipped branch", branch_program)]:
    for kind in ("vanilla", "nv"):
        try:
            ok = prog(kind)
            print(f"{name:36s} [{kind:7s}]: {'correct' if ok else 'WRONG RESULT'}")
        except Exception as err:  # noqa
            ok = False
            print(f"{name:36s} [{kind:7s}]: {type(err).__name__}: {str(err).splitlines()[0]}")
        failures += not ok

print("expected: every line 'correct'")
sys.exit(1 if failures else 0)
