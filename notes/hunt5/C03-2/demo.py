"""C03 / finding 2: the constant loads of one assembly are inserted into the caller's own list.

`_replace_constants` does `commands.insert(i, set_command)` / `commands[i] = copy` on the list
object the caller gave to ProtoSubroutine.  The scratch register was chosen against the
registers named by THAT program.  When the caller then uses the list as part of a larger
program which names the scratch register, the stale `set R1 5` is an ordinary source
instruction of the new program and overwrites a live register.
"""
import sys

from netqasm.lang.encoding import RegisterName
from netqasm.lang.ir import GenericInstr as G, ICmd, ProtoSubroutine
from netqasm.lang.operand import Register
from netqasm.lang.parsing.text import assemble_subroutine


def R(i):
    return Register(RegisterName.R, i)


def listing(subroutine):
    return [str(instr) for instr in subroutine.instructions]


def run(lines):
    """Straight-line interpreter for `set` / `add` / `ret_reg` listings."""
    regs, returned = {}, {}
    for line in lines:
        mnemonic, *ops = line.split()
        if mnemonic == "set":
            regs[ops[0]] = int(ops[1])
        elif mnemonic == "add":
            regs[ops[0]] = regs.get(ops[1], 0) + regs.get(ops[2], 0)
        elif mnemonic == "ret_reg":
            returned[ops[0]] = regs.get(ops[0], 0)
        else:
            raise ValueError(line)
    return returned


def increment_by_5():
    return [ICmd(G.ADD, operands=[R(0), R(0), 5])]  # R0 += 5


def program(body):
    # R1 = 42 ; R0 = 0 ; R0 += 5 ; R0 += R1 ; return R0, R1        -> R0 = 47, R1 = 42
    return (
        [ICmd(G.SET, operands=[R(1), 42]), ICmd(G.SET, operands=[R(0), 0])]
        + body
        + [ICmd(G.ADD, operands=[R(0), R(0), R(1)]), ICmd(G.RET_REG, operands=[R(0)]), ICmd(G.RET_REG, operands=[R(1)])]
    )


expected = listing(assemble_subroutine(ProtoSubroutine(program(increment_by_5()))))

body = increment_by_5()
before = [str(c) for c in body]
first = listing(assemble_subroutine(ProtoSubroutine(body)))  # the snippet on its own (scratch: R1)
after = [str(c) for c in body]
got = listing(assemble_subroutine(ProtoSubroutine(program(body))))

print("caller's list before the first assembly:", before)
print("caller's list after  the first assembly:", after)
print()
print("expected (fresh objects):", expected, "->", run(expected))
print("got (list reused)       :", got, "->", run(got))

ok = before == after and run(got) == run(expected) == {"R0": 47, "R1": 42}
if not ok:
    print()
    print("VIOLATION: the literal 5 is materialised in R1, a register the source program names and")
    print("holds 42 in; the program returns", run(got), "instead of {'R0': 47, 'R1': 42}")
    sys.exit(1)
print("ok")
