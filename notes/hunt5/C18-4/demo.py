"""C18 finding 4: callback delivery on a broadcast channel loses every message.

BroadcastChannel documents `use_callbacks` ("whether to use the `recv_callback` and
`conn_lost_callback` callback methods") and `recv_callback(remote_app_name, msg)`.
ThreadBroadcastChannel passes use_callbacks on to its ThreadSockets, whose own (no-op)
recv_callback swallows the message: the channel's recv_callback is never called and recv()
never returns the message either.
"""
import sys
import threading

from netqasm.sdk import ThreadBroadcastChannel
from netqasm.sdk.classical_communication import reset_socket_hub

reset_socket_hub()
received = []
lost = []


class Chan(ThreadBroadcastChannel):
    def recv_callback(self, remote_app_name, msg):
        received.append((remote_app_name, msg))

    def conn_lost_callback(self):
        lost.append(True)


box = {}
t = threading.Thread(
    target=lambda: box.update(v=Chan("bob", ["alice"], use_callbacks=True)), daemon=True
)
t.start()
alice = ThreadBroadcastChannel("alice", ["bob"])
t.join()
bob = box.pop("v")

sent = ["m1", "m2", "m3"]
for m in sent:
    alice.send(m)

polled = []
while True:
    try:
        polled.append(bob.recv(block=False))
    except RuntimeError:
        break

expected = [("alice", m) for m in sent]
print("sent by alice:                ", sent)
print("bob.recv_callback got:        ", received)
print("bob.recv(block=False) drained:", polled)
if received != expected:
    print(f"VIOLATION: expected bob's recv_callback to get {expected} (each message once, in order); "
          f"the messages were delivered nowhere")
    sys.exit(1)
print("all good")
