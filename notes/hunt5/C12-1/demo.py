"""C12 finding 1: a request whose subroutine has ended is never served and never retired.

Subroutine A asks for 2 keep pairs and waits for the FIRST pair only (a partial wait,
which is what wait_all on one slice / wait_any / wait_single are for), then ends.
The second pair arrives after A's last instruction.  Subroutine B of the same
application then asks for 1 pair on the same socket and waits for it.

Expected (C12): response 2 fills slice 1 of A's result array and maps A's 2nd virtual
qubit, A is retired after exactly 2 pairs; response 3 fills slice 0 of B's array, maps
B's virtual qubit, B's wait resumes.
"""
import sys

from netqasm.backend.executor import Executor
from netqasm.backend.network_stack import BaseNetworkStack
from netqasm.lang.parsing import parse_text_subroutine
from netqasm.qlink_compat import BellState, LinkLayerOKTypeK, ReturnType
from netqasm.sdk.shared_memory import SharedMemoryManager


class Stack(BaseNetworkStack):
    def put(self, request):
        pass

    def setup_epr_socket(self, epr_socket_id, remote_node_id, remote_epr_socket_id, timeout=1.0):
        yield None

    def get_purpose_id(self, remote_node_id, epr_socket_id):
        return epr_socket_id


class Exec(Executor):
    @property
    def node_id(self):
        return 0

    def _wait_to_handle_epr_responses(self):
        pass  # a simulator comes back later; the demo pokes explicitly

    def _do_wait(self):
        yield "wait"


def K(seq, phys):
    return LinkLayerOKTypeK(
        type=ReturnType.OK_K, create_id=0, logical_qubit_id=phys, directionality_flag=0,
        sequence_number=seq, purpose_id=0, remote_node_id=1, goodness=1, goodness_time=1,
        bell_state=BellState.PHI_PLUS,
    )


def run_until_wait(gen):
    for v in gen:
        if v == "wait":
            return "waiting"
    return "finished"


HEAD = "# NETQASM 1.0\n# APPID 0\n"
SUB_A = HEAD + """
set R9 2
array R9 @0
set R9 0
store R9 @0[0]
set R9 1
store R9 @0[1]
set R9 20
array R9 @1
set R9 0
store R9 @1[0]
set R9 2
store R9 @1[1]
set R9 20
array R9 @2
set R1 1
set R2 0
set R3 0
set R4 1
set R5 2
create_epr R1 R2 R3 R4 R5
wait_all @2[0:10]
ret_arr @2
"""
SUB_B = HEAD + """
set R9 1
array R9 @3
set R9 2
store R9 @3[0]
set R9 20
array R9 @4
set R9 0
store R9 @4[0]
set R9 1
store R9 @4[1]
set R9 10
array R9 @5
set R1 1
set R2 0
set R3 3
set R4 4
set R5 5
create_epr R1 R2 R3 R4 R5
wait_all @5[0:10]
"""

SharedMemoryManager.reset_memories()
ex = Exec(name="node0")
ex.network_stack = Stack()
ex.init_new_application(app_id=0, max_qubits=5)

problems = []

ga = ex.execute_subroutine(parse_text_subroutine(SUB_A))
assert run_until_wait(ga) == "waiting"
ex._handle_epr_response(K(seq=1, phys=10))  # pair 0 of A, in time
assert run_until_wait(ga) == "finished"
print("A finished after its first pair; unit module:", ex._qubit_unit_modules[0])

gb = ex.execute_subroutine(parse_text_subroutine(SUB_B))
assert run_until_wait(gb) == "waiting"

for seq, phys in [(2, 11), (3, 12)]:
    try:
        ex._handle_epr_response(K(seq=seq, phys=phys))
        print(f"response seq={seq}: delivered")
    except Exception as exc:  # the error goes to whoever delivers the response
        print(f"response seq={seq}: delivery raised {type(exc).__name__}: {str(exc).splitlines()[0]}")
        problems.append(f"delivery of response seq={seq} raised {type(exc).__name__}")
ex._handle_pending_epr_responses()

arrays = ex._app_arrays[0]._arrays
um = ex._qubit_unit_modules[0]
queue = [(d.tot_pairs, d.pairs_left) for d in ex._epr_create_requests[1, 0]]
state_b = run_until_wait(gb)

print("A result slice 1 :", arrays[2][10:20], "(expected sequence number 2 at index 4)")
print("B result slice 0 :", arrays[5][0:10], "(expected sequence number 3 at index 4)")
print("unit module      :", um, "(expected [10, 11, 12, None, None])")
print("create queue     :", queue, "(expected [] : both requests retired)")
print("subroutine B     :", state_b, "(expected finished)")

if arrays[2][14] != 2:
    problems.append("pair 1 of request A did not fill slice 1 of A's result array")
if arrays[5][4] != 3:
    problems.append("pair 0 of request B did not fill slice 0 of B's result array")
if um != [10, 11, 12, None, None]:
    problems.append(f"virtual qubits not mapped as requested: {um}")
if queue:
    problems.append(f"requests not retired after their number of pairs: {queue}")
if state_b != "finished":
    problems.append("subroutine B still waits although its pair was delivered")
if ex._pending_epr_responses:
    problems.append("responses left pending")
else:
    print("pending responses: none (so the responses were consumed, by nobody)")

if problems:
    print("\nVIOLATION of C12:")
    for p in problems:
        print(" -", p)
    sys.exit(1)
print("OK")
