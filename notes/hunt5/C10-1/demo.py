"""C10 demo 1: recv_rsp(min_fidelity_all_at_end=..., max_tries=...) re-applies the Pauli
correction of the FIRST pair on every retry of its loop.

Run as:  cd /tmp/hunt5/C10/wt && PYTHONPATH=/tmp/hunt5/C10/wt /venv/bin/python /tmp/hunt5/C10/out/1/demo.py
"""
import sys

# ---------------------------------------------------------------------------------------
# Mini harness (self-contained): an Executor that keeps a tiny quantum state per physical
# qubit, a scripted link layer, and a host connection that runs subroutines synchronously.
# ---------------------------------------------------------------------------------------
import itertools

import numpy as np

from netqasm.backend.executor import Executor
from netqasm.backend.messages import (
    InitNewAppMessage,
    OpenEPRSocketMessage,
    SignalMessage,
    StopAppMessage,
    deserialize_host_msg,
)
from netqasm.backend.network_stack import BaseNetworkStack
from netqasm.lang.instr import core
from netqasm.lang.parsing import deserialize
from netqasm.qlink_compat import (
    Basis,
    BellState,
    LinkLayerOKTypeK,
    LinkLayerOKTypeM,
    ReturnType,
)
from netqasm.sdk.connection import BaseNetQASMConnection, DebugNetworkInfo

S2 = np.sqrt(2)
BELL = {
    BellState.PHI_PLUS: np.array([1, 0, 0, 1], dtype=complex) / S2,
    BellState.PHI_MINUS: np.array([1, 0, 0, -1], dtype=complex) / S2,
    BellState.PSI_PLUS: np.array([0, 1, 1, 0], dtype=complex) / S2,
    BellState.PSI_MINUS: np.array([0, 1, -1, 0], dtype=complex) / S2,
}


class Slot:
    """State of one physical qubit: alone (2-vector) or with its remote partner (4-vector,
    local qubit first). Only single-qubit gates are needed here."""

    def __init__(self, vec, bell=None):
        self.vec = np.array(vec, dtype=complex)
        self.bell = bell

    def apply(self, U):
        U = np.array(U, dtype=complex)
        if len(self.vec) == 4:
            U = np.kron(U, np.eye(2))
        self.vec = U @ self.vec

    def fidelity(self, target):
        return float(abs(np.vdot(np.array(target, dtype=complex), self.vec)) ** 2)


class Stack(BaseNetworkStack):
    def put(self, request):
        pass

    def setup_epr_socket(self, epr_socket_id, remote_node_id, remote_epr_socket_id, timeout=1):
        pass

    def get_purpose_id(self, remote_node_id, epr_socket_id):
        return epr_socket_id


class MiniExecutor(Executor):
    def __init__(self, name, node_id=0):
        super().__init__(name=name)
        self._nid = node_id
        self.network_stack = Stack()
        self.slots = {}  # physical address -> Slot
        self.link = []  # scripted link layer: responses delivered when the program waits
        self.accepted = []  # Slots of the pairs handed to the application, in order
        self._phys = itertools.count(100)

    @property
    def node_id(self):
        return self._nid

    def _slot(self, subroutine_id, address):
        return self.slots[self._get_position(subroutine_id=subroutine_id, address=address)]

    def _reserve_physical_qubit(self, physical_address):
        self.slots.setdefault(physical_address, Slot([1, 0]))

    def _clear_phys_qubit_in_memory(self, physical_address):
        self.slots.pop(physical_address, None)

    def _do_single_qubit_instr(self, instr, subroutine_id, address):
        if isinstance(instr, core.InitInstruction):
            self._slot(subroutine_id, address).vec = np.array([1, 0], dtype=complex)
        else:
            self._slot(subroutine_id, address).apply(instr.to_matrix())

    def _do_single_qubit_rotation(self, instr, subroutine_id, address, angle):
        self._slot(subroutine_id, address).apply(instr.to_matrix())

    def _wait_to_handle_epr_responses(self):
        pass

    def _do_wait(self):
        if not self.link:
            raise RuntimeError("deadlock: the program waits, the link has nothing to deliver")
        self.link.pop(0)()

    def _instr_qfree(self, subroutine_id, instr):
        yield from super()._instr_qfree(subroutine_id, instr)
        self._handle_pending_epr_responses()

    # -- scripted link layer (this node is the receiver: directionality_flag=1)
    def script_keep(self, bell, goodness=0, purpose_id=0, remote_node_id=1):
        def deliver():
            phys = next(self._phys)
            slot = Slot(BELL[bell], bell)
            self.slots[phys] = slot
            self.accepted.append(slot)
            self._handle_epr_response(
                LinkLayerOKTypeK(ReturnType.OK_K, 0, phys, 1, 0, purpose_id, remote_node_id, goodness, 0, bell)
            )

        self.link.append(deliver)

    def script_measure(self, bell, outcome, basis=Basis.Z, creator=False, purpose_id=0, remote_node_id=1):
        def deliver():
            self._handle_epr_response(
                LinkLayerOKTypeM(
                    ReturnType.OK_M, 0, outcome, basis, 0 if creator else 1, 0, purpose_id, remote_node_id, 0, bell
                )
            )

        self.link.append(deliver)


class MiniConnection(BaseNetQASMConnection):
    node_ids = {"Alice": 0, "Bob": 1}

    def __init__(self, app_name, executor, **kwargs):
        self.executor = executor
        self.subroutines = []
        super().__init__(app_name, node_name=executor.name, **kwargs)

    def _get_network_info(self):
        return _Info

    def _commit_serialized_message(self, raw_msg, block=True, callback=None):
        msg = deserialize_host_msg(raw_msg)
        ex = self.executor
        if isinstance(msg, InitNewAppMessage):
            ex.init_new_application(app_id=msg.app_id, max_qubits=msg.max_qubits)
        elif isinstance(msg, StopAppMessage):
            list(ex.stop_application(app_id=msg.app_id))
        elif isinstance(msg, (OpenEPRSocketMessage, SignalMessage)):
            pass
        else:
            sub = deserialize(msg.subroutine)
            self.subroutines.append(sub)
            list(ex.execute_subroutine(sub))


class _Info(DebugNetworkInfo):
    @classmethod
    def _get_node_id(cls, node_name):
        return MiniConnection.node_ids[node_name]

    @classmethod
    def get_node_id_for_app(cls, app_name):
        return MiniConnection.node_ids[app_name]

    @classmethod
    def get_node_name_for_app(cls, app_name):
        return app_name


_names = itertools.count()


def new_node(node_id=0):
    return MiniExecutor(f"demo-node-{next(_names)}", node_id=node_id)


# ---------------------------------------------------------------------------------------
from netqasm.sdk.epr_socket import EPRSocket


def run(first_bell, max_tries):
    """One receive-RSP request for one pair with a fidelity constraint. The link first
    delivers a pair that took too long (so the SDK's loop tries again), and has a second,
    fast pair ready for the retry."""
    ex = new_node()
    sock = EPRSocket("Bob")
    with MiniConnection("Alice", ex, epr_sockets=[sock]) as conn:
        ex.script_keep(first_bell, goodness=90_000)  # too slow for min fidelity 80 (max 28000)
        ex.script_keep(BellState.PHI_MINUS, goodness=100)  # fast: would satisfy the constraint
        (q,) = sock.recv_rsp(number=1, min_fidelity_all_at_end=80, max_tries=max_tries)
        conn.flush()
        phys = ex._get_position(app_id=conn.app_id, address=q.qubit_id)
        slot = ex.slots[phys]
        fid = slot.fidelity(BELL[BellState.PHI_PLUS])
        left = len(ex.link)
        q.free()
    return slot.bell, fid, left


failures = 0
for first_bell in (BellState.PSI_PLUS, BellState.PSI_MINUS, BellState.PHI_MINUS):
    for max_tries in (2, 3, 4):
        bell, fid, left = run(first_bell, max_tries)
        ok = fid > 0.999
        failures += not ok
        print(
            f"first pair {first_bell.name:9s} max_tries={max_tries}: kept qubit holds a pair delivered as "
            f"{bell.name}; fidelity with Phi+ = {fid:.3f} (expected 1.000); pairs never fetched from the link: {left}"
            f"  -> {'ok' if ok else 'VIOLATION'}"
        )

if failures:
    print(
        f"\n{failures} case(s): the receiver asked for Phi+ (default) but the kept qubit is not in Phi+ with its "
        "partner: on each retry the loop runs the correction block again on the stale Bell state of the pair it "
        "still holds (no undefine of the results array, no free of the qubit), so an even number of tries "
        "cancels the correction."
    )
    sys.exit(1)
print("all kept qubits are in Phi+")
