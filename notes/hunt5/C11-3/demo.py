"""C11 / finding 3: a create call that is refused inside the min_fidelity_all_at_end retry loop throws away
every operation that was still pending - including create requests that had been accepted before.  Those
requests never reach the network stack and their result handles never get a value.

Run:  cd /tmp/hunt5/C11/wt && PYTHONPATH=/tmp/hunt5/C11/wt /venv/bin/python /tmp/hunt5/C11/out/3/demo.py
"""
import sys

from netqasm.backend.executor import Executor
from netqasm.backend.messages import deserialize_host_msg
from netqasm.backend.network_stack import BaseNetworkStack
from netqasm.backend.qnodeos import QNodeController
from netqasm.qlink_compat import (
    Basis,
    BellState,
    LinkLayerOKTypeK,
    LinkLayerOKTypeM,
    RequestType,
    ReturnType,
)
from netqasm.qlink_compat import TimeUnit
from netqasm.sdk.build_epr import EprMeasBasis
from netqasm.sdk.connection import BaseNetQASMConnection
from netqasm.sdk.epr_socket import EPRSocket
from netqasm.sdk.network import NetworkInfo

NODE_IDS = {"alice": 0, "bob": 1}


# ---------------------------------------------------------------- minimal backend
class Stack(BaseNetworkStack):
    def __init__(self):
        self.requests = []
        self.answered = 0

    def put(self, request):
        self.requests.append(request)

    def setup_epr_socket(self, epr_socket_id, remote_node_id, remote_epr_socket_id, timeout=1.0):
        return None

    def get_purpose_id(self, remote_node_id, epr_socket_id):
        return epr_socket_id

    def deliver(self, executor):
        """Answer every request that has not been answered yet, pair by pair."""
        while self.answered < len(self.requests):
            req = self.requests[self.answered]
            self.answered += 1
            for i in range(req.number):
                if req.type == RequestType.K:
                    executor._handle_epr_response(
                        LinkLayerOKTypeK(
                            type=ReturnType.OK_K,
                            create_id=self.answered,
                            logical_qubit_id=i,
                            directionality_flag=0,
                            sequence_number=i,
                            purpose_id=req.purpose_id,
                            remote_node_id=req.remote_node_id,
                            goodness=70 + i,
                            goodness_time=0,
                            bell_state=BellState.PHI_PLUS,
                        )
                    )
                    continue
                executor._handle_epr_response(
                    LinkLayerOKTypeM(
                        type=ReturnType.OK_M,
                        create_id=self.answered,
                        measurement_outcome=(i + 1) % 2,
                        measurement_basis=Basis.Z,
                        directionality_flag=0,
                        sequence_number=i,
                        purpose_id=req.purpose_id,
                        remote_node_id=req.remote_node_id,
                        goodness=70 + i,
                        bell_state=BellState.PHI_PLUS,
                    )
                )


class Exec(Executor):
    node_id = 0

    def _wait_to_handle_epr_responses(self):
        return None

    def _do_wait(self):
        yield "waiting"


class Controller(QNodeController):
    @classmethod
    def _get_executor_class(cls, flavour=None):
        return Exec

    def stop(self):
        pass

    def _mark_message_finished(self, msg_id, msg):
        pass


class Info(NetworkInfo):
    @classmethod
    def _get_node_id(cls, node_name):
        return NODE_IDS[node_name]

    @classmethod
    def _get_node_name(cls, node_id):
        return {v: k for k, v in NODE_IDS.items()}[node_id]

    @classmethod
    def get_node_id_for_app(cls, app_name):
        return NODE_IDS[app_name]

    @classmethod
    def get_node_name_for_app(cls, app_name):
        return app_name


class Conn(BaseNetQASMConnection):
    def __init__(self, app_name, controller, **kw):
        self.controller = controller
        super().__init__(app_name=app_name, node_name=controller.name, **kw)

    def _get_network_info(self):
        return Info

    def _commit_serialized_message(self, raw_msg, block=True, callback=None):
        executor = self.controller._executor
        waits = 0
        for _ in self.controller.handle_netqasm_message(0, deserialize_host_msg(raw_msg)):
            # the subroutine waits: let the link layer answer
            self.controller.network_stack.deliver(executor)
            executor._handle_pending_epr_responses()
            waits += 1
            if waits > 100:
                raise TimeoutError("the subroutine keeps waiting")


# ---------------------------------------------------------------- the history
ctrl = Controller("alice")
stack = Stack()
ctrl.network_stack = stack
sock = EPRSocket("bob", epr_socket_id=3, remote_epr_socket_id=3)
problems = []

with Conn("alice", ctrl, epr_sockets=[sock], max_qubits=5) as conn:
    # 1. a valid request: accepted, result handles returned, not flushed yet
    first = sock.create_measure(
        number=2,
        time_unit=TimeUnit.MILLI_SECONDS,
        max_time=9,
        basis_local=EprMeasBasis.X,
        basis_remote=EprMeasBasis.X,
    )

    # 2. a request that is refused (6 pairs do not fit into 5 qubits)
    try:
        sock.create_keep(number=6, min_fidelity_all_at_end=80, max_tries=3)
        problems.append("the over-sized request was not refused")
    except (ValueError, AssertionError) as exc:
        print(f"refused as expected: {type(exc).__name__}({exc})")

    # 3. another valid request, then flush
    second = sock.create_measure(number=1)
    conn.flush()

    got_requests = [(r.type.name, r.number, r.time_unit, r.max_time, r.rotation_Y_local) for r in stack.requests]
    want_requests = [("M", 2, TimeUnit.MILLI_SECONDS.value, 9, 24), ("M", 1, 0, 0, 0)]
    print("requests the network stack received (type, number, time unit, max time, rotation Y local)")
    print("  expected:", want_requests)
    print("  got     :", got_requests)
    if got_requests != want_requests:
        problems.append("the first (accepted) create_measure request never reached the network stack")

    got = [(r.raw_measurement_outcome.value, r.generation_duration.value) for r in first]
    want = [(1, 70), (0, 71)]
    print("result handles of the first request (outcome, duration)")
    print("  expected:", want)
    print("  got     :", got)
    if got != want:
        problems.append("the result handles of the first request never get a value")
    got2 = [(r.raw_measurement_outcome.value, r.generation_duration.value) for r in second]
    if got2 != [(1, 70)]:
        problems.append(f"the handles of the request after the refusal read {got2}")

if problems:
    print("VIOLATION:")
    for p in problems:
        print(" -", p)
    sys.exit(1)
print("ok")
