# ---------------------------------------------------------------------------------------
# Mini harness: an SDK connection wired directly to a netqasm Executor whose quantum
# instruction hooks check that every addressed virtual qubit is allocated, plus a fake
# link layer that delivers one EPR pair whenever the subroutine waits for one.
# ---------------------------------------------------------------------------------------
import logging
import sys

from netqasm.backend.executor import Executor
from netqasm.backend.messages import (
    InitNewAppMessage,
    OpenEPRSocketMessage,
    StopAppMessage,
    SubroutineMessage,
    deserialize_host_msg,
)
from netqasm.backend.network_stack import BaseNetworkStack
from netqasm.lang.instr.flavour import NVFlavour, VanillaFlavour
from netqasm.lang.parsing import deserialize
from netqasm.qlink_compat import LinkLayerOKTypeK, LinkLayerOKTypeM, RequestType
from netqasm.sdk.build_types import NVHardwareConfig
from netqasm.sdk.connection import BaseNetQASMConnection, DebugConnection, DebugNetworkInfo
from netqasm.sdk.epr_socket import EPRSocket
from netqasm.sdk.qubit import Qubit
from netqasm.sdk.shared_memory import SharedMemoryManager
from netqasm.sdk.transpile import NVSubroutineTranspiler

logging.disable(logging.CRITICAL)


class Deadlock(RuntimeError):
    pass


class _Stack(BaseNetworkStack):
    def __init__(self):
        self.requests = []

    def put(self, request):
        self.requests.append(request)

    def setup_epr_socket(self, epr_socket_id, remote_node_id, remote_epr_socket_id, timeout=1.0):
        return None

    def get_purpose_id(self, remote_node_id, epr_socket_id):
        return epr_socket_id


class CheckExecutor(Executor):
    """The stock Executor; the (empty) quantum hooks look the addressed qubits up."""

    def __init__(self, *args, **kwargs):
        super().__init__(*args, **kwargs)
        self.network_stack = _Stack()
        self._to_deliver = []
        self._waits = 0

    @property
    def node_id(self):
        return 0

    def _chk(self, subroutine_id, *addresses):
        for a in addresses:  # raises NotAllocatedError for an unallocated virtual qubit
            self._get_position(subroutine_id=subroutine_id, address=a)

    def _do_single_qubit_instr(self, instr, subroutine_id, address):
        self._chk(subroutine_id, address)

    def _do_single_qubit_rotation(self, instr, subroutine_id, address, angle):
        self._chk(subroutine_id, address)

    def _do_controlled_qubit_rotation(self, instr, subroutine_id, address1, address2, angle):
        self._chk(subroutine_id, address1, address2)

    def _do_two_qubit_instr(self, instr, subroutine_id, address1, address2):
        self._chk(subroutine_id, address1, address2)

    def _do_meas(self, subroutine_id, q_address):
        self._chk(subroutine_id, q_address)
        return 0

    # fake link layer -------------------------------------------------------------
    def _do_create_epr(self, subroutine_id, remote_node_id, epr_socket_id, q_array_address,
                       arg_array_address, ent_results_array_address):
        super()._do_create_epr(subroutine_id, remote_node_id, epr_socket_id, q_array_address,
                               arg_array_address, ent_results_array_address)
        req = self.network_stack.requests[-1]
        self._to_deliver.append(dict(creator=True, remote=remote_node_id, purpose=req.purpose_id,
                                     left=req.number, tp=req.type))

    def _do_recv_epr(self, subroutine_id, remote_node_id, epr_socket_id, q_array_address,
                     ent_results_array_address):
        super()._do_recv_epr(subroutine_id, remote_node_id, epr_socket_id, q_array_address,
                             ent_results_array_address)
        data = self._epr_recv_requests[remote_node_id, epr_socket_id][-1]
        tp = RequestType.K if data.virtual_qubit_ids is not None else RequestType.M
        self._to_deliver.append(dict(creator=False, remote=remote_node_id, purpose=epr_socket_id,
                                     left=data.tot_pairs, tp=tp))

    def _wait_to_handle_epr_responses(self):
        return  # a pair that cannot be placed yet stays pending; it is retried on the next wait

    def _do_wait(self):
        self._waits += 1
        if self._waits > 100:
            raise Deadlock("the subroutine waits forever: the EPR pair can never be delivered")
        if self._pending_epr_responses:
            n = len(self._pending_epr_responses)
            self._handle_pending_epr_responses()
            if len(self._pending_epr_responses) < n:
                self._waits = 0
            return
        if not self._to_deliver:
            return
        d = self._to_deliver[0]
        d["left"] -= 1
        if d["left"] == 0:
            self._to_deliver.pop(0)
        flag = 0 if d["creator"] else 1
        if d["tp"] == RequestType.K:
            phys = 0
            while phys in self._used_physical_qubit_addresses:
                phys += 1
            resp = LinkLayerOKTypeK(logical_qubit_id=phys, directionality_flag=flag,
                                    purpose_id=d["purpose"], remote_node_id=d["remote"])
        else:
            resp = LinkLayerOKTypeM(directionality_flag=flag, purpose_id=d["purpose"],
                                    remote_node_id=d["remote"])
        n = len(self._pending_epr_responses)
        self._handle_epr_response(resp)
        if len(self._pending_epr_responses) <= n:
            self._waits = 0

    def allocated(self, app_id):
        unit_module = self._qubit_unit_modules[app_id]
        return sorted(i for i, p in enumerate(unit_module) if p is not None)


class Conn(BaseNetQASMConnection):
    def __init__(self, **kwargs):
        SharedMemoryManager.reset_memories()
        BaseNetQASMConnection._app_ids.clear()
        DebugConnection.node_ids.update({"alice": 0, "bob": 1})
        self.executor = CheckExecutor(name="alice")
        nv_flavour = kwargs.get("compiler") is NVSubroutineTranspiler
        self.flavour = NVFlavour() if nv_flavour else VanillaFlavour()
        super().__init__(app_name="alice", node_name="alice", **kwargs)

    def _get_network_info(self):
        return DebugNetworkInfo

    def _commit_serialized_message(self, raw_msg, block=True, callback=None):
        msg = deserialize_host_msg(raw_msg)
        if isinstance(msg, InitNewAppMessage):
            self.executor.init_new_application(app_id=msg.app_id, max_qubits=msg.max_qubits)
        elif isinstance(msg, OpenEPRSocketMessage):
            list(self.executor.setup_epr_socket(msg.epr_socket_id, msg.remote_node_id,
                                                msg.remote_epr_socket_id))
        elif isinstance(msg, SubroutineMessage):
            self.executor._waits = 0
            list(self.executor.execute_subroutine(deserialize(msg.subroutine, flavour=self.flavour)))
        elif isinstance(msg, StopAppMessage):
            list(self.executor.stop_application(msg.app_id))

    def controller_ids(self):
        return self.executor.allocated(self.app_id)

    def sdk_handles(self):
        return [f"{type(q).__name__}(id={q.qubit_id if type(q) is Qubit else 'Future'})"
                for q in self.active_qubits]


PROBLEMS = []


def problem(text):
    PROBLEMS.append(text)
    print("VIOLATION:", text)


def first_line(exc):
    return f"{type(exc).__name__}: {(str(exc).splitlines() or [''])[0]}"


def finish():
    if PROBLEMS:
        print(f"\n{len(PROBLEMS)} violation(s) of C09")
        sys.exit(1)
    print("\nno violation")
    sys.exit(0)


# ---------------------------------------------------------------------------------------
"""C09 demo 4 - NV transpiler: a gate between two memory qubits goes through virtual ID 0,
which the SDK deliberately keeps unallocated.

NVSubroutineTranspiler maps cnot / cphase between two carbons (IDs != 0) to
"swap electron<->carbon, electron-carbon gate, swap back" and addresses the electron as
virtual ID 0 without allocating it.  The SDK, on the other hand, relocates qubits away from
ID 0 "to keep it free for entanglement and measurement", and ID 0 is also simply free after
its qubit was measured.  Expected (C09): with at most budget-1 qubits alive every emitted
subroutine executes without addressing an unallocated virtual qubit, with and without the
NV transpiler.
"""


def try_program(title, program):
    try:
        program()
        print(f"{title}: executed")
    except Exception as exc:
        problem(f"{title}: expected to execute, got {first_line(exc)}")


def relocated_by_sdk(compiler):
    def program():
        kwargs = {"compiler": compiler} if compiler else {}
        conn = Conn(max_qubits=4, hardware_config=NVHardwareConfig(4), **kwargs)
        a = Qubit(conn)  # ID 0
        b = Qubit(conn)  # ID 1
        b.measure(inplace=True)  # the SDK moves `a` from ID 0 to ID 2; ID 0 is free now
        print(f"   IDs: a={a.qubit_id} b={b.qubit_id}")
        a.cnot(b)  # two of four qubits alive
        conn.flush()
        print(f"   controller allocated {conn.controller_ids()}")

    return program


def id0_measured_two_flushes_ago():
    conn = Conn(max_qubits=4, hardware_config=NVHardwareConfig(4), compiler=NVSubroutineTranspiler)
    q0, q1, q2 = Qubit(conn), Qubit(conn), Qubit(conn)  # IDs 0, 1, 2 (budget - 1 alive)
    q1.cphase(q2)  # fine: ID 0 is allocated (q0), its state is swapped out and back
    conn.flush()
    q0.measure()  # ID 0 is given back
    conn.flush()
    q1.cphase(q2)  # the same gate on the same handles
    conn.flush()


try_program("control: a.cnot(b) after the SDK relocated `a`, NV config without transpiler", relocated_by_sdk(None))
try_program("A  the same with compiler=NVSubroutineTranspiler", relocated_by_sdk(NVSubroutineTranspiler))
try_program("B  q1.cphase(q2) works, q0.measure(), flush, q1.cphase(q2) again", id0_measured_two_flushes_ago)

finish()
