"""C06 - a pre-compiled templated subroutine can only be filled in ONCE.

The point of pre-compiling is to compile once and then fill in / send the subroutine
whenever a value arrives.  The second `instantiate()` of the Subroutine that `compile()`
returned is silently ignored: the controller gets the values of the FIRST instantiation
again.  The same happens when the first instantiation was refused (value out of range)
and the caller then fills in a valid value.
"""
import sys

from netqasm.backend.messages import SubroutineMessage, deserialize_host_msg
from netqasm.lang.operand import Template
from netqasm.lang.parsing.binary import deserialize
from netqasm.sdk.connection import DebugConnection
from netqasm.sdk.qubit import Qubit


def sent(conn):
    """What the controller received: the text of every subroutine message"""
    out = []
    for raw in conn.storage:
        msg = deserialize_host_msg(raw)
        if isinstance(msg, SubroutineMessage):
            subrt = deserialize(msg.subroutine)
            out.append([str(i) for i in subrt.instructions])
    return out


failures = 0

# ---------------------------------------------------------------- scenario A
# reference: the operations written with the values, flushed
ref = DebugConnection("ref_a")
q = Qubit(ref)
ref.flush()
for value in (3, 5):
    q.rot_Z(n=value, d=4)
    ref.flush()

# same operations, pre-compiled once with a template operand, filled in twice
pre = DebugConnection("pre_a")
q = Qubit(pre)
pre.flush()
q.rot_Z(n=Template("angle"), d=4)
subrt = pre.compile()
for value in (3, 5):
    subrt.instantiate(pre.app_id, arguments={"angle": value})
    pre.commit_subroutine(subrt)

print("A: compile once; instantiate(angle=3), commit; instantiate(angle=5), commit")
print("   expected (flushes):", sent(ref)[1:])
print("   happened          :", sent(pre)[1:])
if pre.storage != ref.storage:
    print("   -> VIOLATION: the second commit carries the first value again")
    failures += 1

# ---------------------------------------------------------------- scenario B
# a refused value (256 does not fit the immediate), then a valid one
ref = DebugConnection("ref_b")
q = Qubit(ref)
ref.flush()
q.rot_X(n=7, d=4)
ref.flush()

pre = DebugConnection("pre_b")
q = Qubit(pre)
pre.flush()
q.rot_X(n=Template("angle"), d=4)
subrt = pre.compile()
try:
    subrt.instantiate(pre.app_id, arguments={"angle": 256})
    pre.commit_subroutine(subrt)
    print("B: (value 256 was not refused)")
except Exception as exc:
    print(f"B: value 256 refused, as it should be: {type(exc).__name__}: {exc}")
try:
    subrt.instantiate(pre.app_id, arguments={"angle": 7})
    pre.commit_subroutine(subrt)
    happened = sent(pre)[1:]
except Exception as exc:
    happened = f"{type(exc).__name__}: {exc}"
print("   then instantiate(angle=7), commit")
print("   expected (flush):", sent(ref)[1:])
print("   happened        :", happened)
if pre.storage != ref.storage:
    print("   -> VIOLATION: the valid value is ignored, the refused one is still in the subroutine")
    failures += 1

sys.exit(1 if failures else 0)
