"""C03 / finding 1: resolving labels is written back into the IR the caller handed in.

After one assembly the caller's ICmd objects / ProtoSubroutine no longer say `jmp LOOP` but
`jmp <absolute index of that one assembly>`.  Any later assembly that places the same commands
at another position (or with another number of inserted constant loads) silently branches to
the wrong instruction.
"""
import copy
import sys

from netqasm.lang.encoding import RegisterName
from netqasm.lang.ir import BranchLabel, GenericInstr as G, ICmd, ProtoSubroutine
from netqasm.lang.operand import Label, Register
from netqasm.lang.parsing.text import assemble_subroutine, parse_text_protosubroutine


def R(i):
    return Register(RegisterName.R, i)


def listing(subroutine):
    return [str(instr) for instr in subroutine.instructions]


failures = 0


def check(title, expected, got):
    global failures
    ok = expected == got
    print(f"--- {title}: {'ok' if ok else 'VIOLATION'}")
    if not ok:
        failures += 1
        print("  expected (same program, assembled from fresh objects):")
        for i, line in enumerate(expected):
            print(f"    {i:2} {line}")
        print("  got (same program, objects that went through an earlier assembly):")
        for i, line in enumerate(got):
            print(f"    {i:2} {line}")


# ---------------------------------------------------------------------------------------------
# (a) A refused attempt followed by a valid one, on the same ProtoSubroutine.
#     `replace_constants=False` is refused for this program (it has a literal in a register
#     position) - but only after the labels were already resolved inside `proto`.
TEXT = """
# NETQASM 1.0
# APPID 0
set R0 0
LOOP:
beq R0 3 EXIT
add R0 R0 1
jmp LOOP
EXIT:
ret_reg R0
"""
expected = listing(assemble_subroutine(parse_text_protosubroutine(TEXT)))

proto = parse_text_protosubroutine(TEXT)
try:
    assemble_subroutine(proto, replace_constants=False)
except AssertionError:
    pass  # loud refusal: fine.  Now do it properly:
got = listing(assemble_subroutine(proto))
check("(a) valid assembly after a refused one", expected, got)
# expected: beq R0 R1 6 (the ret_reg) ; got: beq R0 R1 4 (the index EXIT had before the constant
# loads were inserted: lands on `add`, ret_reg is never reached)


# ---------------------------------------------------------------------------------------------
# (b) The same IR commands used in two programs (no literals to load, so
#     `replace_constants=False` is a legitimate choice).
def snippet():
    return [
        BranchLabel("TOP"),
        ICmd(G.ADD, operands=[R(0), R(0), R(1)]),
        ICmd(G.BLT, operands=[R(0), R(2), Label("TOP")]),
    ]


def program_2(body):
    return (
        [ICmd(G.SET, operands=[R(0), 0]), ICmd(G.SET, operands=[R(1), 1]), ICmd(G.SET, operands=[R(2), 5])]
        + body
        + [ICmd(G.RET_REG, operands=[R(0)])]
    )


expected = listing(assemble_subroutine(ProtoSubroutine(program_2(snippet())), replace_constants=False))

body = snippet()
assemble_subroutine(ProtoSubroutine(list(body)), replace_constants=False)  # program 1: the snippet on its own
got = listing(assemble_subroutine(ProtoSubroutine(program_2(body)), replace_constants=False))
check("(b) IR commands reused in a second program", expected, got)
# expected: blt R0 R2 3 (the add) ; got: blt R0 R2 0 (restarts at `set R0 0`: endless loop)


# ---------------------------------------------------------------------------------------------
# (c) Default options only: a body is assembled once on its own (e.g. to print it) and its
#     commands are then put behind a prologue.
BODY = """
# NETQASM 1.0
# APPID 0
TOP:
add R0 R0 R1
blt R0 R2 TOP
ret_reg R0
"""
prologue = "set R0 0\nset R1 1\nset R2 5\n"
expected = listing(
    assemble_subroutine(parse_text_protosubroutine(BODY.replace("TOP:", prologue + "TOP:")))
)

body_proto = parse_text_protosubroutine(BODY)
assemble_subroutine(body_proto)
prologue_cmds = parse_text_protosubroutine("# NETQASM 1.0\n# APPID 0\n" + prologue).commands
got = listing(assemble_subroutine(ProtoSubroutine(prologue_cmds + body_proto.commands)))
check("(c) commands of an assembled ProtoSubroutine behind a prologue", expected, got)

print()
if failures:
    print(f"{failures} of 3 histories give a subroutine whose branches do not land on the labelled instruction")
    sys.exit(1)
print("all histories give the same subroutine as fresh objects")
