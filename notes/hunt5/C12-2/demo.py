"""C12 finding 2: stop_application leaves the application's EPR requests in the controller.

Run 1 of application 0 posts a receive request (keep, 1 pair, virtual qubit 1) and waits.
The remote never creates; the host gives up and stops the application.  (A receive request
is pure controller bookkeeping: nothing was sent to the link layer for it.)

Run 2: application 0 is registered again and runs the same kind of program, this time
asking for the pair in virtual qubit 3.  Now the remote creates a pair.

Expected (C12): the response is consumed by the oldest OUTSTANDING request, i.e. run 2's:
virtual qubit 3 is mapped, the result array is filled, the request is retired after 1 pair.
"""
import sys

from netqasm.backend.executor import Executor
from netqasm.backend.network_stack import BaseNetworkStack
from netqasm.lang.parsing import parse_text_subroutine
from netqasm.qlink_compat import BellState, LinkLayerOKTypeK, ReturnType
from netqasm.sdk.shared_memory import SharedMemoryManager


class Stack(BaseNetworkStack):
    def put(self, request):
        pass

    def setup_epr_socket(self, epr_socket_id, remote_node_id, remote_epr_socket_id, timeout=1.0):
        yield None

    def get_purpose_id(self, remote_node_id, epr_socket_id):
        return epr_socket_id


class Exec(Executor):
    @property
    def node_id(self):
        return 0

    def _wait_to_handle_epr_responses(self):
        pass

    def _do_wait(self):
        yield "wait"


def K(seq, phys):
    # directionality_flag=1: the remote node is the creator, we are the receiver
    return LinkLayerOKTypeK(
        type=ReturnType.OK_K, create_id=0, logical_qubit_id=phys, directionality_flag=1,
        sequence_number=seq, purpose_id=0, remote_node_id=1, goodness=1, goodness_time=1,
        bell_state=BellState.PHI_PLUS,
    )


def run_until_wait(gen):
    for v in gen:
        if v == "wait":
            return "waiting"
    return "finished"


def program(virtual_qubit):
    return parse_text_subroutine(f"""# NETQASM 1.0
# APPID 0
set R9 1
array R9 @0
set R9 {virtual_qubit}
store R9 @0[0]
set R9 10
array R9 @2
set R1 1
set R2 0
set R3 0
set R5 2
recv_epr R1 R2 R3 R5
wait_all @2[0:10]
""")


SharedMemoryManager.reset_memories()
ex = Exec(name="node0")
ex.network_stack = Stack()

# run 1
ex.init_new_application(app_id=0, max_qubits=5)
g1 = ex.execute_subroutine(program(virtual_qubit=1))
assert run_until_wait(g1) == "waiting"
list(ex.stop_application(app_id=0))  # host gives up
left = [(d.subroutine_id, d.pairs_left) for d in ex._epr_recv_requests[1, 0]]
print("receive queue after stop_application:", left, "(expected [])")

# run 2
ex.init_new_application(app_id=0, max_qubits=5)
g2 = ex.execute_subroutine(program(virtual_qubit=3))
assert run_until_wait(g2) == "waiting"
try:
    ex._handle_epr_response(K(seq=7, phys=10))
except Exception as exc:
    print("delivery raised", type(exc).__name__, str(exc).splitlines()[0])
state = run_until_wait(g2)

um = ex._qubit_unit_modules[0]
queue = [(d.subroutine_id, d.tot_pairs, d.pairs_left) for d in ex._epr_recv_requests[1, 0]]
print("run 2 wait_all           :", state, "(expected finished)")
print("run 2 result array       :", ex._app_arrays[0]._arrays[2])
print("run 2 unit module        :", um, "(expected [None, None, None, 10, None])")
print("receive queue            :", queue, "(expected []: the request of run 2 retired after 1 pair)")

problems = []
if left:
    problems.append("request of the stopped application is still queued")
if um[3] != 10:
    problems.append("the pair was not mapped to run 2's virtual qubit 3")
if um[1] is not None:
    problems.append("the pair was mapped to virtual qubit 1, which run 2 never asked for "
                    "(taken from the request of the stopped run)")
if queue:
    problems.append(f"run 2's request is still outstanding after its pair was consumed: {queue} "
                    "- it will take the first response meant for a later request")
if state == "finished" and um[3] is None:
    problems.append("run 2's wait_all resumed although its qubit was never delivered (silent)")

if problems:
    print("\nVIOLATION of C12:")
    for p in problems:
        print(" -", p)
    sys.exit(1)
print("OK")
