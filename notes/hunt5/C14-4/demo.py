"""C14 demo 4: the CALLBACK forms of loops (conn.loop_body, and the post_routine of sequential
create_keep / recv_keep) reserve their registers and then call the user's function with no
try/finally.  The context-manager forms of the very same operations release their register when
the body raises; the callback forms keep 1 (loop_body) or 3 (EPR post_routine) registers for
the rest of the connection's life.  Flushes do not give them back.
"""
import sys

from netqasm.logging.glob import set_log_level
from netqasm.sdk.connection import DebugConnection
from netqasm.sdk.epr_socket import EPRSocket
from netqasm.sdk.qubit import Qubit, QubitNotActiveError

set_log_level("ERROR")
DebugConnection.node_ids = {"alice": 0, "bob": 1}


def reserved(conn):
    return sorted(str(r) for r in conn.builder._mem_mgr._active_registers)


def bad_body(conn):
    """A loop body with an ordinary, loudly refused mistake: a gate on a measured qubit."""
    q = Qubit(conn)
    q.measure()
    q.H()  # -> QubitNotActiveError


def ctx_loop(conn, sock):  # context-manager form (reference behaviour)
    with conn.loop(3):
        bad_body(conn)


def ctx_foreach(conn, sock):  # context-manager form (reference behaviour)
    arr = conn.new_array(2, [0, 1])
    with arr.foreach():
        bad_body(conn)


def cb_loop(conn, sock):  # callback form
    conn.loop_body(lambda c, i: bad_body(c), 3)


def cb_create(conn, sock):  # callback form
    def post(c, q, pair):
        q.measure()
        bad_body(conn)

    sock.create_keep(number=3, post_routine=post, sequential=True)


def cb_recv(conn, sock):  # callback form
    def post(c, q, pair):
        q.measure()
        bad_body(conn)

    sock.recv_keep(number=3, post_routine=post, sequential=True)


def valid_tail(conn, sock):
    """Valid operations only; must compile whenever nothing is open."""
    out = conn.new_array(3)

    def body(c, i):
        q = Qubit(c)
        q.measure(future=out.get_future_index(i))

    conn.loop_body(body, 3)

    def post(c, q, pair):
        q.measure(future=out.get_future_index(pair))

    sock.create_keep(number=3, post_routine=post, sequential=True)
    conn.flush()


bad = 0
for refused in (ctx_loop, ctx_foreach, cb_loop, cb_create, cb_recv):
    sock = EPRSocket("bob")
    conn = DebugConnection("alice", epr_sockets=[sock])
    valid_tail(conn, sock)  # fine on the fresh connection
    n = 0
    for i in range(16):
        try:
            refused(conn, sock)
        except QubitNotActiveError:
            n += 1
        except RuntimeError:  # register pool already empty
            break
        conn.builder.inactivate_qubits()  # the application drops the qubit handles of the failed op
        if i % 4 == 3:
            conn.flush()
    left = reserved(conn)
    try:
        valid_tail(conn, sock)
        outcome = "valid program still compiles"
    except Exception as exc:  # noqa
        outcome = f"valid program now FAILS: {exc!r}"
        bad += 1
    print(f"{refused.__name__:12s}: {n:2d} failed bodies, registers reserved with nothing open: {len(left):2d} -> {outcome}")
    if left and "FAILS" not in outcome:
        bad += 1

if bad:
    print(
        "\nEXPECTED: like the context-manager forms (ctx_*), the callback forms release what they\n"
        "          reserved when the body raises, so the valid program keeps compiling.\n"
        "HAPPENED: each failed callback keeps 1 (loop_body) or 3 (post_routine) registers for ever."
    )
    sys.exit(1)
print("OK")
