"""C20 / finding 2 (NV hardware configuration): toffoli_gate fails once virtual qubit 0 has been vacated.

On a connection that compiles for NV (NVSubroutineTranspiler + NVHardwareConfig, controller with
the NV flavour) toffoli_gate works on a fresh connection, where the three qubits have the virtual
IDs 0, 1, 2.  After a parity_meas the builder has relocated the qubit that sat on virtual ID 0
(the electron) to a memory qubit and nothing occupies ID 0 any more.  The CNOTs between two memory
qubits inside toffoli_gate are then transpiled into a swap through virtual qubit 0 - which the
transpiler never allocates - and the package's own Executor refuses the subroutine.
"""
import sys

# ---------------------------------------------------------------------------
# A minimal in-process state-vector backend: the package's own Executor and
# QNodeController, with only the quantum hooks filled in, and a connection that
# hands every serialized message straight to that controller.
# ---------------------------------------------------------------------------
import numpy as np

from netqasm.backend.executor import Executor
from netqasm.backend.messages import deserialize_host_msg
from netqasm.backend.qnodeos import QNodeController
from netqasm.lang import instr as ins
from netqasm.sdk.connection import BaseNetQASMConnection
from netqasm.sdk.network import NetworkInfo
from netqasm.util.quantum_gates import get_rotation_matrix


class SVExecutor(Executor):
    def __init__(self, *a, **kw):
        super().__init__(*a, **kw)
        self.phys = []  # physical qubit IDs, in tensor order
        self.state = np.ones((), dtype=complex)
        self.rng = np.random.default_rng(2024)
        self.forced = []  # outcomes to force for the next `meas` instructions
        self.meas_log = []  # (virtual id, outcome, probability of that outcome)

    def _apply(self, mat, targets):
        k, n = len(targets), len(self.phys)
        axes = [self.phys.index(t) for t in targets]
        mat = np.asarray(mat, dtype=complex).reshape((2,) * (2 * k))
        st = np.tensordot(mat, self.state, axes=(list(range(k, 2 * k)), axes))
        rest = [i for i in range(n) if i not in axes]
        self.state = np.transpose(st, np.argsort(axes + rest))

    def _measure(self, p, forced=None):
        ax = self.phys.index(p)
        st = np.moveaxis(self.state, ax, 0)
        p0 = float(np.sum(np.abs(st[0]) ** 2))
        out = int(self.rng.random() >= p0) if forced is None else forced
        prob = [p0, 1 - p0][out]
        new = np.zeros_like(st)
        new[out] = st[out] / np.sqrt(prob)
        self.state = np.moveaxis(new, 0, ax)
        return out, prob

    def _reserve_physical_qubit(self, p):
        self.state = np.tensordot(self.state, np.array([1, 0], dtype=complex), axes=0)
        self.phys.append(p)

    def _clear_phys_qubit_in_memory(self, p):
        out, _ = self._measure(p)
        self.state = np.take(self.state, out, axis=self.phys.index(p))
        self.phys.remove(p)

    def _pos(self, subroutine_id, address):
        return self._get_position(subroutine_id=subroutine_id, address=address)

    def _do_single_qubit_instr(self, instr, subroutine_id, address):
        p = self._pos(subroutine_id, address)
        if isinstance(instr, ins.core.InitInstruction):
            out, _ = self._measure(p)
            if out == 1:
                self._apply([[0, 1], [1, 0]], [p])
        else:
            self._apply(instr.to_matrix(), [p])

    def _do_single_qubit_rotation(self, instr, subroutine_id, address, angle):
        axis = {"rot_x": [1, 0, 0], "rot_y": [0, 1, 0], "rot_z": [0, 0, 1]}[instr.mnemonic]
        self._apply(get_rotation_matrix(axis, angle), [self._pos(subroutine_id, address)])

    def _do_controlled_qubit_rotation(self, instr, subroutine_id, address1, address2, angle):
        self._apply(instr.to_matrix(), [self._pos(subroutine_id, address1), self._pos(subroutine_id, address2)])

    def _do_two_qubit_instr(self, instr, subroutine_id, address1, address2):
        self._apply(instr.to_matrix(), [self._pos(subroutine_id, address1), self._pos(subroutine_id, address2)])

    def _do_meas(self, subroutine_id, q_address):
        forced = self.forced.pop(0) if self.forced else None
        out, prob = self._measure(self._pos(subroutine_id, q_address), forced)
        self.meas_log.append((q_address, out, prob))
        return out

    # helpers for the check: state of / for the given virtual qubits (all that are allocated)
    def get_state(self, app_id, virt_ids):
        ps = [self._get_position(app_id=app_id, address=v) for v in virt_ids]
        assert sorted(ps) == sorted(self.phys), (ps, self.phys)
        return np.transpose(self.state, [self.phys.index(p) for p in ps]).reshape(-1)

    def set_state(self, app_id, virt_ids, vec):
        ps = [self._get_position(app_id=app_id, address=v) for v in virt_ids]
        assert sorted(ps) == sorted(self.phys), (ps, self.phys)
        self.phys = ps
        self.state = np.asarray(vec, dtype=complex).reshape((2,) * len(ps))


class SVController(QNodeController):
    @classmethod
    def _get_executor_class(cls, flavour=None):
        return SVExecutor

    def stop(self):
        pass

    def _mark_message_finished(self, msg_id, msg):
        pass


class _NetInfo(NetworkInfo):
    @classmethod
    def _get_node_id(cls, node_name):
        return 0

    @classmethod
    def _get_node_name(cls, node_id):
        return "node"

    @classmethod
    def get_node_id_for_app(cls, app_name):
        return 0

    @classmethod
    def get_node_name_for_app(cls, app_name):
        return app_name


class SVConnection(BaseNetQASMConnection):
    def __init__(self, app_name="app", flavour=None, **kw):
        self.controller = SVController(name=app_name, flavour=flavour)
        super().__init__(app_name, node_name=app_name, **kw)

    @property
    def executor(self):
        return self.controller._executor

    def _commit_serialized_message(self, raw_msg, block=True, callback=None):
        list(self.controller.handle_netqasm_message(0, deserialize_host_msg(raw_msg)))

    def _get_network_info(self):
        return _NetInfo
# ---------------------------------------------------------------------------

from netqasm.lang.instr.flavour import NVFlavour
from netqasm.sdk.build_types import NVHardwareConfig
from netqasm.sdk.qubit import Qubit
from netqasm.sdk.toolbox import parity_meas, toffoli_gate
from netqasm.sdk.transpile import NVSubroutineTranspiler

TOFFOLI = np.eye(8, dtype=complex)
TOFFOLI[6:, 6:] = [[0, 1], [1, 0]]
rng = np.random.default_rng(11)


def rand_state(n):
    v = rng.normal(size=2**n) + 1j * rng.normal(size=2**n)
    return v / np.linalg.norm(v)


def check_toffoli(conn, qs, label):
    ex = conn.executor
    ids = [q.qubit_id for q in qs]
    psi = rand_state(3)
    ex.set_state(conn.app_id, ids, psi)
    toffoli_gate(*qs)
    try:
        conn.flush()
    except Exception as err:  # noqa
        print(f"{label}: qubits on virtual IDs {ids}: flush raised {type(err).__name__}: {str(err).splitlines()[0]}")
        return False
    out = ex.get_state(conn.app_id, [q.qubit_id for q in qs])
    ok = abs(abs(np.vdot(TOFFOLI @ psi, out)) - 1) < 1e-7
    print(f"{label}: qubits on virtual IDs {ids}: equals Toffoli (up to phase): {ok}")
    return ok


conn = SVConnection(
    "alice",
    flavour=NVFlavour(),
    compiler=NVSubroutineTranspiler,
    hardware_config=NVHardwareConfig(5),
    max_qubits=5,
)
qs = [Qubit(conn) for _ in range(3)]
conn.flush()

ok_fresh = check_toffoli(conn, qs, "fresh connection     ")

# A parity measurement in between (in the domain of the property, and correct by itself):
conn.executor.set_state(conn.app_id, [q.qubit_id for q in qs], rand_state(3))
m = parity_meas(qs, "XYZ")
conn.flush()
print(f"parity_meas(qs, 'XYZ') -> {int(m)}; the qubits are now on virtual IDs {[q.qubit_id for q in qs]}")

ok_after = check_toffoli(conn, qs, "after the parity_meas")

print("expected: toffoli_gate equals the Toffoli unitary both times")
if not (ok_fresh and ok_after):
    sys.exit(1)
print("ok")
