"""C17, whole-subroutine clause: the text printed for a subroutine that the package's own
NV transpiler produced in debug mode is not NetQASM source, and the numeric branch
targets printed in it do not denote the instructions that the binary form branches to.

Expected (if the property held): joining str(instr) for all instructions of the subroutine
gives source that parses with the NV flavour and encodes to the same bytes as the
subroutine itself (text -> binary -> text stable).
"""
import sys

from netqasm.lang.instr.flavour import NVFlavour
from netqasm.lang.parsing import deserialize
from netqasm.lang.parsing.text import parse_text_subroutine
from netqasm.sdk.transpile import NVSubroutineTranspiler

SRC = """
# NETQASM 0.10
# APPID 0
set Q0 1
set Q1 2
beq R0 R1 end
cnot Q0 Q1
end:
ret_reg R0
"""

vanilla = parse_text_subroutine(SRC)
sub = NVSubroutineTranspiler(vanilla, debug=True).transpile()  # an NV-flavour subroutine
binary = bytes(sub)  # the package encodes it (comments dropped, targets moved)

printed = [str(instr) for instr in sub.instructions]
text = "# NETQASM 0.10\n# APPID 0\n" + "\n".join(printed)
print("printed subroutine:")
for i, line in enumerate(printed):
    print(f"  {i:3d}  {line}")

failed = False

# (1) is the printed text NetQASM source?
try:
    reparsed = parse_text_subroutine(text, flavour=NVFlavour())
    print("(1) printed text parses")
except Exception as err:  # noqa
    failed = True
    reparsed = None
    print(f"(1) VIOLATION: printed text is refused by the parser: {type(err).__name__}: {err}")
    print("    expected: it parses (a comment is written '// ...' in NetQASM, '#' starts a preamble line)")

# (2) even when the debug lines are written in the comment syntax of the language, the
#     branch targets that were printed count those lines, the parser (and the binary) do not.
as_comments = text.replace("\n# begin SWAP", "\n// begin SWAP").replace(
    "\n# end SWAP", "\n// end SWAP"
)
reparsed2 = parse_text_subroutine(as_comments, flavour=NVFlavour())
want = [str(i) for i in deserialize(binary, flavour=NVFlavour()).instructions]
got = [str(i) for i in reparsed2.instructions]
if bytes(reparsed2) != binary:
    failed = True
    diff = [(w, g) for w, g in zip(want, got) if w != g]
    print("(2) VIOLATION: text -> binary differs from the subroutine's own binary")
    print(f"    expected (decoded from bytes(subroutine)): {[w for w, _ in diff]}")
    print(f"    got (parsed from the printed text):         {[g for _, g in diff]}")
    n = len(got)
    print(f"    (the parsed program has {n} instructions; its branch target is outside/elsewhere)")
else:
    print("(2) text -> binary agrees")

sys.exit(1 if failed else 0)
