"""C13 finding 3: a keep-delivery into a physical qubit that is already mapped is accepted.

Executor._handle_epr_ok_k_response takes `logical_qubit_id` from the response and maps the
requested virtual qubit to it without looking whether that physical qubit is mapped already
(by a qalloc or an earlier delivery, of the same or of another application).  From then on the
bookkeeping cannot recover: freeing one of the two owners marks the qubit free while the other
still has it, the next qalloc hands it out again, and finally stop_application fails half-way, after
which the application id cannot be registered again.

Expected (property C13): across any history of allocations and entanglement deliveries no two
allocated virtual qubits map to the same physical qubit (the delivery has to be refused, leaving
no trace); in-use set == mapped set; stop releases everything and the id can be registered again.
"""
import sys

from netqasm.backend.executor import Executor
from netqasm.backend.network_stack import BaseNetworkStack
from netqasm.lang.parsing import parse_text_subroutine
from netqasm.qlink_compat import BellState, LinkLayerOKTypeK, ReturnType
from netqasm.sdk.shared_memory import SharedMemoryManager


class Stack(BaseNetworkStack):
    def put(self, request):
        pass

    def setup_epr_socket(self, epr_socket_id, remote_node_id, remote_epr_socket_id, timeout=1.0):
        return None

    def get_purpose_id(self, remote_node_id, epr_socket_id):
        return epr_socket_id


class Controller(Executor):
    @property
    def node_id(self):
        return 0

    def _do_wait(self):
        yield "wait"

    def _wait_to_handle_epr_responses(self):
        return None


def subroutine(app_id, text):
    return parse_text_subroutine(f"# NETQASM 1.0\n# APPID {app_id}\n{text}")


def recv_keep(app_id, virt_id, sock=0):
    return subroutine(
        app_id,
        f"""
        set R0 10
        array R0 @0
        set R0 1
        array R0 @1
        set R5 {virt_id}
        store R5 @1[0]
        set R1 1
        set R2 {sock}
        set R3 1
        set R4 0
        recv_epr R1 R2 R3 R4
        wait_all @0[0:10]
        """,
    )


def keep_response(phys, sock=0):
    return LinkLayerOKTypeK(
        type=ReturnType.OK_K, create_id=0, logical_qubit_id=phys, directionality_flag=1,
        sequence_number=0, purpose_id=sock, remote_node_id=1, goodness=0, goodness_time=0,
        bell_state=BellState.PHI_PLUS,
    )


def mapping(ex):
    return {
        (app, v): p
        for app, um in ex._qubit_unit_modules.items()
        for v, p in enumerate(um)
        if p is not None
    }


failures = []


def check(ex, when):
    m = mapping(ex)
    phys = sorted(m.values())
    used = sorted(ex._used_physical_qubit_addresses)
    ok = len(set(phys)) == len(phys) and used == sorted(set(phys))
    print(("ok      " if ok else "VIOLATED") + f" {when}: (app, virtual)->physical {m}, in use {used}")
    if not ok:
        failures.append(when)


SharedMemoryManager.reset_memories()
ex = Controller(name="ctrl")
ex.network_stack = Stack()
ex.init_new_application(app_id=0, max_qubits=2)
ex.init_new_application(app_id=1, max_qubits=2)

ex.consume_execute_subroutine(subroutine(0, "set Q0 0\nqalloc Q0\n"))  # app 0: virtual 0 -> physical 0
check(ex, "after qalloc of app 0")

g = ex.execute_subroutine(recv_keep(1, virt_id=0))
next(g)
try:
    ex._handle_epr_response(keep_response(phys=0))  # the pair sits in physical qubit 0
    print("         delivery into physical qubit 0 accepted without complaint")
except Exception as exc:
    print("         delivery refused:", type(exc).__name__, str(exc).splitlines()[0])
check(ex, "after a keep-delivery for app 1 that names physical qubit 0")

# only valid operations from here on
ex.consume_execute_subroutine(subroutine(0, "set Q0 0\nqfree Q0\n"))
check(ex, "after app 0 freed its qubit")
ex.consume_execute_subroutine(subroutine(0, "set Q0 1\nqalloc Q0\n"))
check(ex, "after app 0 allocated another qubit")

for app in (1, 0):
    try:
        list(ex.stop_application(app_id=app))
        print(f"         stop_application({app}) done")
    except Exception as exc:
        print(f"VIOLATED stop_application({app}) raised {type(exc).__name__}: {exc}")
        failures.append(f"stop {app}")
check(ex, "after stopping both applications")
for app in (0, 1):
    try:
        ex.init_new_application(app_id=app, max_qubits=2)
        print(f"ok       app id {app} registered again")
    except Exception as exc:
        print(f"VIOLATED app id {app} cannot be registered again: {type(exc).__name__}: {exc}")
        failures.append(f"re-register {app}")

print()
if failures:
    print(f"{len(failures)} expectation(s) violated")
    sys.exit(1)
print("all expectations hold")
