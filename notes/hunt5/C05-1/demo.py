"""C05 finding 1: a Future / RegFuture handle that the host has read once keeps that value for ever.

Program (two flushes, handle read after each flush):

    arr = conn.new_array(init_values=[1]);  f = arr.get_future_index(0)
    conn.flush();  int(f)            # 1
    f.add(5)
    conn.flush();  int(f)            # must be 6 (the controller has 6)

and the same with a measurement outcome in a register (m.add(1) in a second subroutine).
"""
import sys

# ---------------------------------------------------------------------------------------------
# Minimal in-process set-up: an SDK connection whose messages are handed to the package's own
# reference Executor (netqasm.backend.executor.Executor).  Only the quantum hooks are filled in:
# they log the gate applications and take measurement outcomes from a script.
# ---------------------------------------------------------------------------------------------
import itertools

from netqasm.backend.executor import Executor
from netqasm.backend.messages import MessageType, deserialize_host_msg
from netqasm.lang.parsing import deserialize
from netqasm.sdk.connection import BaseNetQASMConnection
from netqasm.sdk.network import NetworkInfo

_names = itertools.count()


class LogExecutor(Executor):
    def __init__(self, name, outcomes=()):
        super().__init__(name=name)
        self.oplog = []  # gate applications / measurements, in order
        self.outcomes = list(outcomes)

    def _do_single_qubit_instr(self, instr, subroutine_id, address):
        self.oplog.append((instr.mnemonic, address))

    def _do_single_qubit_rotation(self, instr, subroutine_id, address, angle):
        self.oplog.append((instr.mnemonic, address, round(angle, 6)))

    def _do_two_qubit_instr(self, instr, subroutine_id, address1, address2):
        self.oplog.append((instr.mnemonic, address1, address2))

    def _do_meas(self, subroutine_id, q_address):
        outcome = self.outcomes.pop(0) if self.outcomes else 0
        self.oplog.append(("meas", q_address, outcome))
        return outcome


class _Info(NetworkInfo):
    @classmethod
    def _get_node_id(cls, node_name):
        return 0

    @classmethod
    def _get_node_name(cls, node_id):
        return "node"

    @classmethod
    def get_node_id_for_app(cls, app_name):
        return 0

    @classmethod
    def get_node_name_for_app(cls, app_name):
        return app_name


class Conn(BaseNetQASMConnection):
    def __init__(self, outcomes=(), **kwargs):
        name = f"demo{next(_names)}"
        self.executor = LogExecutor(name, outcomes)
        self.sent = []
        super().__init__(app_name=name, node_name=name, **kwargs)

    def _get_network_info(self):
        return _Info

    def _commit_serialized_message(self, raw_msg, block=True, callback=None):
        msg = deserialize_host_msg(raw_msg)
        if msg.TYPE == MessageType.INIT_NEW_APP:
            self.executor.init_new_application(msg.app_id, msg.max_qubits)
        elif msg.TYPE == MessageType.SUBROUTINE:
            subroutine = deserialize(msg.subroutine)
            self.sent.append(subroutine)
            self.executor.consume_execute_subroutine(subroutine)
        elif msg.TYPE == MessageType.STOP_APP:
            list(self.executor.stop_application(msg.app_id))

    # the controller's own memory (not the host's copy)
    def ctrl_array(self, address):
        return list(self.executor._app_arrays[self.app_id]._get_array(address))

    def ctrl_reg(self, reg):
        return self.executor._get_register(self.app_id, reg)


# ---------------------------------------------------------------------------------------------
from netqasm.sdk.qubit import Qubit

failures = []


def check(what, expected, got):
    ok = expected == got
    print(f"{'ok  ' if ok else 'FAIL'} {what}: expected {expected!r}, got {got!r}")
    if not ok:
        failures.append(what)


# --- (a) array entry -------------------------------------------------------------------------
conn = Conn()
arr = conn.new_array(init_values=[1])
f = arr.get_future_index(0)
conn.flush()
check("f after flush 1", 1, int(f))
f.add(5)
conn.flush()
check("controller @0[0] after flush 2", [6], conn.ctrl_array(arr.address))
check("a handle made after flush 2", 6, int(arr.get_future_index(0)))
check("f (handle held by the host, read after flush 1) after flush 2", 6, int(f))

# The same program without the read in between: the handle is right.
conn = Conn()
arr = conn.new_array(init_values=[1])
g = arr.get_future_index(0)
conn.flush()
g.add(5)
conn.flush()
check("same program, handle not read after flush 1", 6, int(g))

# --- (b) register ----------------------------------------------------------------------------
conn = Conn(outcomes=[1])
q = Qubit(conn)
m = q.measure(store_array=False)
conn.flush()
check("m after flush 1", 1, int(m))
m.add(1)
conn.flush()
check("controller register after flush 2", 2, conn.ctrl_reg(m.reg))
check("m (read after flush 1) after flush 2", 2, int(m))

# --- (c) a consequence for control flow: a loop bound taken from such a handle --------------
conn = Conn()
n_arr = conn.new_array(init_values=[1])
n = n_arr.get_future_index(0)
q = Qubit(conn)
conn.flush()
check("n after flush 1", 1, int(n))
n.add(2)  # n is 3 on the controller from here on
conn.flush()
with conn.loop(n):  # direct execution: range(3)
    q.X()
conn.flush()
xs = [op for op in conn.executor.oplog if op[0] == "x"]
check("number of X applications in `with conn.loop(n)` (n == 3 on the controller)", 3, len(xs))

if failures:
    print(f"\n{len(failures)} check(s) failed")
    sys.exit(1)
print("all checks passed")
